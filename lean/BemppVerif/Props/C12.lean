/-
C12 — Quadrature rules have their stated degree of exactness.
Property theorems only; helper lemmas live in BemppVerif/Lemmas/QuadLemmas.lean.
-/
import BemppVerif.Model.Quad
import BemppVerif.Lemmas.Duffy
import Mathlib.Algebra.Order.Field.Basic
import Mathlib.Tactic.Linarith
import Mathlib.Tactic.IntervalCases
import Mathlib.Tactic.NormNum

namespace BemppVerif.C12
open BemppVerif.Model.Quad BemppVerif.Gen BemppVerif.Lemmas

/-! ### Singular (Duffy) rules: structure for every order `n` and every 1-D rule -/

/-- `number_of_quadrature_points`: the rule built from any 1-D rule with `n` points has
`6n⁴ / 5n⁴ / 2n⁴` points (all `n`). -/
theorem duffy_count {R : Type} [Add R] [Sub R] [Mul R] [One R] (adj : Adj) (xs ws : List R) (n : Nat)
    (hx : xs.length = n) (hw : ws.length = n) :
    (duffy adj xs ws).length = numberOfQuadPoints adj n :=
  duffy_length adj xs ws n hx hw

/-- weighted monomial in the raw Duffy coordinates (reference triangle `0 ≤ y ≤ x ≤ 1`) -/
def monoRaw {K : Type} [CommRing K] (a b c d : Nat) (q : QP K) : K :=
  q.w * (q.tx ^ a * q.ty ^ b * q.sx ^ c * q.sy ^ d)

theorem vertex_adjacent_exact {K : Type} [Field K] [CharZero K] (xs ws : List K) (D : Nat)
    (hex : ∀ j ≤ D, mom xs ws j = 1 / ((j : K) + 1)) (a b c d : Nat) (hdeg : a + b + c + d + 3 ≤ D) :
    ((duffyRaw .vertex xs ws).map (monoRaw a b c d)).sum
      = 1 / (((b : K) + 1) * ((a : K) + b + 2)) * (1 / (((d : K) + 1) * ((c : K) + d + 2))) := by
  rw [duffyRaw_sum]
  have hreg : ∀ t s : K × K × K,
      ((regions .vertex t.1 t.2.1 s.1 s.2.1 (t.2.2 * s.2.2)).map (monoRaw a b c d)).sum
        = (t.2.2 * (t.1 ^ (a + b + c + d + 3) * t.2.1 ^ b)) * (s.2.2 * (s.1 ^ (c + d + 1) * s.2.1 ^ d))
          + (t.2.2 * (t.1 ^ (a + b + c + d + 3) * t.2.1 ^ d)) * (s.2.2 * (s.1 ^ (a + b + 1) * s.2.1 ^ b)) := by
    intro t s
    simp only [regions, monoRaw, List.map_cons, List.map_nil, List.sum_cons, List.sum_nil]
    ring
  simp only [hreg]
  simp only [sum_map_add']
  rw [tensor2_sum_sep xs ws (fun x => x ^ (a + b + c + d + 3)) (fun x => x ^ b)
        (fun x => x ^ (c + d + 1)) (fun x => x ^ d),
      tensor2_sum_sep xs ws (fun x => x ^ (a + b + c + d + 3)) (fun x => x ^ d)
        (fun x => x ^ (a + b + 1)) (fun x => x ^ b)]
  have m := fun j (h : j ≤ D) => hex j h
  unfold mom at m
  rw [m _ hdeg, m b (by omega), m d (by omega), m (c + d + 1) (by omega), m (a + b + 1) (by omega)]
  have h1 : ((b : K) + 1) ≠ 0 := by exact_mod_cast Nat.succ_ne_zero b
  have h2 : ((d : K) + 1) ≠ 0 := by exact_mod_cast Nat.succ_ne_zero d
  have h3 : ((a : K) + b + 2) ≠ 0 := by exact_mod_cast Nat.succ_ne_zero (a + b + 1)
  have h4 : ((c : K) + d + 2) ≠ 0 := by exact_mod_cast Nat.succ_ne_zero (c + d + 1)
  have h5 : ((a : K) + b + c + d + 3 + 1) ≠ 0 := by exact_mod_cast Nat.succ_ne_zero (a + b + c + d + 3)
  have h3' : ((a : K) + b + 1 + 1) ≠ 0 := by exact_mod_cast Nat.succ_ne_zero (a + b + 1)
  have h4' : ((c : K) + d + 1 + 1) ≠ 0 := by exact_mod_cast Nat.succ_ne_zero (c + d + 1)
  push_cast
  field_simp
  ring

/-- Non-vacuity of `vertex_adjacent_exact`: Simpson's rule on [0,1] has exact moments up to degree 3,
so the hypotheses are met with `D = 3`, `a=b=c=d=0`. -/
example : (∀ j ≤ 3, mom ([0, 1/2, 1] : List ℚ) [1/6, 2/3, 1/6] j = 1 / ((j : ℚ) + 1)) ∧ 0 + 0 + 0 + 0 + 3 ≤ 3 := by
  refine ⟨?_, by norm_num⟩
  intro j hj
  interval_cases j <;> norm_num [mom, wsum]

/-- the final `points[0] -= points[1]` maps the Duffy reference triangle `0 ≤ y ≤ x ≤ 1` onto
Bempp's `x',y' ≥ 0, x'+y' ≤ 1`; it is linear with determinant 1, so exactness for all polynomials of
a given total degree is the same statement in either coordinate system. -/
theorem fixup_maps_triangle {K : Type} [Field K] [LinearOrder K] [IsStrictOrderedRing K] (q : QP K) :
    (0 ≤ q.ty ∧ q.ty ≤ q.tx ∧ q.tx ≤ 1) ↔
      (0 ≤ (fixup q).tx ∧ 0 ≤ (fixup q).ty ∧ (fixup q).tx + (fixup q).ty ≤ 1) := by
  simp only [fixup]
  constructor
  · rintro ⟨h1, h2, h3⟩; exact ⟨by linarith, h1, by linarith⟩
  · rintro ⟨h1, h2, h3⟩; exact ⟨h2, by linarith, by linarith⟩

/-- the six coincident regions come in three pairs that are mirror images under exchanging test
and trial point, with equal weights: the coincident rule is swap-invariant as a multiset (all n). -/
theorem coincident_regions_swap {K : Type} [CommRing K] (xsi e1 e2 e3 tw : K) :
    ((regions .coincident xsi e1 e2 e3 tw).map swapQP).Perm (regions .coincident xsi e1 e2 e3 tw) := by
  simp only [regions, swapQP, List.map_cons, List.map_nil]
  exact (List.Perm.swap _ _ _).trans
    (List.Perm.cons _ (List.Perm.cons _ ((List.Perm.swap _ _ _).trans
      (List.Perm.cons _ (List.Perm.cons _ (List.Perm.swap _ _ _))))))

theorem coincident_rule_swap_invariant {K : Type} [CommRing K] (xs ws : List K) :
    ((duffyRaw .coincident xs ws).map swapQP).Perm
      ((tensor xs ws).flatMap fun t => (tensor xs ws).flatMap fun s =>
        regions .coincident t.1 t.2.1 s.1 s.2.1 (t.2.2 * s.2.2)) := by
  unfold duffyRaw
  rw [List.map_flatMap]
  apply List.Perm.flatMap_left
  intro t _
  rw [List.map_flatMap]
  apply List.Perm.flatMap_left
  intro s _
  exact coincident_regions_swap _ _ _ _ _

/-! ### Remaps are permutations of the barycentric coordinates (affine, |det| = 1, triangle onto itself) -/

/-- barycentric coordinates of a point of the reference triangle w.r.t. its vertices 0,1,2 -/
def bary {K : Type} [CommRing K] (p : K × K) (i : Nat) : K :=
  if i = 0 then 1 - p.1 - p.2 else if i = 1 then p.1 else p.2


/-- shared-vertex remap `v`: the default singular vertex 0 is sent to vertex `v`, the other two
barycentric coordinates are permuted. -/
theorem remap_vertex_bary {K : Type} [CommRing K] (p : K × K) :
    (∃ q, remapVertex p 0 = some q ∧ ∀ i, bary q i = bary p i) ∧
    (∃ q, remapVertex p 1 = some q ∧ bary q 1 = bary p 0 ∧ bary q 0 = bary p 1 ∧ bary q 2 = bary p 2) ∧
    (∃ q, remapVertex p 2 = some q ∧ bary q 2 = bary p 0 ∧ bary q 0 = bary p 2 ∧ bary q 1 = bary p 1) ∧
    (∀ v, 3 ≤ v → remapVertex p v = none) := by
  refine ⟨⟨p, rfl, fun _ => rfl⟩, ⟨_, rfl, ?_, ?_, ?_⟩, ⟨_, rfl, ?_, ?_, ?_⟩, ?_⟩
  all_goals first
    | (simp [bary]; done)
    | (simp [bary]; ring)
    | (intro v hv
       match v, hv with
       | v + 3, _ => rfl)

/-- shared-edge remap `(v0,v1)`: reference vertex 0 ↦ `v0`, 1 ↦ `v1`, 2 ↦ the remaining vertex. -/
theorem remap_edge_bary {K : Type} [CommRing K] (p : K × K) (v0 v1 : Nat) (h0 : v0 < 3) (h1 : v1 < 3)
    (hne : v0 ≠ v1) :
    ∃ q, remapEdge p v0 v1 = some q ∧ bary q v0 = bary p 0 ∧ bary q v1 = bary p 1 ∧
      bary q (3 - v0 - v1) = bary p 2 := by
  interval_cases v0 <;> interval_cases v1 <;> simp_all [remapEdge, refVertex, bary] <;>
    (try ring_nf) <;> (try trivial)

/-- outside the pairs used by the callers the model (like the source) gives no usable remap -/
theorem remap_edge_rejects {K : Type} [CommRing K] (p : K × K) (v : Nat) : remapEdge p v v = none := by
  simp [remapEdge]

end BemppVerif.C12
