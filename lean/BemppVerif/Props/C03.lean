/-
C03 — Boundary operators are equivariant under motion, scaling and relabelling (partial).

Kernel level (canonical kernels = traced kernels, all families): invariance under translation and under rotations
(`QᵀQ = 1`), homogeneity under scaling.  Matrix level: the Galerkin sum is invariant under any reordering of the element
lists (`galerkin_perm`), i.e. under element renumbering once dofs are permuted accordingly.
NOT proved: equality "up to singular-quadrature error" for local vertex rotation and orientation flips (oracle), the
rotation equivariance of the cross product for the Maxwell / hypersingular geometric factors.
-/
import BemppVerif.Lemmas.KernelFacts
import BemppVerif.Lemmas.AsmSpec
import Mathlib.Tactic.LinearCombination
import Mathlib.Tactic.FieldSimp

namespace BemppVerif.C03
open BemppVerif.Kernels BemppVerif.Model.Asm BemppVerif.Lemmas

section
variable {K : Type} [Field K] (sqrt cos sin exp : K → K) (c4pi : K)

/-- squared distance and normal projections only depend on differences: **translation invariance** of `r`, `(y-x)·n_y`,
`(y-x)·n_x`, hence of every canonical (= traced) kernel of the Laplace, Helmholtz and modified Helmholtz families -/
theorem kernels_translation_invariant (x0 x1 x2 y0 y1 y2 nx0 nx1 nx2 ny0 ny1 ny2 p0 p1 t0 t1 t2 : K) :
    r sqrt cos sin exp c4pi (x0 + t0) (x1 + t1) (x2 + t2) (y0 + t0) (y1 + t1) (y2 + t2) nx0 nx1 nx2 ny0 ny1 ny2 p0 p1
      = r sqrt cos sin exp c4pi x0 x1 x2 y0 y1 y2 nx0 nx1 nx2 ny0 ny1 ny2 p0 p1 ∧
    dny sqrt cos sin exp c4pi (x0 + t0) (x1 + t1) (x2 + t2) (y0 + t0) (y1 + t1) (y2 + t2) nx0 nx1 nx2 ny0 ny1 ny2 p0 p1
      = dny sqrt cos sin exp c4pi x0 x1 x2 y0 y1 y2 nx0 nx1 nx2 ny0 ny1 ny2 p0 p1 ∧
    dnx sqrt cos sin exp c4pi (x0 + t0) (x1 + t1) (x2 + t2) (y0 + t0) (y1 + t1) (y2 + t2) nx0 nx1 nx2 ny0 ny1 ny2 p0 p1
      = dnx sqrt cos sin exp c4pi x0 x1 x2 y0 y1 y2 nx0 nx1 nx2 ny0 ny1 ny2 p0 p1 := by
  refine ⟨?_, ?_, ?_⟩
  · simp only [r]; congr 1; ring
  · simp only [dny]; ring
  · simp only [dnx]; ring

/-- all canonical kernels are functions of `r`, `dny`, `dnx` and the parameters: a transformation of the arguments that
preserves these three preserves every kernel -/
theorem kernels_depend_on_r_dny_dnx
    (a b : Fin 14 → K)
    (hr : r sqrt cos sin exp c4pi (a 0) (a 1) (a 2) (a 3) (a 4) (a 5) (a 6) (a 7) (a 8) (a 9) (a 10) (a 11) (a 12) (a 13)
        = r sqrt cos sin exp c4pi (b 0) (b 1) (b 2) (b 3) (b 4) (b 5) (b 6) (b 7) (b 8) (b 9) (b 10) (b 11) (b 12) (b 13))
    (hy : dny sqrt cos sin exp c4pi (a 0) (a 1) (a 2) (a 3) (a 4) (a 5) (a 6) (a 7) (a 8) (a 9) (a 10) (a 11) (a 12) (a 13)
        = dny sqrt cos sin exp c4pi (b 0) (b 1) (b 2) (b 3) (b 4) (b 5) (b 6) (b 7) (b 8) (b 9) (b 10) (b 11) (b 12) (b 13))
    (hx : dnx sqrt cos sin exp c4pi (a 0) (a 1) (a 2) (a 3) (a 4) (a 5) (a 6) (a 7) (a 8) (a 9) (a 10) (a 11) (a 12) (a 13)
        = dnx sqrt cos sin exp c4pi (b 0) (b 1) (b 2) (b 3) (b 4) (b 5) (b 6) (b 7) (b 8) (b 9) (b 10) (b 11) (b 12) (b 13))
    (hp0 : a 12 = b 12) (hp1 : a 13 = b 13) :
    lapSL sqrt cos sin exp c4pi (a 0) (a 1) (a 2) (a 3) (a 4) (a 5) (a 6) (a 7) (a 8) (a 9) (a 10) (a 11) (a 12) (a 13)
      = lapSL sqrt cos sin exp c4pi (b 0) (b 1) (b 2) (b 3) (b 4) (b 5) (b 6) (b 7) (b 8) (b 9) (b 10) (b 11) (b 12) (b 13) ∧
    lapDL sqrt cos sin exp c4pi (a 0) (a 1) (a 2) (a 3) (a 4) (a 5) (a 6) (a 7) (a 8) (a 9) (a 10) (a 11) (a 12) (a 13)
      = lapDL sqrt cos sin exp c4pi (b 0) (b 1) (b 2) (b 3) (b 4) (b 5) (b 6) (b 7) (b 8) (b 9) (b 10) (b 11) (b 12) (b 13) ∧
    lapADL sqrt cos sin exp c4pi (a 0) (a 1) (a 2) (a 3) (a 4) (a 5) (a 6) (a 7) (a 8) (a 9) (a 10) (a 11) (a 12) (a 13)
      = lapADL sqrt cos sin exp c4pi (b 0) (b 1) (b 2) (b 3) (b 4) (b 5) (b 6) (b 7) (b 8) (b 9) (b 10) (b 11) (b 12) (b 13) ∧
    helmSLre sqrt cos sin exp c4pi (a 0) (a 1) (a 2) (a 3) (a 4) (a 5) (a 6) (a 7) (a 8) (a 9) (a 10) (a 11) (a 12) (a 13)
      = helmSLre sqrt cos sin exp c4pi (b 0) (b 1) (b 2) (b 3) (b 4) (b 5) (b 6) (b 7) (b 8) (b 9) (b 10) (b 11) (b 12) (b 13) ∧
    helmSLim sqrt cos sin exp c4pi (a 0) (a 1) (a 2) (a 3) (a 4) (a 5) (a 6) (a 7) (a 8) (a 9) (a 10) (a 11) (a 12) (a 13)
      = helmSLim sqrt cos sin exp c4pi (b 0) (b 1) (b 2) (b 3) (b 4) (b 5) (b 6) (b 7) (b 8) (b 9) (b 10) (b 11) (b 12) (b 13) ∧
    helmDLre sqrt cos sin exp c4pi (a 0) (a 1) (a 2) (a 3) (a 4) (a 5) (a 6) (a 7) (a 8) (a 9) (a 10) (a 11) (a 12) (a 13)
      = helmDLre sqrt cos sin exp c4pi (b 0) (b 1) (b 2) (b 3) (b 4) (b 5) (b 6) (b 7) (b 8) (b 9) (b 10) (b 11) (b 12) (b 13) ∧
    helmDLim sqrt cos sin exp c4pi (a 0) (a 1) (a 2) (a 3) (a 4) (a 5) (a 6) (a 7) (a 8) (a 9) (a 10) (a 11) (a 12) (a 13)
      = helmDLim sqrt cos sin exp c4pi (b 0) (b 1) (b 2) (b 3) (b 4) (b 5) (b 6) (b 7) (b 8) (b 9) (b 10) (b 11) (b 12) (b 13) ∧
    helmADLre sqrt cos sin exp c4pi (a 0) (a 1) (a 2) (a 3) (a 4) (a 5) (a 6) (a 7) (a 8) (a 9) (a 10) (a 11) (a 12) (a 13)
      = helmADLre sqrt cos sin exp c4pi (b 0) (b 1) (b 2) (b 3) (b 4) (b 5) (b 6) (b 7) (b 8) (b 9) (b 10) (b 11) (b 12) (b 13) ∧
    helmADLim sqrt cos sin exp c4pi (a 0) (a 1) (a 2) (a 3) (a 4) (a 5) (a 6) (a 7) (a 8) (a 9) (a 10) (a 11) (a 12) (a 13)
      = helmADLim sqrt cos sin exp c4pi (b 0) (b 1) (b 2) (b 3) (b 4) (b 5) (b 6) (b 7) (b 8) (b 9) (b 10) (b 11) (b 12) (b 13) ∧
    modSL sqrt cos sin exp c4pi (a 0) (a 1) (a 2) (a 3) (a 4) (a 5) (a 6) (a 7) (a 8) (a 9) (a 10) (a 11) (a 12) (a 13)
      = modSL sqrt cos sin exp c4pi (b 0) (b 1) (b 2) (b 3) (b 4) (b 5) (b 6) (b 7) (b 8) (b 9) (b 10) (b 11) (b 12) (b 13) ∧
    modDL sqrt cos sin exp c4pi (a 0) (a 1) (a 2) (a 3) (a 4) (a 5) (a 6) (a 7) (a 8) (a 9) (a 10) (a 11) (a 12) (a 13)
      = modDL sqrt cos sin exp c4pi (b 0) (b 1) (b 2) (b 3) (b 4) (b 5) (b 6) (b 7) (b 8) (b 9) (b 10) (b 11) (b 12) (b 13) ∧
    modADL sqrt cos sin exp c4pi (a 0) (a 1) (a 2) (a 3) (a 4) (a 5) (a 6) (a 7) (a 8) (a 9) (a 10) (a 11) (a 12) (a 13)
      = modADL sqrt cos sin exp c4pi (b 0) (b 1) (b 2) (b 3) (b 4) (b 5) (b 6) (b 7) (b 8) (b 9) (b 10) (b 11) (b 12) (b 13) := by
  simp only [lapSL, lapDL, lapADL, helmSLre, helmSLim, helmDLre, helmDLim, helmADLre, helmADLim, helmFre, helmFim, modSL,
    modDL, modADL]
  simp only [hr, hy, hx]
  simp only [hp0, hp1, and_self]

/-- **Rotation invariance**: for a matrix `Q` with `QᵀQ = 1` (rows `q i`), the squared distance and the normal
projections of rotated points and normals are unchanged: `|Qy - Qx|² = |y - x|²`, `(Qy - Qx)·(Qn) = (y - x)·n`. -/
theorem rotation_preserves_invariants (q : Fin 3 → Fin 3 → K)
    (h00 : q 0 0 * q 0 0 + q 1 0 * q 1 0 + q 2 0 * q 2 0 = 1) (h11 : q 0 1 * q 0 1 + q 1 1 * q 1 1 + q 2 1 * q 2 1 = 1)
    (h22 : q 0 2 * q 0 2 + q 1 2 * q 1 2 + q 2 2 * q 2 2 = 1) (h01 : q 0 0 * q 0 1 + q 1 0 * q 1 1 + q 2 0 * q 2 1 = 0)
    (h02 : q 0 0 * q 0 2 + q 1 0 * q 1 2 + q 2 0 * q 2 2 = 0) (h12 : q 0 1 * q 0 2 + q 1 1 * q 1 2 + q 2 1 * q 2 2 = 0)
    (d0 d1 d2 n0 n1 n2 : K) :
    let R := fun (v0 v1 v2 : K) (i : Fin 3) => q i 0 * v0 + q i 1 * v1 + q i 2 * v2
    (R d0 d1 d2 0) ^ 2 + (R d0 d1 d2 1) ^ 2 + (R d0 d1 d2 2) ^ 2 = d0 ^ 2 + d1 ^ 2 + d2 ^ 2 ∧
    R d0 d1 d2 0 * R n0 n1 n2 0 + R d0 d1 d2 1 * R n0 n1 n2 1 + R d0 d1 d2 2 * R n0 n1 n2 2
      = d0 * n0 + d1 * n1 + d2 * n2 := by
  intro R
  constructor
  · simp only [R]
    linear_combination (d0 ^ 2) * h00 + (d1 ^ 2) * h11 + (d2 ^ 2) * h22 + (2 * d0 * d1) * h01 + (2 * d0 * d2) * h02
      + (2 * d1 * d2) * h12
  · simp only [R]
    linear_combination (d0 * n0) * h00 + (d1 * n1) * h11 + (d2 * n2) * h22 + (d0 * n1 + d1 * n0) * h01
      + (d0 * n2 + d2 * n0) * h02 + (d1 * n2 + d2 * n1) * h12

/-- **Homogeneity** of the invariants under scaling by `s` (given `sqrt (s² a) = s · sqrt a`, i.e. `s > 0` over ℝ):
`r ↦ s r`, `(y-x)·n ↦ s (y-x)·n` (normals are unit vectors and do not scale).  With `k ↦ k/s` the products `k r` are
unchanged, so e.g. `G ↦ G/s`, `∂G/∂n ↦ ∂G/∂n / s²`; the matrix factors of the property follow by multiplying with the
scaling `s²` of each integration element and the scaling of the basis functions. -/
theorem scaling_of_invariants (s : K) (hsqrt : ∀ a, sqrt (s ^ 2 * a) = s * sqrt a)
    (x0 x1 x2 y0 y1 y2 nx0 nx1 nx2 ny0 ny1 ny2 p0 p1 : K) :
    r sqrt cos sin exp c4pi (s * x0) (s * x1) (s * x2) (s * y0) (s * y1) (s * y2) nx0 nx1 nx2 ny0 ny1 ny2 p0 p1
      = s * r sqrt cos sin exp c4pi x0 x1 x2 y0 y1 y2 nx0 nx1 nx2 ny0 ny1 ny2 p0 p1 ∧
    dny sqrt cos sin exp c4pi (s * x0) (s * x1) (s * x2) (s * y0) (s * y1) (s * y2) nx0 nx1 nx2 ny0 ny1 ny2 p0 p1
      = s * dny sqrt cos sin exp c4pi x0 x1 x2 y0 y1 y2 nx0 nx1 nx2 ny0 ny1 ny2 p0 p1 ∧
    dnx sqrt cos sin exp c4pi (s * x0) (s * x1) (s * x2) (s * y0) (s * y1) (s * y2) nx0 nx1 nx2 ny0 ny1 ny2 p0 p1
      = s * dnx sqrt cos sin exp c4pi x0 x1 x2 y0 y1 y2 nx0 nx1 nx2 ny0 ny1 ny2 p0 p1 := by
  refine ⟨?_, ?_, ?_⟩
  · simp only [r]
    rw [← hsqrt]; congr 1; ring
  · simp only [dny]; ring
  · simp only [dnx]; ring

/-- the Laplace single layer kernel is homogeneous of degree −1, its normal derivatives of degree −2 -/
theorem laplace_kernel_homogeneity (s : K) (hs : s ≠ 0) (hsqrt : ∀ a, sqrt (s ^ 2 * a) = s * sqrt a)
    (x0 x1 x2 y0 y1 y2 nx0 nx1 nx2 ny0 ny1 ny2 p0 p1 : K)
    (hr : r sqrt cos sin exp c4pi x0 x1 x2 y0 y1 y2 nx0 nx1 nx2 ny0 ny1 ny2 p0 p1 ≠ 0) :
    lapSL sqrt cos sin exp c4pi (s * x0) (s * x1) (s * x2) (s * y0) (s * y1) (s * y2) nx0 nx1 nx2 ny0 ny1 ny2 p0 p1
      = lapSL sqrt cos sin exp c4pi x0 x1 x2 y0 y1 y2 nx0 nx1 nx2 ny0 ny1 ny2 p0 p1 / s ∧
    lapDL sqrt cos sin exp c4pi (s * x0) (s * x1) (s * x2) (s * y0) (s * y1) (s * y2) nx0 nx1 nx2 ny0 ny1 ny2 p0 p1
      = lapDL sqrt cos sin exp c4pi x0 x1 x2 y0 y1 y2 nx0 nx1 nx2 ny0 ny1 ny2 p0 p1 / s ^ 2 := by
  obtain ⟨h1, h2, _⟩ := scaling_of_invariants sqrt cos sin exp c4pi s hsqrt x0 x1 x2 y0 y1 y2 nx0 nx1 nx2 ny0 ny1 ny2 p0 p1
  constructor
  · simp only [lapSL, h1]; field_simp
  · simp only [lapDL, h1, h2]; field_simp

end

/-- **Element renumbering**: the Galerkin matrix does not depend on the order in which test and trial elements are
listed (any permutation of the support lists) -/
theorem galerkin_element_order_irrelevant {R : Type} [CommRing R] (T S : SpaceData R) {te te' tr tr' : List Nat}
    (h1 : te.Perm te') (h2 : tr.Perm tr') (I : Nat → Nat → Nat → Nat → R) (r c : Nat) :
    galerkin T S te tr I r c = galerkin T S te' tr' I r c :=
  galerkin_perm T S h1 h2 I r c

end BemppVerif.C03
