/-
C09 — Function spaces are conforming and their DOF maps are coherent.
Property theorems only; helper lemmas live in BemppVerif/Lemmas/Space{Basic,P1,Rwg,RwgMain,Block,Dual}.lean.

What is modelled (literal models in Model/Space.lean, compared exactly with the implementation on every run):
`_process_segments`, the DP0/DP1 constructors, `_compute_p1_dof_map`, `_compute_rwg0_space_data` (RWG and SNC),
`invert_local2global` (`Color.g2l`), `make_localised_space`, the dof bookkeeping of DUAL0/DUAL1/BC/RBC.
The reference shape functions are traced from shapesets.py (Gen/SpaceShapes.lean), the dual-space index tables are
extracted from scalar_dual_spaces.py (Gen/SpaceTables.lean), the barycentric connectivity from grid.py
(Gen/GridConsts.lean).

The grid tables (`vertex_neighbors`, `edge_neighbors`, `element_edges`, ...) are INPUTS of the models; every theorem
names the table facts it needs (`VertexNeighborsSound`, ..., `EdgeTables`); C11 proves them for the real tables.
-/
import BemppVerif.Lemmas.SpaceP1
import BemppVerif.Lemmas.SpaceRwgMain
import BemppVerif.Lemmas.SpaceBlock
import BemppVerif.Lemmas.SpaceDual
import BemppVerif.Gen.SpaceShapes
import BemppVerif.Gen.GridConsts
import BemppVerif.Props.C16
import Mathlib.Tactic.Ring
import Mathlib.Tactic.FieldSimp
import Mathlib.Algebra.Field.Rat

namespace BemppVerif.C09
open BemppVerif.Model BemppVerif.Model.Space BemppVerif.Lemmas.Space BemppVerif.Gen

/-! ### (i) `global2local` inverts `local2global` -/

/-- `g2l_inverts_l2g`: for EVERY space (any arrays `local2global`, `local_multipliers`): `(e, i)` is listed in
`global2local[d]` (= `invert_local2global(...)[d]`) iff `local2global[e, i] = d` and `local_multipliers[e, i] ≠ 0`. -/
theorem g2l_inverts_l2g (S : Color.Space) (d e i : Nat) :
    (e, i) ∈ Color.g2l S d ↔ e < S.nelems ∧ (S.row e)[i]? = some d ∧ multOf S e i ≠ 0 := by
  rw [Lemmas.Color.mem_g2l, nz_iff_multOf]

/-! ### DP0 / DP1 / localised spaces -/

/-- DP0 (`ns = 1`) and DP1 (`ns = 3`): `(e, i)` carries dof `d` iff `e` is the `k`-th support element, `i < ns` and
`d = ns·k + i`; every dof `d < ns·|support|` is attached to exactly one `(element, local index)`; the constructor's dof
count is `ns·|support|`. -/
theorem dp_dofs_are_elements (T : Tables) (sup : Nat → Bool) :
    (∀ d p, p ∈ Color.g2l (dp0 T sup).space d ↔
      p.1 < T.ne ∧ sup p.1 = true ∧ p.2 < 1 ∧ d = 1 * (supportList T.ne sup).idxOf p.1 + p.2) ∧
    (∀ d p, p ∈ Color.g2l (dp1 T sup).space d ↔
      p.1 < T.ne ∧ sup p.1 = true ∧ p.2 < 3 ∧ d = 3 * (supportList T.ne sup).idxOf p.1 + p.2) ∧
    (∀ d p q, p ∈ Color.g2l (dp0 T sup).space d → q ∈ Color.g2l (dp0 T sup).space d → p = q) ∧
    (∀ d p q, p ∈ Color.g2l (dp1 T sup).space d → q ∈ Color.g2l (dp1 T sup).space d → p = q) ∧
    (∀ d, d < (dp0 T sup).count → ∃ p, p ∈ Color.g2l (dp0 T sup).space d) ∧
    (∀ d, d < (dp1 T sup).count → ∃ p, p ∈ Color.g2l (dp1 T sup).space d) ∧
    (dp0 T sup).count = (supportList T.ne sup).length ∧ (dp1 T sup).count = 3 * (supportList T.ne sup).length :=
  ⟨fun d p => blockSpace_mem_g2l T.ne 1 sup d p, fun d p => blockSpace_mem_g2l T.ne 3 sup d p,
   fun d p q => blockSpace_g2l_unique T.ne 1 sup d p q, fun d p q => blockSpace_g2l_unique T.ne 3 sup d p q,
   fun d hd => blockSpace_g2l_nonempty T.ne 1 sup (by omega) d (by simpa [dp0] using hd),
   fun d hd => blockSpace_g2l_nonempty T.ne 3 sup (by omega) d hd, rfl, rfl⟩

/-- partition of unity for DP0: on every support element the (single) basis function is
`local_multipliers[e, 0] · φ̂ = 1 · 1` (the reference shape function traced from `_p0_shapeset_evaluate`). -/
theorem dp_partition_of_unity {K : Type} [CommRing K] (T : Tables) (sup : Nat → Bool) (e : Nat) (he : e < T.ne)
    (hs : sup e = true) (xi eta : K) :
    ((multOf (dp0 T sup).space e 0 : Int) : K) * SpaceShapes.p0Shape xi eta = 1 := by
  have : multOf (dp0 T sup).space e 0 = 1 := by
    unfold dp0
    rw [blockSpace_mult T.ne 1 sup he, if_pos ⟨hs, by omega⟩]
  rw [this]
  simp [SpaceShapes.p0Shape]

/-- `make_localised_space`: in the localised space of ANY space with `ns` shape functions `(e, i)` carries dof `d` iff
`e` is the `k`-th support element, `i < ns`, `d = ns·k + i`, and each dof belongs to exactly one `(e, i)` -/
theorem localised_inverts (S : Color.Space) (ns : Nat) :
    (∀ d p, p ∈ Color.g2l (localised S ns) d ↔
      p.1 < S.nelems ∧ S.sup p.1 = true ∧ p.2 < ns ∧ d = ns * (supportList S.nelems S.sup).idxOf p.1 + p.2) ∧
    (∀ d p q, p ∈ Color.g2l (localised S ns) d → q ∈ Color.g2l (localised S ns) d → p = q) :=
  ⟨fun d p => blockSpace_mem_g2l S.nelems ns S.sup d p, fun d p q => blockSpace_g2l_unique S.nelems ns S.sup d p q⟩

/-! ### (ii) P1: dofs are the vertices selected by the options

`P1Selected T sup incl v` : `v` is a vertex of a support element and (`include_boundary_dofs` or
(all `vertex_neighbors[v]` are in the support and not `vertex_on_boundary[v]`)).
`p1Used T sup incl trunc` = `used_dofs` (increasing vertex order). -/

/-- `p1_dof_is_vertex`, all four option combinations, any support: every `(e, i)` of `global2local[d]` sits at ONE
vertex, the `d`-th used vertex `used_dofs[d]`; and every `d < len(used_dofs)` has a non-empty `global2local[d]`. -/
theorem p1_dof_is_vertex (T : Tables) (sup : Nat → Bool) (incl trunc : Bool) (hs : VertexNeighborsSound T)
    (hr : VertexRange T) :
    (∀ d p, p ∈ Color.g2l (p1 T sup incl trunc).space d →
      ∃ h : d < (p1Used T sup incl trunc).length, T.elements p.1 p.2 = (p1Used T sup incl trunc)[d]) ∧
    (∀ d, d < (p1Used T sup incl trunc).length → ∃ p, p ∈ Color.g2l (p1 T sup incl trunc).space d) := by
  refine ⟨fun d p hp => ?_, fun d hd => ?_⟩
  · obtain ⟨_, h, hv⟩ := p1_g2l_vertex T sup incl trunc hs hr d p hp
    exact ⟨h, hv.symm⟩
  · obtain ⟨e, i, hg, _⟩ := p1_g2l_nonempty T sup incl trunc hs d hd
    exact ⟨(e, i), hg⟩

/-- the dofs are exactly the vertices selected by the options, numbered in increasing vertex order -/
theorem p1_dofs_are_selected_vertices (T : Tables) (sup : Nat → Bool) (incl trunc : Bool) :
    (∀ v, v ∈ p1Used T sup incl trunc ↔ v < T.nv ∧ P1Selected T sup incl v) ∧
    (p1Used T sup incl trunc).Pairwise (· < ·) :=
  ⟨mem_p1Used T sup incl trunc, p1Used_pairwise T sup incl trunc⟩

/-- `p1_dof_count`: the constructor's dof count is the number of selected vertices and
`1 + max(local2global)` (= `global_dof_count`) equals it — except that a space without dofs reports 1. -/
theorem p1_dof_count (T : Tables) (sup : Nat → Bool) (incl trunc : Bool) (hs : VertexNeighborsSound T)
    (hr : VertexRange T) :
    (p1 T sup incl trunc).count = (p1Used T sup incl trunc).length ∧
    gridDofCount (p1 T sup incl trunc).space = max 1 (p1 T sup incl trunc).count :=
  ⟨rfl, p1_gridDofCount T sup incl trunc hs hr⟩

/-- `p1_support_extension`: the returned support.  An element is in it iff one of its local vertices `i` is written:
it is a support element and the vertex is selected, or — only with `include_boundary_dofs` and without
`truncate_at_segment_edge` — it is outside the support and shares the vertex with a support element. -/
theorem p1_support_extension (T : Tables) (sup : Nat → Bool) (incl trunc : Bool) (hs : VertexNeighborsSound T)
    (hc : VertexNeighborsComplete T) (hn : NoRepeatedVertex T) (e : Nat) :
    (p1 T sup incl trunc).space.sup e = true ↔ e < T.ne ∧ ∃ i, i < 3 ∧
      ((sup e = true ∧ OwnCond T sup incl (T.elements e i)) ∨
       (incl = true ∧ trunc = false ∧ sup e = false ∧
         ∃ e0 i0, e0 < T.ne ∧ sup e0 = true ∧ i0 < 3 ∧ T.elements e0 i0 = T.elements e i)) := by
  rw [p1_sup T sup incl trunc hs e]
  constructor
  · rintro ⟨he, i, hi, hu⟩
    refine ⟨he, i, hi, ?_⟩
    rcases (p1Used_iff T sup incl trunc e i).1 hu with ⟨_, h2, _, h4⟩ | ⟨h1, h2, h3, _, _, hex⟩
    · exact Or.inl ⟨h2, h4⟩
    · exact Or.inr ⟨h1, h2, h3, hex⟩
  · rintro ⟨he, i, hi, h⟩
    refine ⟨he, i, hi, (p1Used_iff T sup incl trunc e i).2 ?_⟩
    rcases h with ⟨h2, h4⟩ | ⟨h1, h2, h3, hex⟩
    · exact Or.inl ⟨he, h2, hi, h4⟩
    · refine Or.inr ⟨h1, h2, h3, hc e i he hi, ?_, hex⟩
      rw [findIndex_own T hn he hi]
      rfl

/-! ### (iii) P1: single valued at shared vertices, continuity across edges -/

/-- `p1_vertex_single_valued`: for two elements `e, e'` of the (returned) support with a common vertex
(`elements[i, e] = elements[j, e']`) the coefficient seen at that vertex is the same for every coefficient vector. -/
theorem p1_vertex_single_valued {R : Type} [Ring R] (T : Tables) (sup : Nat → Bool) (incl trunc : Bool)
    (hs : VertexNeighborsSound T) (hc : VertexNeighborsComplete T) (hn : NoRepeatedVertex T) (c : Nat → R)
    {e e' i j : Nat} (hse : (p1 T sup incl trunc).space.sup e = true)
    (hse' : (p1 T sup incl trunc).space.sup e' = true) (hi : i < 3) (hj : j < 3)
    (hv : T.elements e i = T.elements e' j) :
    ((multOf (p1 T sup incl trunc).space e i : Int) : R) * c (l2gOf (p1 T sup incl trunc).space e i) =
    ((multOf (p1 T sup incl trunc).space e' j : Int) : R) * c (l2gOf (p1 T sup incl trunc).space e' j) := by
  obtain ⟨h1, h2⟩ := p1_single_valued T sup incl trunc hs hc hn hse hse' hi hj hv
  by_cases hz : multOf (p1 T sup incl trunc).space e i = 0
  · rw [← h1, hz]
    simp
  · rw [← h1, h2 hz]

/-- local coordinates of the reference vertices -/
def refVertex {K : Type} [CommRing K] : Nat → K × K
  | 0 => (0, 0)
  | 1 => (1, 0)
  | _ => (0, 1)

/-- the point `(1 - s)·v_{i1} + s·v_{i2}` on the edge from local vertex `i1` to local vertex `i2` -/
def segPoint {K : Type} [CommRing K] (s : K) (i1 i2 : Nat) : K × K :=
  ((1 - s) * (refVertex i1).1 + s * (refVertex i2).1, (1 - s) * (refVertex i1).2 + s * (refVertex i2).2)

/-- value of the P1 function with coefficient vector `c` on element `e` at local coordinates `x`:
`Σ_k c[local2global[e, k]] · local_multipliers[e, k] · φ̂_k(x)` (`_numba_evaluate` applied to the traced shapeset) -/
def p1Value {K : Type} [CommRing K] (S : Color.Space) (c : Nat → K) (e : Nat) (x : K × K) : K :=
  ((multOf S e 0 : Int) : K) * c (l2gOf S e 0) * SpaceShapes.p1Shape x.1 x.2 0 +
  ((multOf S e 1 : Int) : K) * c (l2gOf S e 1) * SpaceShapes.p1Shape x.1 x.2 1 +
  ((multOf S e 2 : Int) : K) * c (l2gOf S e 2) * SpaceShapes.p1Shape x.1 x.2 2

/-- `p1_continuous_on_edge`: the P1 function has the same value from both sides at every point of an edge shared by
two elements of the returned support (`i1, i2` and `j1, j2` are the local indices of the two common vertices). -/
theorem p1_continuous_on_edge {K : Type} [CommRing K] (T : Tables) (sup : Nat → Bool) (incl trunc : Bool)
    (hs : VertexNeighborsSound T) (hc : VertexNeighborsComplete T) (hn : NoRepeatedVertex T) (c : Nat → K) (s : K)
    {e e' i1 i2 j1 j2 : Nat} (hse : (p1 T sup incl trunc).space.sup e = true)
    (hse' : (p1 T sup incl trunc).space.sup e' = true) (hi1 : i1 < 3) (hi2 : i2 < 3) (hj1 : j1 < 3) (hj2 : j2 < 3)
    (hi : i1 ≠ i2) (hj : j1 ≠ j2)
    (hv1 : T.elements e i1 = T.elements e' j1) (hv2 : T.elements e i2 = T.elements e' j2) :
    p1Value (p1 T sup incl trunc).space c e (segPoint s i1 i2) =
    p1Value (p1 T sup incl trunc).space c e' (segPoint s j1 j2) := by
  have key : ∀ (a : Nat → K) (k1 k2 : Nat), k1 < 3 → k2 < 3 → k1 ≠ k2 →
      a 0 * SpaceShapes.p1Shape (segPoint s k1 k2).1 (segPoint s k1 k2).2 0 +
      a 1 * SpaceShapes.p1Shape (segPoint s k1 k2).1 (segPoint s k1 k2).2 1 +
      a 2 * SpaceShapes.p1Shape (segPoint s k1 k2).1 (segPoint s k1 k2).2 2 = (1 - s) * a k1 + s * a k2 := by
    intro a k1 k2 h1 h2 h12
    have c1 : k1 = 0 ∨ k1 = 1 ∨ k1 = 2 := by omega
    have c2 : k2 = 0 ∨ k2 = 1 ∨ k2 = 2 := by omega
    rcases c1 with rfl | rfl | rfl <;> rcases c2 with rfl | rfl | rfl <;>
      first | exact absurd rfl h12 | (simp only [segPoint, refVertex, SpaceShapes.p1Shape]; ring)
  have e1 := p1_vertex_single_valued T sup incl trunc hs hc hn c hse hse' hi1 hj1 hv1
  have e2 := p1_vertex_single_valued T sup incl trunc hs hc hn c hse hse' hi2 hj2 hv2
  unfold p1Value
  rw [key (fun k => ((multOf (p1 T sup incl trunc).space e k : Int) : K) * c (l2gOf (p1 T sup incl trunc).space e k))
        i1 i2 hi1 hi2 hi,
      key (fun k => ((multOf (p1 T sup incl trunc).space e' k : Int) : K) * c (l2gOf (p1 T sup incl trunc).space e' k))
        j1 j2 hj1 hj2 hj]
  rw [e1, e2]

/-! ### (iv) artificial zero-multiplier entries (premise of C16's colouring theorem) -/

/-- `artificial_dof_owned` for P1, in exactly the form C16 assumes (`C16.OwnedArtificial`): every entry of a support
row of `local2global` — in particular every entry with a ZERO multiplier — equals an entry of the same row with a
NON-ZERO multiplier. -/
theorem p1_artificial_dof_owned (T : Tables) (sup : Nat → Bool) (incl trunc : Bool) (hs : VertexNeighborsSound T) :
    C16.OwnedArtificial (p1 T sup incl trunc).space :=
  fun e he hsup i d hrow => p1_owned T sup incl trunc hs e he hsup i d hrow

/-- `artificial_dof_owned` for RWG / SNC (`_compute_rwg0_space_data` copies the dof of the first local index with a
non-zero multiplier; an element of the returned support always has one). -/
theorem rwg_artificial_dof_owned (T : Tables) (sup : Nat → Bool) (incl trunc : Bool) (ht : EdgeTables T) :
    C16.OwnedArtificial (rwg T sup incl trunc).space :=
  fun e he hsup i d hrow => rwg_owned T sup incl trunc ht e he hsup i d hrow

/-! ### (v) RWG / SNC under `Manifold`

`N0 T sup x` = the neighbours of edge `x` in the ORIGINAL support;
`DofEdge T sup incl x` : `|N0 x| = 2`, or `|N0 x| = 1` and `include_boundary_dofs`. -/

/-- `rwg_dof_is_edge`: all `(e, i)` of `global2local[d]` lie on one edge (`element_edges[i, e]` is the same), that
edge is selected by the options, and every `d < dof_count` has a non-empty `global2local[d]`. -/
theorem rwg_dof_is_edge (T : Tables) (sup : Nat → Bool) (incl trunc : Bool) (ht : EdgeTables T) :
    (∀ d p q, p ∈ Color.g2l (rwg T sup incl trunc).space d → q ∈ Color.g2l (rwg T sup incl trunc).space d →
      T.elementEdges p.1 p.2 = T.elementEdges q.1 q.2 ∧ DofEdge T sup incl (T.elementEdges p.1 p.2)) ∧
    (∀ d, d < (rwg T sup incl trunc).count → ∃ p, p ∈ Color.g2l (rwg T sup incl trunc).space d) := by
  refine ⟨fun d p q hp hq => ?_, fun d hd => rwg_g2l_nonempty T sup incl trunc ht d hd⟩
  rw [rwg_mem_g2l] at hp hq
  have hinv := firstLoop_inv T sup incl trunc ht
  exact ⟨hinv.c2 _ _ d hp.2.2.2 hq.2.2.2, (hinv.c _ d hp.2.2.2).1⟩

/-- `rwg_dof_edges_selected`: an edge carries a dof iff it has two neighbours in the selected support, or one and
`include_boundary_dofs`. -/
theorem rwg_dof_edges_selected (T : Tables) (sup : Nat → Bool) (incl trunc : Bool) (ht : EdgeTables T) (x : Nat) :
    (∃ d p, p ∈ Color.g2l (rwg T sup incl trunc).space d ∧ T.elementEdges p.1 p.2 = x) ↔ DofEdge T sup incl x := by
  constructor
  · rintro ⟨d, p, hp, rfl⟩
    rw [rwg_mem_g2l] at hp
    exact (rwg_ed_iff T sup incl trunc ht _).1 (by rw [hp.2.2.2]; simp)
  · intro hd
    have hne := (rwg_ed_iff T sup incl trunc ht x).2 hd
    cases hed : (rwgFirstLoop T sup incl trunc).ed x with
    | none => exact absurd hed hne
    | some d =>
      have hpos : 0 < (N0 T sup x).length := by
        rcases hd with h | ⟨_, h⟩ <;> omega
      obtain ⟨c, hc⟩ := List.exists_mem_of_length_pos hpos
      unfold N0 at hc
      rw [List.mem_filter] at hc
      obtain ⟨hclt, j, hj, hjx⟩ := ht.sound x c hc.1
      refine ⟨d, (c, j), (rwg_mem_g2l T sup incl trunc d (c, j)).2 ⟨hclt, ?_, hj, by rw [hjx]; exact hed⟩, hjx⟩
      exact (rwg_sup_iff T sup incl trunc ht hclt).2 ⟨⟨j, hj, hjx ▸ hd⟩, Or.inl hc.2⟩

/-- `rwg_sign_rule`: of two cells carrying the same dof the one on the SMALLER element index has multiplier `+1`, the
one on the LARGER `-1`; a cell whose element index is minimal among the cells of its dof (in particular the single
cell of a boundary dof) has `+1`. -/
theorem rwg_sign_rule (T : Tables) (sup : Nat → Bool) (incl trunc : Bool) (ht : EdgeTables T) (d : Nat)
    (p : Nat × Nat) (hp : p ∈ Color.g2l (rwg T sup incl trunc).space d) :
    ((∀ q, q ∈ Color.g2l (rwg T sup incl trunc).space d → p.1 ≤ q.1) →
      multOf (rwg T sup incl trunc).space p.1 p.2 = 1) ∧
    (∀ q, q ∈ Color.g2l (rwg T sup incl trunc).space d → q.1 < p.1 →
      multOf (rwg T sup incl trunc).space p.1 p.2 = -1 ∧ multOf (rwg T sup incl trunc).space q.1 q.2 = 1) := by
  have hinv := firstLoop_inv T sup incl trunc ht
  have hp' := (rwg_mem_g2l T sup incl trunc d p).1 hp
  obtain ⟨hpe, hps, hpi, hped⟩ := hp'
  obtain ⟨_, _, hmin, hneg⟩ := rwg_sign T sup incl trunc ht hpe hps hpi hped
  -- every supported neighbour of the edge carries the dof as well
  have hnb : ∀ c, c ∈ (T.enbrs (T.elementEdges p.1 p.2)).filter (rwgFirstLoop T sup incl trunc).sup →
      ∃ j, (c, j) ∈ Color.g2l (rwg T sup incl trunc).space d := by
    intro c hc
    rw [List.mem_filter] at hc
    obtain ⟨hclt, j, hj, hjx⟩ := ht.sound _ c hc.1
    exact ⟨j, (rwg_mem_g2l T sup incl trunc d (c, j)).2 ⟨hclt, hc.2, hj, by rw [hjx]; exact hped⟩⟩
  constructor
  · intro hall
    rw [rwg_multOf T sup incl trunc hpe hps hpi]
    apply hmin
    intro c hc
    obtain ⟨j, hcj⟩ := hnb c hc
    exact hall (c, j) hcj
  · intro q hq hlt
    obtain ⟨hqe, hqs, hqi, hqed⟩ := (rwg_mem_g2l T sup incl trunc d q).1 hq
    have hedge : T.elementEdges q.1 q.2 = T.elementEdges p.1 p.2 := hinv.c2 _ _ d hqed hped
    constructor
    · rw [rwg_multOf T sup incl trunc hpe hps hpi]
      apply hneg
      refine ⟨q.1, List.mem_filter.2 ⟨?_, hqs⟩, hlt⟩
      rw [← hedge]
      exact ht.complete q.1 q.2 hqe hqi
    · rw [rwg_multOf T sup incl trunc hqe hqs hqi]
      obtain ⟨hqmem, hqlen, hqmin, _⟩ := rwg_sign T sup incl trunc ht hqe hqs hqi hqed
      apply hqmin
      intro c hc
      -- the filtered neighbour list has at most two entries and contains q.1 < p.1
      have hpmem : p.1 ∈ (T.enbrs (T.elementEdges q.1 q.2)).filter (rwgFirstLoop T sup incl trunc).sup := by
        rw [hedge]
        exact List.mem_filter.2 ⟨ht.complete p.1 p.2 hpe hpi, hps⟩
      have hlen : ((T.enbrs (T.elementEdges q.1 q.2)).filter (rwgFirstLoop T sup incl trunc).sup).length ≤ 2 := by
        rcases hqlen with h | h <;> omega
      generalize (T.enbrs (T.elementEdges q.1 q.2)).filter (rwgFirstLoop T sup incl trunc).sup = l at *
      match l, hlen with
      | [], _ => cases hc
      | [a], _ =>
        simp only [List.mem_singleton] at hc hqmem hpmem
        omega
      | [a, b], _ =>
        simp only [List.mem_cons, List.not_mem_nil, or_false] at hc hqmem hpmem
        omega
      | _ :: _ :: _ :: _, h => simp at h

/-- `rwg_dof_count`: `dof_count` is the number of selected edges and `1 + max(local2global_map)`
(= `global_dof_count`) equals it — except that a space without dofs reports 1. -/
theorem rwg_dof_count (T : Tables) (sup : Nat → Bool) (incl trunc : Bool) (ht : EdgeTables T) :
    (rwg T sup incl trunc).count = ((List.range T.nedges).filter (dofEdgeB T sup incl)).length ∧
    (∀ x, dofEdgeB T sup incl x = true ↔ DofEdge T sup incl x) ∧
    gridDofCount (rwg T sup incl trunc).space = max 1 (rwg T sup incl trunc).count :=
  ⟨rwg_cnt T sup incl trunc ht, dofEdgeB_iff T sup incl, rwg_gridDofCount T sup incl trunc ht⟩

/-- `rwg_support`: the returned support (after the in-loop removals and extensions): the elements with a selected
edge that belong to the selected support — or, with `include_boundary_dofs` and without `truncate_at_segment_edge`,
any element with a selected edge. -/
theorem rwg_support (T : Tables) (sup : Nat → Bool) (incl trunc : Bool) (ht : EdgeTables T) (e : Nat) (he : e < T.ne) :
    (rwg T sup incl trunc).space.sup e = true ↔
      (∃ i, i < 3 ∧ DofEdge T sup incl (T.elementEdges e i)) ∧ (sup e = true ∨ (incl = true ∧ trunc = false)) := by
  rw [rwg_sup_eq T sup incl trunc he]
  exact rwg_sup_iff T sup incl trunc ht he

/-! ### (vi) Piola images: normal flux of RWG, tangential component of SNC -/

abbrev V3 (K : Type) := K × K × K

def dot {K : Type} [CommRing K] (u v : V3 K) : K := u.1 * v.1 + u.2.1 * v.2.1 + u.2.2 * v.2.2

def cross {K : Type} [CommRing K] (u v : V3 K) : V3 K :=
  (u.2.1 * v.2.2 - u.2.2 * v.2.1, u.2.2 * v.1 - u.1 * v.2.2, u.1 * v.2.1 - u.2.1 * v.1)

/-- `jacobians[e].dot(reference_values)`: `a = v1 - v0`, `b = v2 - v0` are the columns of the Jacobian -/
def piola {K : Type} [CommRing K] (a b : V3 K) (u : K × K) : V3 K :=
  (a.1 * u.1 + b.1 * u.2, a.2.1 * u.1 + b.2.1 * u.2, a.2.2 * u.1 + b.2.2 * u.2)

/-- tangent of local edge `j` (`_EDGE_LOCAL = [(0,1),(2,0),(1,2)]`): `v1 - v0`, `v0 - v2`, `v2 - v1` -/
def edgeTangent {K : Type} [CommRing K] (a b : V3 K) : Nat → V3 K
  | 0 => a
  | 1 => (-b.1, -b.2.1, -b.2.2)
  | _ => (b.1 - a.1, b.2.1 - a.2.1, b.2.2 - a.2.2)

/-- a point of local edge `j` in reference coordinates -/
def edgePoint {K : Type} [CommRing K] (s : K) : Nat → K × K
  | 0 => (s, 0)
  | 1 => (0, 1 - s)
  | _ => (1 - s, s)

/-- `rwg_normal_flux`: for the traced RWG reference shape functions `φ̂_i`, the Piola image `J φ̂_i` at any point of
local edge `j` has flux `(J φ̂_i)·(t_j × N) = δ_ij |N|²` through that edge (`N = a × b` the unnormalised normal, `t_j × N`
the unnormalised outward conormal): unit flux through its own edge after the scaling `edge_length / integration_element`
of `_numba_rwg0_evaluate`, none through the other two.  Polynomial identity over any commutative ring. -/
theorem rwg_normal_flux {K : Type} [CommRing K] (a b : V3 K) (s : K) (i j : Nat) (hi : i < 3) (hj : j < 3) :
    dot (piola a b (SpaceShapes.rwgShape (edgePoint s j).1 (edgePoint s j).2 i))
        (cross (edgeTangent a b j) (cross a b)) =
      if i = j then dot (cross a b) (cross a b) else 0 := by
  have c1 : i = 0 ∨ i = 1 ∨ i = 2 := by omega
  have c2 : j = 0 ∨ j = 1 ∨ j = 2 := by omega
  obtain ⟨a1, a2, a3⟩ := a
  obtain ⟨b1, b2, b3⟩ := b
  rcases c1 with rfl | rfl | rfl <;> rcases c2 with rfl | rfl | rfl <;>
    simp [dot, cross, piola, edgeTangent, edgePoint, SpaceShapes.rwgShape] <;> ring

/-- `snc_tangential_flux`: the SNC function `n × (J φ̂_i)` of `_numba_snc0_evaluate` has tangential component
`(N × J φ̂_i)·t_j = δ_ij |N|²` along local edge `j` — the normal flux of the RWG function. -/
theorem snc_tangential_flux {K : Type} [CommRing K] (a b : V3 K) (s : K) (i j : Nat) (hi : i < 3) (hj : j < 3) :
    dot (cross (cross a b) (piola a b (SpaceShapes.rwgShape (edgePoint s j).1 (edgePoint s j).2 i)))
        (edgeTangent a b j) =
      if i = j then dot (cross a b) (cross a b) else 0 := by
  have c1 : i = 0 ∨ i = 1 ∨ i = 2 := by omega
  have c2 : j = 0 ∨ j = 1 ∨ j = 2 := by omega
  obtain ⟨a1, a2, a3⟩ := a
  obtain ⟨b1, b2, b3⟩ := b
  rcases c1 with rfl | rfl | rfl <;> rcases c2 with rfl | rfl | rfl <;>
    simp [dot, cross, piola, edgeTangent, edgePoint, SpaceShapes.rwgShape] <;> ring

/-- normal component (with respect to the UNIT outward conormal `t_j × N / (len·ie)`) of the basis function
`local_multipliers · edge_length / integration_element · J φ̂_j` of `_numba_rwg0_evaluate` on its own edge `j`;
`len` = `edge_lengths[j]`, `ie` = `integration_elements[e]` -/
def rwgNormalComponent {K : Type} [Field K] (m len ie : K) (a b : V3 K) (s : K) (j : Nat) : K :=
  m * len / ie * dot (piola a b (SpaceShapes.rwgShape (edgePoint s j).1 (edgePoint s j).2 j))
    (cross (edgeTangent a b j) (cross a b)) / (len * ie)

/-- `rwg_normal_continuous`: on non-degenerate elements (`ie² = |N|² ≠ 0`, `len ≠ 0`) the normal component of a basis
function on its own edge equals its multiplier; hence for the two elements of an interior dof — multipliers `+1` on
the smaller and `-1` on the larger element index by `rwg_sign_rule` — the flux out of one element is the flux into the
other: the normal component is continuous across the edge.  (The other two shape functions of each element have
zero flux through this edge by `rwg_normal_flux`.) -/
theorem rwg_normal_continuous {K : Type} [Field K] (lenA ieA lenB ieB : K) (aA bA aB bB : V3 K) (s s' : K)
    (jA jB : Nat) (hjA : jA < 3) (hjB : jB < 3)
    (hA : ieA * ieA = dot (cross aA bA) (cross aA bA)) (hB : ieB * ieB = dot (cross aB bB) (cross aB bB))
    (hieA : ieA ≠ 0) (hieB : ieB ≠ 0) (hlA : lenA ≠ 0) (hlB : lenB ≠ 0) (mA mB : K) :
    rwgNormalComponent mA lenA ieA aA bA s jA = mA ∧ rwgNormalComponent mB lenB ieB aB bB s' jB = mB ∧
    (mA = 1 → mB = -1 →
      rwgNormalComponent mA lenA ieA aA bA s jA + rwgNormalComponent mB lenB ieB aB bB s' jB = 0) := by
  have h1 : rwgNormalComponent mA lenA ieA aA bA s jA = mA := by
    unfold rwgNormalComponent
    rw [rwg_normal_flux aA bA s jA jA hjA hjA, if_pos rfl, ← hA]
    field_simp
  have h2 : rwgNormalComponent mB lenB ieB aB bB s' jB = mB := by
    unfold rwgNormalComponent
    rw [rwg_normal_flux aB bB s' jB jB hjB hjB, if_pos rfl, ← hB]
    field_simp
  refine ⟨h1, h2, fun hA1 hB1 => ?_⟩
  rw [h1, h2, hA1, hB1]
  ring

/-! ### (vii) partition of unity: P1, DUAL0, DUAL1 -/

/-- `p1_partition_of_unity`: on an element of the support whose three vertices are selected (all three cells written,
e.g. every element of a whole closed grid) all three multipliers are 1 and the basis functions sum to
`Σ φ̂_k = 1` at every point (traced P1 shapeset). -/
theorem p1_partition_of_unity {K : Type} [CommRing K] (T : Tables) (sup : Nat → Bool) (incl trunc : Bool)
    (hs : VertexNeighborsSound T) (e : Nat) (he : e < T.ne) (hall : ∀ i, i < 3 → P1Used T sup incl trunc e i)
    (xi eta : K) :
    ((multOf (p1 T sup incl trunc).space e 0 : Int) : K) * SpaceShapes.p1Shape xi eta 0 +
    ((multOf (p1 T sup incl trunc).space e 1 : Int) : K) * SpaceShapes.p1Shape xi eta 1 +
    ((multOf (p1 T sup incl trunc).space e 2 : Int) : K) * SpaceShapes.p1Shape xi eta 2 = 1 := by
  have hm : ∀ i, i < 3 → multOf (p1 T sup incl trunc).space e i = 1 := by
    intro i hi
    rcases p1_mult T sup incl trunc hs he i with ⟨_, h⟩ | ⟨h, _⟩
    · exact h
    · exact absurd (hall i hi) h
  rw [hm 0 (by omega), hm 1 (by omega), hm 2 (by omega)]
  simp only [SpaceShapes.p1Shape, Int.cast_one]
  ring

/-- on the whole grid every vertex off the grid boundary is selected; on a closed grid (no boundary vertex) therefore
all three cells of every element are written -/
theorem p1_whole_closed_grid_all_used (T : Tables) (incl trunc : Bool) (hclosed : ∀ v, T.vob v = false)
    (e i : Nat) (he : e < T.ne) (hi : i < 3) : P1Used T (fun _ => true) incl trunc e i := by
  rw [p1Used_iff]
  refine Or.inl ⟨he, rfl, hi, Or.inr ?_⟩
  simp [nodeIsInterior, nonSupportNeighbors, hclosed]

/-- `dual0_index_partition`: the index formulas `(2v-1) % 6`, `2v` of `dual0_function_space` (extracted from the
source) assign every one of the six barycentric sub-triangles of an element to exactly one local vertex `v`. -/
theorem dual0_index_partition :
    ∀ k : Nat, k < 6 → ∃ v : Nat, v < 3 ∧
      ((SpaceTables.dual0First ((v : Nat) : Int)).toNat = k ∨ (SpaceTables.dual0Second ((v : Nat) : Int)).toNat = k) ∧
      ∀ w : Nat, w < 3 →
        ((SpaceTables.dual0First ((w : Nat) : Int)).toNat = k ∨ (SpaceTables.dual0Second ((w : Nat) : Int)).toNat = k) →
        w = v := by
  decide

/-- `dual0_cell_is_vertex_patch` (tables): sub-triangle `k` of `_create_barycentric_connectivity_array` has the coarse
vertex `v` as its first vertex iff `k` is one of the two sub-triangles the DUAL0 formulas give for `v`. -/
theorem dual0_tables_match_connectivity :
    ∀ v : Nat, v < 3 → ∀ k : Nat, k < 6 →
      (((GridConsts.baryChildren.getD k ((0, 0), (0, 0), (0, 0))).1 = (0, v)) ↔
        ((SpaceTables.dual0First ((v : Nat) : Int)).toNat = k ∨ (SpaceTables.dual0Second ((v : Nat) : Int)).toNat = k)) := by
  decide

/-- `dual0_cell_is_vertex_patch`: every triplet `(row, d, value)` of the DUAL0 `dof_transformation` has value 1 and its
row is a barycentric element `6·(position of a coarse support element `f`) + k` whose sub-triangle `k` sits at a local
vertex `v` of `f` with `elements[v, f] = used_dofs[d]`: the dual basis function `d` is the indicator function of
sub-triangles adjacent to the vertex of the P1 dof `d`.  Conversely every `(f, v)` of the coarse `global2local[d]`
contributes its two sub-triangles (the guard of the fill loop never fails). -/
theorem dual0_cell_is_vertex_patch (T : Tables) (sup : Nat → Bool) (incl trunc : Bool) (hs : VertexNeighborsSound T)
    (hr : VertexRange T) :
    (∀ t, t ∈ (dual0 T sup incl trunc).entries → t.2.2 = 1 ∧
      ∃ f v k, (f, v) ∈ Color.g2l (p1 T sup incl trunc).space t.2.1 ∧ k < 6 ∧ v < 3 ∧
        (GridConsts.baryChildren.getD k ((0, 0), (0, 0), (0, 0))).1 = (0, v) ∧
        t.1 = 6 * (p1 T sup incl trunc).space.supportElements.idxOf f + k ∧
        ∃ h : t.2.1 < (p1Used T sup incl trunc).length, T.elements f v = (p1Used T sup incl trunc)[t.2.1]) ∧
    (∀ d p, d < gridDofCount (p1 T sup incl trunc).space → p ∈ Color.g2l (p1 T sup incl trunc).space d →
      (6 * (p1 T sup incl trunc).space.supportElements.idxOf p.1 + (SpaceTables.dual0First (p.2 : Int)).toNat, d, (1 : Rat))
        ∈ (dual0 T sup incl trunc).entries ∧
      (6 * (p1 T sup incl trunc).space.supportElements.idxOf p.1 + (SpaceTables.dual0Second (p.2 : Int)).toNat, d, (1 : Rat))
        ∈ (dual0 T sup incl trunc).entries) := by
  constructor
  · intro t ht
    rw [mem_dual0_entries] at ht
    obtain ⟨d, p, _, hp, _, ht⟩ := ht
    obtain ⟨hu, hlt, hv⟩ := p1_g2l_vertex T sup incl trunc hs hr d p hp
    have hp3 : p.2 < 3 := (P1Used.lt T sup incl trunc hs hu).1
    have hk1 : (SpaceTables.dual0First (p.2 : Int)).toNat < 6 ∧
        (GridConsts.baryChildren.getD (SpaceTables.dual0First (p.2 : Int)).toNat ((0, 0), (0, 0), (0, 0))).1 = (0, p.2) := by
      have : ∀ v : Nat, v < 3 → (SpaceTables.dual0First ((v : Nat) : Int)).toNat < 6 ∧
          (GridConsts.baryChildren.getD (SpaceTables.dual0First ((v : Nat) : Int)).toNat ((0, 0), (0, 0), (0, 0))).1 = (0, v) := by
        decide
      exact this p.2 hp3
    have hk2 : (SpaceTables.dual0Second (p.2 : Int)).toNat < 6 ∧
        (GridConsts.baryChildren.getD (SpaceTables.dual0Second (p.2 : Int)).toNat ((0, 0), (0, 0), (0, 0))).1 = (0, p.2) := by
      have : ∀ v : Nat, v < 3 → (SpaceTables.dual0Second ((v : Nat) : Int)).toNat < 6 ∧
          (GridConsts.baryChildren.getD (SpaceTables.dual0Second ((v : Nat) : Int)).toNat ((0, 0), (0, 0), (0, 0))).1 = (0, v) := by
        decide
      exact this p.2 hp3
    rcases ht with rfl | rfl
    · exact ⟨rfl, p.1, p.2, _, hp, hk1.1, hp3, hk1.2, rfl, hlt, hv.symm⟩
    · exact ⟨rfl, p.1, p.2, _, hp, hk2.1, hp3, hk2.2, rfl, hlt, hv.symm⟩
  · intro d p hd hp
    have hg := dual0_guard T sup incl trunc hs d p hp
    exact ⟨(mem_dual0_entries T sup incl trunc _).2 ⟨d, p, hd, hp, Or.inl hg, Or.inl rfl⟩,
      (mem_dual0_entries T sup incl trunc _).2 ⟨d, p, hd, hp, Or.inl hg, Or.inr rfl⟩⟩

/-- `dual1_tables_partition`: the barycentre list, the three edge-midpoint pairs and the three vertex pairs of
`dual1_function_space` (extracted from the source) together contain each of the 18 local dofs `3·k + j` of the six
sub-triangles exactly once. -/
theorem dual1_tables_partition :
    ∀ n, n < 18 →
      (SpaceTables.dual1Barycentre ++ SpaceTables.dual1Edge.flatten ++ SpaceTables.dual1Vertex.flatten).count n = 1 := by
  decide

/-- vertex code of local dof `n = 3·k + j`: vertex `j` of sub-triangle `k` in
`_create_barycentric_connectivity_array` (`(0, i)` coarse vertex `i`, `(1, i)` midpoint of local edge `i`, `(2, 0)`
barycentre) -/
def baryNodeOf (n : Nat) : Nat × Nat :=
  let t := GridConsts.baryChildren.getD (n / 3) ((0, 0), (0, 0), (0, 0))
  match n % 3 with
  | 0 => t.1
  | 1 => t.2.1
  | _ => t.2.2

/-- `dual1_nodes_by_kind`: the dofs of the barycentre list sit at the barycentre, the dofs `dual1Edge[i]` at the
midpoint of local edge `i`, the dofs `dual1Vertex[i]` at coarse vertex `i` — the values 1, 1/2 and
1/num_coarse_triangles_at_vertex are put on the nodes they are documented for.  (With the barycentre list
`[1, 5, 7, 11, 13, 17]` of the unrepaired source this statement is false.) -/
theorem dual1_nodes_by_kind :
    (∀ n, n ∈ SpaceTables.dual1Barycentre → baryNodeOf n = (2, 0)) ∧
    (∀ i, i < 3 → ∀ n, n ∈ SpaceTables.dual1Edge.getD i [] → baryNodeOf n = (1, i)) ∧
    (∀ i, i < 3 → ∀ n, n ∈ SpaceTables.dual1Vertex.getD i [] → baryNodeOf n = (0, i)) ∧
    SpaceTables.dual1Barycentre.length = 6 ∧
    (∀ i, i < 3 → (SpaceTables.dual1Edge.getD i []).length = 2 ∧ (SpaceTables.dual1Vertex.getD i []).length = 2) := by
  decide

/-
Full statement (NOT proved as a theorem over all grids; carried by the exact correspondence of the COO triplets of
`dof_transformation` and by the numerical oracle):
  on a whole closed manifold grid, for every coarse element `f` and every local barycentric dof `n < 18`, the entries
  of `(dual1 T sup trunc).entries` with row `18·f + n` sum to 1 (and for DUAL0 the entries with row `6·f + k` sum to 1).
What IS proved: the entries of DUAL0 are characterised completely (`dual0_cell_is_vertex_patch`); for DUAL1 the dof
tables partition the 18 local dofs, put each value on the node it is documented for (`dual1_nodes_by_kind`), and the
values that meet at a node add up to 1 (`dual1_edge_sum`, `dual1_vertex_sum`; at a barycentre the single value is 1).
-/
/-- `dual1_edge_sum`: at the midpoint of an edge with two neighbouring elements each of the two dual functions has the
nodal value 1/2: sum 1. -/
theorem dual1_edge_sum (nbrs : List Nat) (h : nbrs.length = 2) : ((nbrs.map fun _ => (1 / 2 : Rat))).sum = 1 := by
  match nbrs, h with
  | [_, _], _ => norm_num

/-- `dual1_vertex_sum`: at a coarse vertex with `n ≥ 1` neighbouring elements each of the `n` dual functions has the
nodal value `1 / n`: sum 1. -/
theorem dual1_vertex_sum (nbrs : List Nat) (h : 0 < nbrs.length) :
    ((nbrs.map fun _ => (1 : Rat) / (nbrs.length : Rat))).sum = 1 := by
  have hgen : ∀ (l : List Nat) (c : Rat), (l.map fun _ => c).sum = (l.length : Rat) * c := by
    intro l c
    induction l with
    | nil => simp
    | cons a l ih =>
      simp only [List.map_cons, List.sum_cons, ih, List.length_cons]
      push_cast
      ring
  rw [hgen]
  have : (nbrs.length : Rat) ≠ 0 := by
    have : nbrs.length ≠ 0 := by omega
    exact_mod_cast this
  field_simp

/-! ### BC / RBC (partial) -/

/-
Full statement (NOT proved; carried by correspondence of the bookkeeping and by the numerical oracle):
  every function of `bc_function_space` has a continuous normal component, and every function of `rbc_function_space`
  a continuous tangential component, across every interior edge of the barycentric refinement.
-/
/-- `bc_spoke_cancellation_partial`: in `_interior_barycentric_edges_coefficients` the two consecutive coefficients
that belong to the two sides of one spoke (list positions `2k`, `2k+1`, same barycentric edge, hence same length)
are opposite: for edge lengths `l_0, l_0, l_1, l_1, ...` the values are `v_0, -v_0, v_1, -v_1, ...`. -/
theorem bc_spoke_cancellation_partial (sign : Rat) (nc : Nat) (spokes : List Rat) :
    ∃ vs : List Rat, vs.length = spokes.length ∧
      bcInteriorValues sign nc (spokes.flatMap fun l => [l, l]) = vs.flatMap fun v => [v, -v] := by
  unfold bcInteriorValues
  have gen : ∀ (spokes : List Rat) (index count : Nat) (sg : Rat), index % 2 = 0 →
      ∃ vs : List Rat, vs.length = spokes.length ∧
        bcInteriorGo nc (spokes.flatMap fun l => [l, l]) index count sg = vs.flatMap fun v => [v, -v] := by
    intro spokes
    induction spokes with
    | nil =>
      intro _ _ _ _
      exact ⟨[], rfl, rfl⟩
    | cons l rest ih =>
      intro index count sg hidx
      obtain ⟨vs, hlen, hvs⟩ := ih (index + 1 + 1) (count + 1) sg (by omega)
      refine ⟨sg * ((nc : Rat) - ((count + 1 : Nat) : Rat)) / (2 * (nc : Rat) * l) :: vs, by simp [hlen], ?_⟩
      have h1 : (index % 2 == 0) = true := by simp [hidx]
      have h2 : ((index + 1) % 2 == 0) = false := by
        have : (index + 1) % 2 = 1 := by omega
        simp [this]
      simp only [List.flatMap_cons, List.cons_append, List.nil_append, bcInteriorGo, h1, h2, if_true,
        Bool.false_eq_true, if_false, neg_neg]
      rw [hvs]
      congr 2
      ring
  exact gen spokes 0 0 sign rfl

/-! ### Non-vacuity -/

/-- the 2x1 screen of `meshgen.screen(2, 1)`: vertices `0 1 2 / 3 4 5`, elements (0,1,4), (0,4,3), (1,2,4), (2,5,4);
all six vertices are on the boundary, vertex 4 belongs to all four elements; domain indices 0, 0, 3, 3 -/
def exT : Tables where
  ne := 4
  nv := 6
  nedges := 9
  elements := fun e i => ((#[#[0, 1, 4], #[0, 4, 3], #[1, 2, 4], #[2, 5, 4]] : Array (Array Nat)).getD e #[]).getD i 0
  vnbrs := fun v => (#[[0, 1], [0, 2], [2, 3], [1], [0, 1, 2, 3], [3]] : Array (List Nat)).getD v []
  -- edges: 0:(0,1) 1:(0,4) 2:(1,4) 3:(3,0) 4:(4,3) 5:(1,2) 6:(2,4) 7:(5,4) 8:(2,5)   (element_edges[i, e]: (0,1),(2,0),(1,2))
  elementEdges := fun e i => ((#[#[0, 1, 2], #[1, 3, 4], #[5, 2, 6], #[8, 6, 7]] : Array (Array Nat)).getD e #[]).getD i 0
  enbrs := fun x => (#[[0], [0, 1], [0, 2], [1], [1], [2], [2, 3], [3], [3]] : Array (List Nat)).getD x []
  vob := fun _ => true
  domain := fun e => if e < 2 then 0 else 3
  edgeVerts := fun _ _ => 0

/-- segment = domain 3 = elements 2, 3 -/
def exSup : Nat → Bool := processSupport exT (.segments [3])

example : supportList exT.ne exSup = [2, 3] := by decide

-- P1, boundary dofs included, truncated at the segment edge: dofs on the vertices 1, 2, 4, 5
example : p1Used exT exSup true true = [1, 2, 4, 5] := by decide
example : ((p1 exT exSup true true).space.row 2, (p1 exT exSup true true).space.row 3) = ([0, 1, 2], [1, 3, 2]) := by
  decide
-- not truncated: the support is extended to the elements 0, 1 which get artificial zero-multiplier entries
example : (List.range 4).map (p1 exT exSup true false).space.sup = [true, true, true, true] := by decide
example : ((p1 exT exSup true false).space.row 0, (List.range 3).map (multOf (p1 exT exSup true false).space 0)) =
    ([2, 0, 2], [0, 1, 1]) := by decide
-- without boundary dofs the segment has no dof at all: the space is empty and reports one (phantom) dof
example : (p1Used exT exSup false true, gridDofCount (p1 exT exSup false true).space) = ([], 1) := by decide

-- RWG on the segment: one interior edge (edge 6 between the elements 2 and 3), +1 on element 2, -1 on element 3
example : (rwg exT exSup false true).count = 1 := by decide
example : Color.g2l (rwg exT exSup false true).space 0 = [(2, 2), (3, 1)] := by decide
example : (multOf (rwg exT exSup false true).space 2 2, multOf (rwg exT exSup false true).space 3 1) = (1, -1) := by
  decide
-- zero-multiplier entries of element 2 repeat its dof
example : ((rwg exT exSup false true).space.row 2, (List.range 3).map (multOf (rwg exT exSup false true).space 2)) =
    ([0, 0, 0], [0, 0, 1]) := by decide
-- with boundary dofs and without truncation element 0 (neighbour across edge 2) joins the support
example : ((rwg exT exSup true false).count, (List.range 4).map (rwg exT exSup true false).space.sup) =
    (5, [true, false, true, true]) := by decide

/-- the table hypotheses of the theorems hold for the example grid (they are not contradictory) -/
example : EdgeTables exT ∧ VertexNeighborsSound exT ∧ VertexNeighborsComplete exT ∧ NoRepeatedVertex exT ∧
    VertexRange exT := by
  have hen : ∀ x, 9 ≤ x → exT.enbrs x = [] := by
    intro x hx
    show (#[[0], [0, 1], [0, 2], [1], [1], [2], [2, 3], [3], [3]] : Array (List Nat)).getD x [] = []
    rw [Array.getD_eq_getD_getElem?, Array.getElem?_eq_none (by simpa using hx)]
    rfl
  have hvn : ∀ v, 6 ≤ v → exT.vnbrs v = [] := by
    intro v hv
    show (#[[0, 1], [0, 2], [2, 3], [1], [0, 1, 2, 3], [3]] : Array (List Nat)).getD v [] = []
    rw [Array.getD_eq_getD_getElem?, Array.getElem?_eq_none (by simpa using hv)]
    rfl
  refine ⟨⟨?_, ?_, ?_, ?_⟩, ?_, ?_, ?_, ?_⟩
  · intro x e h
    by_cases hx : x < 9
    · exact (by decide : ∀ x, x < 9 → ∀ e, e ∈ exT.enbrs x → e < exT.ne ∧ ∃ i, i < 3 ∧ exT.elementEdges e i = x) x hx e h
    · rw [hen x (by omega)] at h
      cases h
  · intro e i he hi
    exact (by decide : ∀ e, e < 4 → ∀ i, i < 3 → e ∈ exT.enbrs (exT.elementEdges e i)) e he i hi
  · intro x
    by_cases hx : x < 9
    · exact (by decide : ∀ x, x < 9 → (exT.enbrs x).length ≤ 2) x hx
    · rw [hen x (by omega)]
      decide
  · intro e i he hi
    exact (by decide : ∀ e, e < 4 → ∀ i, i < 3 → exT.elementEdges e i < exT.nedges) e he i hi
  · intro v e h
    by_cases hv : v < 6
    · exact (by decide : ∀ v, v < 6 → ∀ e, e ∈ exT.vnbrs v → e < exT.ne ∧ ∃ i, i < 3 ∧ exT.elements e i = v) v hv e h
    · rw [hvn v (by omega)] at h
      cases h
  · intro e i he hi
    exact (by decide : ∀ e, e < 4 → ∀ i, i < 3 → e ∈ exT.vnbrs (exT.elements e i)) e he i hi
  · intro e i j he hi hj h
    exact (by decide : ∀ e, e < 4 → ∀ i, i < 3 → ∀ j, j < 3 → exT.elements e i = exT.elements e j → i = j) e he i hi j hj h
  · intro e i he hi
    exact (by decide : ∀ e, e < 4 → ∀ i, i < 3 → exT.elements e i < exT.nv) e he i hi

-- the flux identity is not vacuous: unit triangle, own edge
example : dot (piola ((1, 0, 0) : V3 Int) (0, 1, 0) (SpaceShapes.rwgShape (edgePoint (1 : Int) 0).1 (edgePoint (1 : Int) 0).2 0))
    (cross (edgeTangent ((1, 0, 0) : V3 Int) (0, 1, 0) 0) (cross (1, 0, 0) (0, 1, 0))) = 1 := by decide

example : bcInteriorValues 1 3 [2, 2, 4, 4] = [1 / 6, -1 / 6, 1 / 24, -1 / 24] := by
  norm_num [bcInteriorValues, bcInteriorGo]

/-- `dual_partition_of_unity_partial`: the index facts behind the partition of unity of DUAL0 / DUAL1, bundled (see
the comment above `dual1_edge_sum` for the full statement that is NOT a theorem). -/
theorem dual_partition_of_unity_partial :
    (∀ n, n < 18 →
      (SpaceTables.dual1Barycentre ++ SpaceTables.dual1Edge.flatten ++ SpaceTables.dual1Vertex.flatten).count n = 1) ∧
    (∀ n, n ∈ SpaceTables.dual1Barycentre → baryNodeOf n = (2, 0)) ∧
    (∀ nbrs : List Nat, nbrs.length = 2 → ((nbrs.map fun _ => (1 / 2 : Rat))).sum = 1) ∧
    (∀ nbrs : List Nat, 0 < nbrs.length → ((nbrs.map fun _ => (1 : Rat) / (nbrs.length : Rat))).sum = 1) :=
  ⟨dual1_tables_partition, dual1_nodes_by_kind.1, dual1_edge_sum, dual1_vertex_sum⟩

end BemppVerif.C09
