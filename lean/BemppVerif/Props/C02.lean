/-
C02 — Laplace potential operators reproduce Green's representation formula (partial).

Proved for all grids / spaces / sizes: the value computed by the potential assembler is the closed-form kernel sum over
the quadrature points with the density evaluated through the space's coefficient map, it is linear in the density, and
potentials of pieces of the support add up; the kernels are G and ∂G/∂n_y.  Green's formula itself and the convergence of
the quadrature are classical analysis (numerical oracle).
-/
import BemppVerif.Lemmas.AsmSpec
import BemppVerif.Lemmas.KernelFacts

namespace BemppVerif.C02
open BemppVerif.Model.Asm BemppVerif.Lemmas

/-- **Potential = closed-form kernel sum**: `Σ_{σ∈supp} Σ_q K(x; y_{σ,q}) · w_q · ie_σ · (Σ_j φ̂_j(ξ_q) · coef[nshape·σ + j])`. -/
theorem potential_refines_spec {R : Type} [CommRing R] (d : PotData R) (n : Nat) (supp : List Nat) (c : Nat → R) (x : Nat) :
    potential d n supp c x =
      lsum (supp.map fun σ => rsum d.nq fun q =>
        d.K x σ q * (d.w q * d.ie σ * rsum n fun j => d.phi j q * c (n * σ + j))) :=
  potential_is_kernel_sum d n supp c x

/-- coefficient vector in the element-wise basis produced by `map_to_full_grid @ x` for a space `S` on `supp` -/
def fullGridCoef {R : Type} [CommRing R] (S : SpaceData R) (supp : List Nat) (x : Nat → R) (a : Nat) : R :=
  lsum (supp.map fun e => rsum S.nshape fun i => if S.nshape * e + i = a then S.mult e i * x (S.l2g e i) else 0)

/-- at the flattened index of `(σ, j)` the full-grid coefficient is `mult σ j · x[l2g σ j]` -/
theorem fullGridCoef_at {R : Type} [CommRing R] (S : SpaceData R) (supp : List Nat) (hs : supp.Nodup) (x : Nat → R)
    (σ j : Nat) (hσ : σ ∈ supp) (hj : j < S.nshape) :
    fullGridCoef S supp x (S.nshape * σ + j) = S.mult σ j * x (S.l2g σ j) := by
  unfold fullGridCoef rsum
  have key : ∀ e ∈ supp, lsum ((List.range S.nshape).map fun i =>
      if S.nshape * e + i = S.nshape * σ + j then S.mult e i * x (S.l2g e i) else 0)
      = if e = σ then S.mult σ j * x (S.l2g σ j) else 0 := by
    intro e _
    by_cases he : e = σ
    · subst he
      have h1 : ∀ i ∈ List.range S.nshape,
          (if S.nshape * e + i = S.nshape * e + j then S.mult e i * x (S.l2g e i) else 0)
          = if i = j then S.mult e j * x (S.l2g e j) else 0 := by
        intro i _
        by_cases hi : i = j
        · simp [hi]
        · have : ¬ (S.nshape * e + i = S.nshape * e + j) := by omega
          simp [hi, this]
      rw [lsum_map_congr _ _ _ h1, lsum_map_ite_eq _ List.nodup_range j]
      simp [hj]
    · simp only [he, if_false]
      have hz : ∀ i ∈ List.range S.nshape,
          (if S.nshape * e + i = S.nshape * σ + j then S.mult e i * x (S.l2g e i) else (0 : R)) = 0 := by
        intro i hi
        have hi' : i < S.nshape := List.mem_range.mp hi
        have : ¬ (S.nshape * e + i = S.nshape * σ + j) := by
          intro h
          rcases Nat.lt_or_gt_of_ne he with h' | h'
          · have : S.nshape * e + S.nshape ≤ S.nshape * σ := by
              have := Nat.mul_le_mul_left S.nshape (Nat.succ_le_of_lt h'); simpa [Nat.mul_succ] using this
            omega
          · have : S.nshape * σ + S.nshape ≤ S.nshape * e := by
              have := Nat.mul_le_mul_left S.nshape (Nat.succ_le_of_lt h'); simpa [Nat.mul_succ] using this
            omega
        simp [this]
      rw [lsum_map_congr _ _ _ hz, lsum_map_zero]
  rw [lsum_map_congr _ _ _ key, lsum_map_ite_eq _ hs σ]
  simp [hσ]

/-- **Potential of a space**: composing the assembler with the space's coefficient map gives
`Σ_σ Σ_q K(x; y_{σ,q}) w_q ie_σ Σ_j φ̂_j(ξ_q) · mult σ j · x[l2g σ j]` — the density `Σ_g x_g φ_g` evaluated at the
quadrature points. -/
theorem potential_of_space {R : Type} [CommRing R] (d : PotData R) (S : SpaceData R) (supp : List Nat) (hs : supp.Nodup)
    (x : Nat → R) (pt : Nat) :
    potential d S.nshape supp (fullGridCoef S supp x) pt =
      lsum (supp.map fun σ => rsum d.nq fun q =>
        d.K pt σ q * (d.w q * d.ie σ * rsum S.nshape fun j => d.phi j q * (S.mult σ j * x (S.l2g σ j)))) := by
  rw [potential_is_kernel_sum]
  apply lsum_map_congr; intro σ hσ
  unfold rsum
  apply lsum_map_congr; intro q _
  congr 2
  apply lsum_map_congr; intro j hj
  rw [fullGridCoef_at S supp hs x σ j hσ (List.mem_range.mp hj)]

/-- linearity in the density -/
theorem potential_linear {R : Type} [CommRing R] (d : PotData R) (n : Nat) (supp : List Nat) (a b : R) (c1 c2 : Nat → R)
    (x : Nat) :
    potential d n supp (fun k => a * c1 k + b * c2 k) x = a * potential d n supp c1 x + b * potential d n supp c2 x := by
  rw [potential_add d n supp (fun k => a * c1 k) (fun k => b * c2 k), potential_smul, potential_smul]

/-- **Segment-wise assembly**: the potential over a support that is the concatenation of two pieces is the sum of the
potentials of the pieces. -/
theorem potential_segments_additive {R : Type} [CommRing R] (d : PotData R) (n : Nat) (s1 s2 : List Nat) (c : Nat → R)
    (x : Nat) : potential d n (s1 ++ s2) c x = potential d n s1 c x + potential d n s2 c x :=
  potential_support_append d n s1 s2 c x

/-- Non-vacuity: a concrete two-element P1-like space over ℤ. -/
example : potential (R := ℤ) ⟨2, fun q => (q + 1 : ℤ), fun e => (e + 2 : ℤ), fun j q => (j + q : ℤ), fun x σ q => (x + σ + q : ℤ)⟩
    3 [0, 1] (fun a => (a : ℤ)) 1 = 626 := by decide

end BemppVerif.C02
