/-
C11 — Grid topology and geometry data are complete and consistent.

Property theorems only (helper lemmas: BemppVerif/Lemmas/Topo*.lean); the polynomial identities (child normals,
nesting, Lagrange identity, Jacobian inverse, circumdiameter) are in Props/C11Geom.lean.  All statements are about the models
`Model/Topo.lean`, `Model/Geom.lean`, for grids of ANY size.  Hypotheses are explicit:
  `NonDegenerate els`  every element has three distinct vertex indices (Grid rejects anything else),
  `InRange nv els`     every vertex index is `< nv`.
A table entry `T[i]? = some x` reads "row/column i of the table exists and equals x".
-/
import BemppVerif.Lemmas.TopoNormalize

namespace BemppVerif.C11
open BemppVerif.Model.Topo BemppVerif.Model.Geom BemppVerif.Gen BemppVerif.Lemmas.Topo

/-! ## (i) Edge enumeration -/

/-- `grid.edges` lists every undirected edge at most once. -/
theorem edges_nodup (els : List Tri) : (edges els).Nodup := edges_nodup' els

/-- `grid.edges` is exactly the set of sorted vertex pairs of all elements (all three pairs of each element). -/
theorem edges_complete (els : List Tri) (e : Edge) :
    e ∈ edges els ↔ ∃ t ∈ els, e = sortPair t.1 t.2.1 ∨ e = sortPair t.1 t.2.2 ∨ e = sortPair t.2.1 t.2.2 := by
  have h := enumGo_mem [] els e
  simp only [List.not_mem_nil, false_or] at h
  rw [show edges els = (enumGo [] els).1 from rfl, h]
  constructor
  · rintro ⟨t, ht, h⟩
    obtain ⟨e0, e1, e2⟩ := edgeOf_pairs t
    rw [e0, e1, e2, sortPair_comm t.2.2 t.1] at h
    exact ⟨t, ht, by tauto⟩
  · rintro ⟨t, ht, h⟩
    obtain ⟨e0, e1, e2⟩ := edgeOf_pairs t
    refine ⟨t, ht, ?_⟩
    rw [e0, e1, e2, sortPair_comm t.2.2 t.1]
    tauto

/-- every edge is stored as an ascending pair of two different vertices. -/
theorem edges_sorted (els : List Tri) (hnd : NonDegenerate els) : ∀ e ∈ edges els, e.1 < e.2 := by
  intro e he
  obtain ⟨t, ht, h⟩ := (edges_complete els e).mp he
  obtain ⟨h1, h2, h3⟩ := hnd t ht
  rcases h with rfl | rfl | rfl
  · exact sortPair_lt _ _ h1
  · exact sortPair_lt _ _ h2
  · exact sortPair_lt _ _ h3

/-- `element_edges` has one column per element. -/
theorem element_edges_length (els : List Tri) : (elementEdges els).length = els.length :=
  elementEdges_length els

/-- `element_edges[l, i]` is the index, in the final edge list, of local edge `l` of element `i`
(the sorted pair of the vertices `_EDGE_LOCAL[l]`). -/
theorem element_edges_correct (els : List Tri) (i : Nat) (t x : Tri) (ht : els[i]? = some t)
    (hx : (elementEdges els)[i]? = some x) (l : Nat) (hl : l < 3) :
    (edges els)[x.get l]? = some (edgeOf t l) := by
  obtain ⟨h0, h1, h2⟩ := elementEdges_spec els i t x ht hx
  have : l = 0 ∨ l = 1 ∨ l = 2 := by omega
  rcases this with rfl | rfl | rfl
  · exact h0
  · exact h1
  · exact h2

/-- the three edge indices of an element are pairwise different. -/
theorem element_edges_distinct (els : List Tri) (hnd : NonDegenerate els) (i : Nat) (t x : Tri)
    (ht : els[i]? = some t) (hx : (elementEdges els)[i]? = some x) : x.NonDegenerate :=
  elementEdges_nondegenerate els i t x ht hx (hnd t (List.mem_of_getElem? ht))

/-- `_EDGE_LOCAL` (regenerated from the source) enumerates the three vertex pairs of a triangle: local edge 0 joins
vertices 0,1; local edge 1 joins 2,0; local edge 2 joins 1,2. -/
theorem edge_local_covers (t : Tri) :
    edgeOf t 0 = sortPair t.1 t.2.1 ∧ edgeOf t 1 = sortPair t.2.2 t.1 ∧ edgeOf t 2 = sortPair t.2.1 t.2.2 :=
  edgeOf_pairs t

/-- non-vacuity (i): a tetrahedron; six edges, each element's column points at its own edges. -/
example : NonDegenerate [(0, 1, 2), (0, 3, 1), (0, 2, 3), (1, 3, 2)] ∧
    edges [(0, 1, 2), (0, 3, 1), (0, 2, 3), (1, 3, 2)] = [(0, 1), (0, 2), (1, 2), (0, 3), (1, 3), (2, 3)] ∧
    elementEdges [(0, 1, 2), (0, 3, 1), (0, 2, 3), (1, 3, 2)] = [(0, 1, 2), (3, 0, 4), (1, 3, 5), (4, 2, 5)] := by
  decide

/-! ## (ii) Edge and vertex adjacency -/

/-- the entry of `EᵀE` used by `_element_filter` is the number of common vertices. -/
theorem shared_count_is_common_vertices (t s : Tri) (hs : s.NonDegenerate) :
    sharedCount t s = (commonVertices t s).length := sharedCount_eq t s hs

/-- every column `(e0, e1, i0, i1, j0, j1)` of `edge_adjacency` joins two DIFFERENT elements with EXACTLY two common
vertices, and the local indices are in range, distinct, ordered `j0 < j1` (Bempp-3 convention) and name the same global
vertices: `elements[i0,e0] = elements[j0,e1]`, `elements[i1,e0] = elements[j1,e1]`. -/
theorem edge_adjacency_sound (els : List Tri) (hnd : NonDegenerate els) :
    ∀ col ∈ edgeAdjacency els, ∃ t s, els[col.1]? = some t ∧ els[col.2.1]? = some s ∧ col.1 ≠ col.2.1 ∧
      (commonVertices t s).length = 2 ∧
      col.2.2.1 < 3 ∧ col.2.2.2.1 < 3 ∧ col.2.2.2.2.1 < 3 ∧ col.2.2.2.2.2 < 3 ∧
      col.2.2.1 ≠ col.2.2.2.1 ∧ col.2.2.2.2.1 < col.2.2.2.2.2 ∧
      t.get col.2.2.1 = s.get col.2.2.2.2.1 ∧ t.get col.2.2.2.1 = s.get col.2.2.2.2.2 := by
  intro col hcol
  simp only [edgeAdjacency, List.mem_map] at hcol
  obtain ⟨⟨⟨t, i⟩, ⟨s, j⟩⟩, hmem, rfl⟩ := hcol
  obtain ⟨hi, hj, hc⟩ := (mem_pairsWithCount els 2 _).mp hmem
  simp only at hi hj hc ⊢
  have ht := hnd t (List.mem_of_getElem? hi)
  have hs := hnd s (List.mem_of_getElem? hj)
  refine ⟨t, s, hi, hj, ?_, ?_, sharedEdgeInfo_spec t s ht hs hc⟩
  · intro hij
    subst hij
    have : t = s := Option.some.inj (hi.symm.trans hj)
    subst this
    rw [sharedCount_self t ht] at hc
    omega
  · rw [← sharedCount_eq t s hs]; exact hc

/-- every ordered pair of elements with exactly two common vertices has a column in `edge_adjacency`
(so singular quadrature is applied to every edge-adjacent pair). -/
theorem edge_adjacency_complete (els : List Tri) (hnd : NonDegenerate els) (i j : Nat) (t s : Tri)
    (hi : els[i]? = some t) (hj : els[j]? = some s) (h2 : (commonVertices t s).length = 2) :
    (i, j, sharedEdgeInfo t s) ∈ edgeAdjacency els := by
  simp only [edgeAdjacency, List.mem_map]
  refine ⟨((t, i), (s, j)), (mem_pairsWithCount els 2 _).mpr ⟨hi, hj, ?_⟩, rfl⟩
  rw [sharedCount_eq t s (hnd s (List.mem_of_getElem? hj))]
  exact h2

/-- no ordered element pair appears in two columns of `edge_adjacency`. -/
theorem edge_adjacency_no_duplicates (els : List Tri) :
    ((edgeAdjacency els).map fun c => (c.1, c.2.1)).Nodup := by
  have := pairsWithCount_keys_nodup els 2
  simpa [edgeAdjacency, List.map_map, Function.comp_def] using this

/-- every column `(e0, e1, i, j)` of `vertex_adjacency` joins two different elements with EXACTLY one common vertex,
which is local vertex `i` of `e0` and local vertex `j` of `e1`. -/
theorem vertex_adjacency_sound (els : List Tri) (hnd : NonDegenerate els) :
    ∀ col ∈ vertexAdjacency els, ∃ t s, els[col.1]? = some t ∧ els[col.2.1]? = some s ∧ col.1 ≠ col.2.1 ∧
      (commonVertices t s).length = 1 ∧ col.2.2.1 < 3 ∧ col.2.2.2 < 3 ∧ t.get col.2.2.1 = s.get col.2.2.2 := by
  intro col hcol
  simp only [vertexAdjacency, List.mem_map] at hcol
  obtain ⟨⟨⟨t, i⟩, ⟨s, j⟩⟩, hmem, rfl⟩ := hcol
  obtain ⟨hi, hj, hc⟩ := (mem_pairsWithCount els 1 _).mp hmem
  simp only at hi hj hc ⊢
  have ht := hnd t (List.mem_of_getElem? hi)
  have hs := hnd s (List.mem_of_getElem? hj)
  refine ⟨t, s, hi, hj, ?_, ?_, sharedVertexInfo_spec t s hs hc⟩
  · intro hij
    subst hij
    have : t = s := Option.some.inj (hi.symm.trans hj)
    subst this
    rw [sharedCount_self t ht] at hc
    omega
  · rw [← sharedCount_eq t s hs]; exact hc

/-- every ordered pair of elements with exactly one common vertex has a column in `vertex_adjacency`. -/
theorem vertex_adjacency_complete (els : List Tri) (hnd : NonDegenerate els) (i j : Nat) (t s : Tri)
    (hi : els[i]? = some t) (hj : els[j]? = some s) (h1 : (commonVertices t s).length = 1) :
    (i, j, (sharedVertexInfo t s).1, (sharedVertexInfo t s).2) ∈ vertexAdjacency els := by
  simp only [vertexAdjacency, List.mem_map]
  refine ⟨((t, i), (s, j)), (mem_pairsWithCount els 1 _).mpr ⟨hi, hj, ?_⟩, rfl⟩
  rw [sharedCount_eq t s (hnd s (List.mem_of_getElem? hj))]
  exact h1

/-- no ordered element pair appears in two columns of `vertex_adjacency`. -/
theorem vertex_adjacency_no_duplicates (els : List Tri) :
    ((vertexAdjacency els).map fun c => (c.1, c.2.1)).Nodup := by
  have := pairsWithCount_keys_nodup els 1
  simpa [vertexAdjacency, List.map_map, Function.comp_def] using this

/-- non-vacuity (ii): two triangles sharing an edge plus one touching in a vertex; both tables are non-empty and the
hypotheses hold. -/
example : NonDegenerate [(0, 1, 2), (2, 1, 3), (3, 4, 5)] ∧
    edgeAdjacency [(0, 1, 2), (2, 1, 3), (3, 4, 5)] = [(0, 1, 2, 1, 0, 1), (1, 0, 1, 0, 1, 2)] ∧
    vertexAdjacency [(0, 1, 2), (2, 1, 3), (3, 4, 5)] = [(1, 2, 2, 0), (2, 1, 0, 2)] := by
  decide

/-! ## (iii) Neighbour tables and boundary flags -/

/-- `edge_neighbors[e]` contains exactly the elements that have edge `e` as one of their three edges. -/
theorem edge_neighbors_correct (els : List Tri) (e : Nat) (he : e < (edges els).length) :
    ∃ row, (edgeNeighbors els)[e]? = some row ∧ ∀ i, i ∈ row ↔ ∃ t, els[i]? = some t ∧
      ((edges els)[e]? = some (edgeOf t 0) ∨ (edges els)[e]? = some (edgeOf t 1) ∨
        (edges els)[e]? = some (edgeOf t 2)) := by
  refine ⟨_, edgeNeighbors_get els e he, ?_⟩
  intro i
  rw [mem_edgeNeighbors_row]
  constructor
  · rintro ⟨x, hx, hm⟩
    have hlt : i < els.length := by
      have := (List.getElem?_eq_some_iff.mp hx).1
      rwa [elementEdges_length] at this
    have ht : els[i]? = some els[i] := List.getElem?_eq_getElem hlt
    exact ⟨els[i], ht, (mem_elementEdges_iff els i e _ x ht hx).mp hm⟩
  · rintro ⟨t, ht, h⟩
    have hlt : i < (elementEdges els).length := by
      rw [elementEdges_length]; exact (List.getElem?_eq_some_iff.mp ht).1
    have hx : (elementEdges els)[i]? = some (elementEdges els)[i] := List.getElem?_eq_getElem hlt
    exact ⟨_, hx, (mem_elementEdges_iff els i e t _ ht hx).mpr h⟩

/-- one row per edge. -/
theorem edge_neighbors_length (els : List Tri) : (edgeNeighbors els).length = (edges els).length := by
  simp [edgeNeighbors]

/-- `vertex_neighbors[v]` contains exactly the elements that have `v` as a vertex. -/
theorem vertex_neighbors_correct (nv : Nat) (els : List Tri) (v : Nat) (hv : v < nv) :
    ∃ row, (vertexNeighbors nv els)[v]? = some row ∧ ∀ i, i ∈ row ↔ ∃ t, els[i]? = some t ∧ v ∈ t.toList := by
  refine ⟨_, vertexNeighbors_get nv els v hv, ?_⟩
  intro i
  rw [mem_filter_zipIdx els (fun t => decide (v ∈ t.toList)) i]
  simp

/-- `element_neighbors[i]` contains exactly the elements with at least one vertex in common with element `i`
(itself included). -/
theorem element_neighbors_correct (els : List Tri) (hnd : NonDegenerate els) (i : Nat) (t : Tri)
    (ht : els[i]? = some t) :
    ∃ row, (elementNeighbors els)[i]? = some row ∧
      ∀ j, j ∈ row ↔ ∃ s, els[j]? = some s ∧ commonVertices t s ≠ [] := by
  refine ⟨(els.zipIdx.filter fun q => 0 < sharedCount t q.1).map fun q => q.2, by simp [elementNeighbors, ht], ?_⟩
  intro j
  rw [mem_filter_zipIdx els (fun s => decide (0 < sharedCount t s)) j]
  constructor
  · rintro ⟨s, hs, h⟩
    refine ⟨s, hs, ?_⟩
    rw [sharedCount_eq t s (hnd s (List.mem_of_getElem? hs))] at h
    intro hnil
    simp [hnil] at h
  · rintro ⟨s, hs, h⟩
    refine ⟨s, hs, ?_⟩
    rw [sharedCount_eq t s (hnd s (List.mem_of_getElem? hs))]
    simpa [List.length_pos_iff] using h

/-- mutual consistency: element `j` is a neighbour of element `i` iff the ordered pair is listed in `vertex_adjacency`,
or in `edge_adjacency`, or the two have all three vertices in common (the element itself or a duplicate). -/
theorem element_neighbors_consistent (els : List Tri) (hnd : NonDegenerate els) (i j : Nat) (t s : Tri)
    (hi : els[i]? = some t) (hj : els[j]? = some s) :
    (∃ row, (elementNeighbors els)[i]? = some row ∧ j ∈ row) ↔
      ((i, j) ∈ (vertexAdjacency els).map (fun c => (c.1, c.2.1)) ∨
       (i, j) ∈ (edgeAdjacency els).map (fun c => (c.1, c.2.1)) ∨ (commonVertices t s).length = 3) := by
  have hs := hnd s (List.mem_of_getElem? hj)
  have hle : (commonVertices t s).length ≤ 3 := by
    unfold commonVertices
    exact (List.length_filter_le _ _).trans (by simp [Tri.toList])
  have key : ∀ k, (commonVertices t s).length = k →
      ((i, j) ∈ (pairsWithCount els k).map (fun pq => (pq.1.2, pq.2.2))) := by
    intro k hk
    rw [List.mem_map]
    exact ⟨((t, i), (s, j)), (mem_pairsWithCount els k _).mpr ⟨hi, hj, by rw [sharedCount_eq t s hs]; exact hk⟩, rfl⟩
  have key' : ∀ k, ((i, j) ∈ (pairsWithCount els k).map (fun pq => (pq.1.2, pq.2.2))) →
      (commonVertices t s).length = k := by
    intro k hk
    rw [List.mem_map] at hk
    obtain ⟨⟨⟨t', i'⟩, ⟨s', j'⟩⟩, hm, he⟩ := hk
    simp only [Prod.mk.injEq] at he
    obtain ⟨rfl, rfl⟩ := he
    obtain ⟨h1, h2, h3⟩ := (mem_pairsWithCount els k _).mp hm
    simp only at h1 h2 h3
    have e1 : t' = t := Option.some.inj (h1.symm.trans hi)
    have e2 : s' = s := Option.some.inj (h2.symm.trans hj)
    subst e1 e2
    rw [← sharedCount_eq t' s' hs]; exact h3
  have hv : (vertexAdjacency els).map (fun c => (c.1, c.2.1)) =
      (pairsWithCount els 1).map (fun pq => (pq.1.2, pq.2.2)) := by
    simp [vertexAdjacency, List.map_map, Function.comp_def]
  have he : (edgeAdjacency els).map (fun c => (c.1, c.2.1)) =
      (pairsWithCount els 2).map (fun pq => (pq.1.2, pq.2.2)) := by
    simp [edgeAdjacency, List.map_map, Function.comp_def]
  rw [hv, he]
  obtain ⟨row, hrow, hmem⟩ := element_neighbors_correct els hnd i t hi
  constructor
  · rintro ⟨row', hrow', hj'⟩
    have : row' = row := Option.some.inj (hrow'.symm.trans hrow)
    subst this
    obtain ⟨s', hs', hne⟩ := (hmem j).mp hj'
    have : s' = s := Option.some.inj (hs'.symm.trans hj)
    subst this
    have hpos : 0 < (commonVertices t s').length := List.length_pos_iff.mpr hne
    have : (commonVertices t s').length = 1 ∨ (commonVertices t s').length = 2 ∨
        (commonVertices t s').length = 3 := by omega
    rcases this with h | h | h
    · exact Or.inl (key 1 h)
    · exact Or.inr (Or.inl (key 2 h))
    · exact Or.inr (Or.inr h)
  · intro h
    refine ⟨row, hrow, (hmem j).mpr ⟨s, hj, ?_⟩⟩
    have : 0 < (commonVertices t s).length := by
      rcases h with h | h | h
      · rw [key' 1 h]; omega
      · rw [key' 2 h]; omega
      · omega
    exact List.length_pos_iff.mp this

/-- under `NonDegenerate` an element is listed at most once per edge, so the length of `edge_neighbors[e]` is the
number of neighbouring elements. -/
theorem edge_neighbors_nodup (els : List Tri) (hnd : NonDegenerate els) (e : Nat) (row : List Nat)
    (hrow : (edgeNeighbors els)[e]? = some row) : row.Nodup := by
  have he : e < (edges els).length := by
    have := (List.getElem?_eq_some_iff.mp hrow).1
    rwa [edge_neighbors_length] at this
  rw [edgeNeighbors_get els e he] at hrow
  have := Option.some.inj hrow
  subst this
  rw [List.nodup_flatMap]
  constructor
  · rintro ⟨x, i⟩ hx
    rw [List.mem_zipIdx_iff_getElem?] at hx
    simp only at hx
    have hlt : i < els.length := by
      have := (List.getElem?_eq_some_iff.mp hx).1
      rwa [elementEdges_length] at this
    have hxn := elementEdges_nondegenerate els i els[i] x (List.getElem?_eq_getElem hlt) hx
      (hnd _ (List.getElem_mem hlt))
    have hc := count_le_one_of_nondegenerate x hxn e
    have hl : ((x.toList.filter fun k => k = e).map fun _ => i).length ≤ 1 := by
      simp only [List.length_map]
      have : (x.toList.filter fun k => decide (k = e)).length = x.toList.count e := by
        simp only [List.count, List.countP_eq_length_filter]
        congr 1
      omega
    match h : ((x.toList.filter fun k => k = e).map fun _ => i) with
    | [] => simp
    | [_] => simp
    | _ :: _ :: _ => rw [h] at hl; simp at hl
  · have hpw : List.Pairwise (fun p q : Tri × Nat => p.2 ≠ q.2) (elementEdges els).zipIdx := by
      have := List.nodup_range' (s := 0) (n := (elementEdges els).length) (step := 1)
      rw [← List.zipIdx_map_snd 0 (elementEdges els), List.Nodup, List.pairwise_map] at this
      exact this
    refine hpw.imp ?_
    intro p q hne
    simp only [Function.onFun, List.disjoint_left, List.mem_map]
    rintro a ⟨_, _, rfl⟩ ⟨_, _, h⟩
    exact hne h.symm

/-- `edge_on_boundary[e]` is set iff edge `e` has exactly one neighbouring element. -/
theorem edge_boundary_flag_exact (els : List Tri) (hnd : NonDegenerate els) (e : Nat) (he : e < (edges els).length) :
    (edgeOnBoundary els)[e]? = some true ↔ ∃ row, (edgeNeighbors els)[e]? = some row ∧ row.length = 1 := by
  rw [edgeOnBoundary_get els e he, edgeDiag_eq els hnd e, ← length_edgeNeighbors_row]
  simp only [Option.some.injEq, beq_iff_eq]
  constructor
  · intro h; exact ⟨_, edgeNeighbors_get els e he, h⟩
  · rintro ⟨row, hrow, h⟩
    rw [edgeNeighbors_get els e he] at hrow
    rw [Option.some.inj hrow]; exact h

/-- `vertex_on_boundary[v]` is set iff `v` is an end point of an edge whose boundary flag is set. -/
theorem vertex_boundary_flag_exact (nv : Nat) (els : List Tri) (v : Nat) (hv : v < nv) :
    (vertexOnBoundary nv els)[v]? = some true ↔
      ∃ (e : Nat) (ed : Edge), (edges els)[e]? = some ed ∧ (edgeOnBoundary els)[e]? = some true ∧
        (ed.1 = v ∨ ed.2 = v) :=
  vertexOnBoundary_iff nv els v hv

/-- non-vacuity (iii): two triangles sharing an edge, one isolated vertex (index 4): one interior edge, four boundary
edges, the isolated vertex is not on the boundary. -/
example : NonDegenerate [(0, 1, 2), (2, 1, 3)] ∧
    edgeNeighbors [(0, 1, 2), (2, 1, 3)] = [[0], [0], [0, 1], [1], [1]] ∧
    edgeOnBoundary [(0, 1, 2), (2, 1, 3)] = [true, true, false, true, true] ∧
    vertexOnBoundary 5 [(0, 1, 2), (2, 1, 3)] = [true, true, true, true, false] ∧
    elementNeighbors [(0, 1, 2), (2, 1, 3)] = [[0, 1], [0, 1]] := by
  decide

/-! ## (iv) Refinement, barycentric refinement, union, segments -/

section Refinement
variable {K : Type} [Field K]

/-- the vertices of child `4 i + k` of `Grid.refine` ARE the points named by the child table: parent vertices and
midpoints of the parent's local edges (so children are nested in their parent and neighbours agree on the midpoints). -/
theorem refine_children_vertices (V : List (V3 K)) (els : List Tri) (hr : InRange V.length els) (i k : Nat) (t : Tri)
    (code : GridConsts.Code × GridConsts.Code × GridConsts.Code)
    (ht : els[i]? = some t) (hk : GridConsts.refineChildren[k]? = some code) :
    ∃ child, (refineElems V.length els)[4 * i + k]? = some child ∧
      corners (refineVerts V els) child =
        (codePoint (vert V t.1) (vert V t.2.1) (vert V t.2.2) code.1,
         codePoint (vert V t.1) (vert V t.2.1) (vert V t.2.2) code.2.1,
         codePoint (vert V t.1) (vert V t.2.1) (vert V t.2.2) code.2.2) := by
  have hlt : i < (elementEdges els).length := by
    rw [elementEdges_length]; exact (List.getElem?_eq_some_iff.mp ht).1
  have hx : (elementEdges els)[i]? = some (elementEdges els)[i] := List.getElem?_eq_getElem hlt
  refine ⟨_, refineElems_get V.length els i k t _ code ht hx hk, ?_⟩
  obtain ⟨c0, c1, c2⟩ := refineChildren_codes code (List.mem_of_getElem? hk)
  simp only [corners]
  rw [refine_code_vertex V els i t _ code.1 hr ht hx c0.1 c0.2,
    refine_code_vertex V els i t _ code.2.1 hr ht hx c1.1 c1.2,
    refine_code_vertex V els i t _ code.2.2 hr ht hx c2.1 c2.2]

/-- `np.repeat(domain_indices, 4)`: child `4 i + k` inherits the domain index of element `i`. -/
theorem refine_domain_indices (doms : List Nat) (i k : Nat) (hk : k < 4) :
    (refineDoms doms)[4 * i + k]? = doms[i]? :=
  repeatEach_get 4 doms i k hk

/-- the vertices of child `6 i + s` of the barycentric refinement ARE the points named by the 18 assignments of
`_create_barycentric_connectivity_array`: parent vertices, midpoints of the parent's local edges, the barycentre —
whatever order the loop created the shared midpoint vertices in. -/
theorem bary_children_vertices (V : List (V3 K)) (els : List Tri) (hr : InRange V.length els) (i s : Nat) (t : Tri)
    (code : GridConsts.Code × GridConsts.Code × GridConsts.Code)
    (ht : els[i]? = some t) (hs : GridConsts.baryChildren[s]? = some code) :
    ∃ child, (baryElems V.length els)[6 * i + s]? = some child ∧
      corners (baryVerts V els) child =
        (codePoint (vert V t.1) (vert V t.2.1) (vert V t.2.2) code.1,
         codePoint (vert V t.1) (vert V t.2.1) (vert V t.2.2) code.2.1,
         codePoint (vert V t.1) (vert V t.2.1) (vert V t.2.2) code.2.2) := by
  have hlt : i < (elementEdges els).length := by
    rw [elementEdges_length]; exact (List.getElem?_eq_some_iff.mp ht).1
  have hx : (elementEdges els)[i]? = some (elementEdges els)[i] := List.getElem?_eq_getElem hlt
  have hl : ((els.zip (elementEdges els)).zipIdx)[i]? = some ((t, (elementEdges els)[i]), i) := by
    rw [List.getElem?_zipIdx, getElem?_zip' els _ i t _ ht hx]; simp
  obtain ⟨child, hchild, ok0, ok1, ok2⟩ :=
    baryGo_children V.length [] _ i s t (elementEdges els)[i] i code hl hs
  refine ⟨child, hchild, ?_⟩
  obtain ⟨l0, l1, l2⟩ := baryChildren_codes code (List.mem_of_getElem? hs)
  simp only [corners]
  rw [bary_code_vertex V els i t _ code.1 child.1 hr ht hx l0 ok0,
    bary_code_vertex V els i t _ code.2.1 child.2.1 hr ht hx l1 ok1,
    bary_code_vertex V els i t _ code.2.2 child.2.2 hr ht hx l2 ok2]

/-- `np.repeat(domain_indices, 6)`: child `6 i + s` inherits the domain index of element `i`. -/
theorem bary_domain_indices (doms : List Nat) (i s : Nat) (hs : s < 6) :
    (baryDoms doms)[6 * i + s]? = doms[i]? :=
  repeatEach_get 6 doms i s hs

/-- element `j` of the `g`-th grid of a union keeps its three corner points (local vertices 1, 2 exchanged when the
grid's normals are swapped): the vertex offsets and element offsets of `union` are right. -/
theorem union_elements (Vs : List (List (V3 K))) (gs : List (Nat × List Tri × Bool))
    (hcons : gs.map (fun h => h.1) = Vs.map List.length) (g : Nat) (Vg : List (V3 K)) (els : List Tri) (sw : Bool)
    (hV : Vs[g]? = some Vg) (hg : gs[g]? = some (Vg.length, els, sw)) (hr : InRange Vg.length els) (j : Nat) (t : Tri)
    (ht : els[j]? = some t) :
    ∃ u, (unionElems 0 gs)[((gs.take g).map fun h => h.2.1.length).sum + j]? = some u ∧
      corners (unionVerts Vs) u = corners Vg (if sw then (t.1, t.2.2, t.2.1) else t) := by
  refine ⟨_, unionElems_get gs 0 g Vg.length els sw j t hg ht, ?_⟩
  have hoff : ((gs.take g).map fun h => h.1).sum = ((Vs.take g).map List.length).sum := by
    rw [List.map_take, List.map_take, hcons]
  have hin := hr t (List.mem_of_getElem? ht)
  have hv : ∀ v, v < Vg.length → vert (unionVerts Vs) (v + (0 + ((gs.take g).map fun h => h.1).sum)) = vert Vg v := by
    intro v hvlt
    rw [hoff, Nat.zero_add, Nat.add_comm]
    simp only [vert, unionVerts, List.getD]
    rw [flatten_get Vs g v Vg hV hvlt]
  cases sw with
  | false => simp only [Bool.false_eq_true, if_false, shiftTri, corners, hv _ hin.1, hv _ hin.2.1, hv _ hin.2.2]
  | true =>
    simp only [if_true, swapTri_eq, shiftTri, corners, hv _ hin.1, hv _ hin.2.1, hv _ hin.2.2]

/-- `normalize_array` of `union` (used when no domain indices are given) is order preserving: two elements get
different / ordered new domain indices iff their old ones were different / ordered (domains are neither merged nor
split). -/
theorem normalize_array_order_preserving (arr : List Nat) (i j x y : Nat) (hi : arr[i]? = some x)
    (hj : arr[j]? = some y) :
    ∃ x' y', (normalizeArray arr)[i]? = some x' ∧ (normalizeArray arr)[j]? = some y' ∧ (x' < y' ↔ x < y) ∧
      (x' = y' ↔ x = y) := by
  rw [normalizeArray_eq_rank]
  have hmx := listMin_le arr x (List.mem_of_getElem? hi)
  have hmy := listMin_le arr y (List.mem_of_getElem? hj)
  have hxu : x - listMin arr ∈ uniqueSorted (arr.map (· - listMin arr)) := by
    rw [mem_uniqueSorted, List.mem_map]; exact ⟨x, List.mem_of_getElem? hi, rfl⟩
  have hyu : y - listMin arr ∈ uniqueSorted (arr.map (· - listMin arr)) := by
    rw [mem_uniqueSorted, List.mem_map]; exact ⟨y, List.mem_of_getElem? hj, rfl⟩
  have hs := uniqueSorted_sorted (arr.map (· - listMin arr))
  refine ⟨(uniqueSorted (arr.map (· - listMin arr))).idxOf (x - listMin arr),
    (uniqueSorted (arr.map (· - listMin arr))).idxOf (y - listMin arr), by simp [hi], by simp [hj], ?_, ?_⟩
  · rw [sorted_idxOf_lt _ hs _ _ hxu hyu]; omega
  · have h1 := sorted_idxOf_lt _ hs _ _ hxu hyu
    have h2 := sorted_idxOf_lt _ hs _ _ hyu hxu
    constructor
    · intro h; omega
    · intro h; subst h; rfl

/-- the new domain indices produced by `normalize_array` are exactly `0 .. N-1`, `N` the number of distinct values. -/
theorem normalize_array_range (arr : List Nat) (k : Nat) :
    k ∈ normalizeArray arr ↔ k < (uniqueSorted (arr.map (· - listMin arr))).length := by
  rw [normalizeArray_eq_rank]
  simp only [List.mem_map]
  constructor
  · rintro ⟨x0, ⟨x, hx, rfl⟩, rfl⟩
    apply List.idxOf_lt_length_of_mem
    rw [mem_uniqueSorted, List.mem_map]; exact ⟨x, hx, rfl⟩
  · intro hk
    have hmem : (uniqueSorted (arr.map (· - listMin arr)))[k] ∈ arr.map (· - listMin arr) := by
      rw [← mem_uniqueSorted]; exact List.getElem_mem hk
    rw [List.mem_map] at hmem
    obtain ⟨x, hx, hxe⟩ := hmem
    refine ⟨_, ⟨x, hx, rfl⟩, ?_⟩
    have h1 := getElem?_idxOf_of_mem _ _ (List.getElem_mem hk)
    have h2 : (uniqueSorted (arr.map (· - listMin arr)))[k]? = some (uniqueSorted (arr.map (· - listMin arr)))[k] :=
      List.getElem?_eq_getElem hk
    rw [hxe]
    exact nodup_getElem?_inj (uniqueSorted_nodup _) h1 h2

/-- `union` without given domain indices: the index blocks assigned to different (non-empty) grids are strictly
separated, every index of an earlier grid is smaller than every index of a later grid — no two grids share a domain
index (both with and without `normalize_domain_indices`). -/
theorem union_domain_blocks_separated (normalize : Bool) (ds : List (List Nat)) (hne : ∀ d ∈ ds, d ≠ []) :
    (unionDomains normalize ds).Pairwise (fun A B => ∀ a ∈ A, ∀ b ∈ B, a < b) :=
  unionDomains_pairwise normalize ds hne

/-- `grid_from_segments`: the kept elements are exactly the elements whose domain index is in `segments`, in the
original order and with their domain indices; every kept element keeps its three corner points under the new vertex
numbering; the new vertices are pairwise different old vertices and every one of them is used. -/
theorem segments_preserve (V : List (V3 K)) (els : List Tri) (doms segs : List Nat) :
    let r := gridFromSegments els doms segs
    r.1.zip r.2.2.2 = (els.zip doms).filter (fun p => p.2 ∈ segs) ∧
    r.2.1.Nodup ∧ (∀ v, v ∈ r.2.1 ↔ ∃ t ∈ r.1, v ∈ t.toList) ∧
    ∀ (k : Nat) (t : Tri), r.1[k]? = some t → ∃ u : Tri, r.2.2.1[k]? = some u ∧
      corners (segmentVerts V r.2.1) u = corners V t := by
  simp only [gridFromSegments]
  refine ⟨?_, uniqueSorted_nodup _, ?_, ?_⟩
  · generalize (els.zip doms).filter (fun p => decide (p.2 ∈ segs)) = F
    induction F with
    | nil => rfl
    | cons a F ih => simp only [List.map_cons, List.zip_cons_cons, ih]
  · intro v
    rw [mem_uniqueSorted]
    simp [List.mem_flatMap]
  · intro k t hk
    rw [List.getElem?_map, hk]
    refine ⟨_, rfl, ?_⟩
    have hmem : ∀ v ∈ t.toList, v ∈ uniqueSorted (((((els.zip doms).filter fun p => decide (p.2 ∈ segs)).map
        (fun p => p.1))).flatMap Tri.toList) := by
      intro v hv
      rw [mem_uniqueSorted, List.mem_flatMap]
      exact ⟨t, List.mem_of_getElem? hk, hv⟩
    have hget : ∀ v ∈ t.toList, vert (segmentVerts V (uniqueSorted (((((els.zip doms).filter fun p =>
        decide (p.2 ∈ segs)).map (fun p => p.1))).flatMap Tri.toList)))
        ((uniqueSorted (((((els.zip doms).filter fun p => decide (p.2 ∈ segs)).map
        (fun p => p.1))).flatMap Tri.toList)).idxOf v) = vert V v := by
      intro v hv
      simp only [vert, segmentVerts, List.getD, List.getElem?_map]
      rw [getElem?_idxOf_of_mem _ v (hmem v hv)]
      rfl
    simp only [corners]
    rw [hget t.1 (by simp [Tri.toList]), hget t.2.1 (by simp [Tri.toList]), hget t.2.2 (by simp [Tri.toList])]

end Refinement

/-- non-vacuity (iv): a concrete grid over ℚ satisfies the hypotheses; refine creates 4 children and 5 midpoints,
the barycentric refinement 12 children and 7 new vertices; domain indices are repeated. -/
example : InRange 4 [(0, 1, 2), (2, 1, 3)] ∧ (refineElems 4 [(0, 1, 2), (2, 1, 3)]).length = 8 ∧
    (baryElems 4 [(0, 1, 2), (2, 1, 3)]).length = 12 ∧ (baryNewVertices 4 [(0, 1, 2), (2, 1, 3)]).length = 7 ∧
    refineDoms [5, 7] = [5, 5, 5, 5, 7, 7, 7, 7] ∧ normalizeArray [7, 3, 9, 3] = [1, 0, 2, 0] ∧
    unionDomains true [[7, 3], [4, 4, 9]] = [[1, 0], [2, 2, 3]] ∧
    (gridFromSegments [(0, 1, 2), (2, 1, 3)] [5, 7] [7]).2.1 = [1, 2, 3] := by
  decide

end BemppVerif.C11
