/-
C19 — Grid and grid-function export and import round trip.
Property theorems only; helper lemmas live in BemppVerif/Lemmas/IOMap.lean.  meshio's writers and readers are
the identity on `MeshRec` (trusted; the oracle exercises them with real files).
-/
import BemppVerif.Model.IOMap
import BemppVerif.Lemmas.IOMap

namespace BemppVerif.C19
open BemppVerif.Model.IOMap BemppVerif.Lemmas.IOMap

/-! ### Gmsh round trip -/

/- FULL STATEMENT (false for the unchanged code, see `zero_domain_counterexample`):
     theorem roundtrip_msh (so) (g : Grid) (binary) (hwf : g.WF) :
       ∃ m, «export» so ".msh" (some g) none dt tr binary = .ok m ∧ importGrid m = .ok g
   The extra hypothesis `hnz` below (some domain index is non-zero) is exactly what the unchanged code needs:
   `import_grid` treats an all-zero `gmsh:physical` array as "no physical tags" and takes `gmsh:geometrical`,
   which `export` numbers from 1. -/
/-- `import_grid(export(g))` has the same vertices, elements and domain indices as `g`, for every grid whose
arrays are uint32 arrays of matching length (any coordinates, any non-contiguous indices up to 2³²−1, ASCII and
binary), PROVIDED at least one domain index is non-zero. -/
theorem roundtrip_msh_partial (so : List Nat → List Nat) (g : Grid) (dt : DataType) (tr : Transform)
    (binary : Bool) (hwf : g.WF) (hnz : ∃ d ∈ g.domain, d ≠ 0) :
    ∃ m, «export» so ".msh" (some g) none dt tr binary = .ok m ∧ importGrid m = .ok g := by
  obtain ⟨hlen, hdom, hel⟩ := hwf
  refine ⟨_, export_grid_only so _ g dt tr binary hlen, ?_⟩
  · have hz := int32s_all_zero_false g.domain hdom hnz
    simp [gridRec, importGrid, trianglesOf, cellDataOf, tagFields, chooseDomain, blockInts, traverse, hz,
      traverse_map tripleOf pointOf g.vertices (fun v _ => tripleOf_pointOf v), traverse_tripleOf_cells,
      map_uint32_cells g.elements hel, map_uint32_int32s g.domain hdom]

/-- The defect, for every grid: if all domain indices are 0 (and there is at least one element) the re-imported
grid has all domain indices equal to 1; vertices and elements are still preserved. -/
theorem zero_domain_gives_ones (so : List Nat → List Nat) (hso : SetOrderSpec so) (g : Grid) (dt : DataType)
    (tr : Transform) (binary : Bool) (hwf : g.WF) (hz : ∀ d ∈ g.domain, d = 0) :
    ∃ m, «export» so ".msh" (some g) none dt tr binary = .ok m ∧
      importGrid m = .ok { g with domain := g.domain.map fun _ => 1 } := by
  obtain ⟨hlen, hdom, hel⟩ := hwf
  refine ⟨_, export_grid_only so _ g dt tr binary hlen, ?_⟩
  · have hz' := int32s_all_zero_true g.domain hz
    simp [gridRec, importGrid, trianglesOf, cellDataOf, tagFields, chooseDomain, blockInts, traverse, hz',
      traverse_map tripleOf pointOf g.vertices (fun v _ => tripleOf_pointOf v), traverse_tripleOf_cells,
      map_uint32_cells g.elements hel, geomIndices_all_zero so hso g.domain hz]
    intro _ _
    rfl

/-- two triangles, both with domain index 0 -/
def zeroGrid : Grid :=
  { vertices := [(0, 0, 0), (1, 0, 0), (0, 1, 0), (1, 1, 0)], elements := [(0, 1, 2), (1, 3, 2)], domain := [0, 0] }

/-- Concrete witness of the defect (replayed on the real code by the oracle, key `msh-zero-domain-indices`):
the Gmsh round trip of `zeroGrid` returns domain indices `[1, 1]`, not `[0, 0]`. -/
theorem zero_domain_counterexample :
    ∃ m, «export» List.eraseDups ".msh" (some zeroGrid) none .unset .none true = .ok m ∧
      importGrid m = .ok { zeroGrid with domain := [1, 1] } ∧ importGrid m ≠ .ok zeroGrid :=
  ⟨_, rfl, by decide +kernel, by decide +kernel⟩

/-! ### other formats -/

/-- For every other extension (`.vtu`, `.ply`, …) the domain indices are written as cell data `domain_index`,
which `import_grid` does not read: vertices and elements are preserved, the domain indices become 0. -/
theorem roundtrip_other_formats (so : List Nat → List Nat) (ext : String) (g : Grid) (dt : DataType)
    (tr : Transform) (binary : Bool) (hext : ext ≠ ".msh") (hwf : g.WF) :
    ∃ m, «export» so ext (some g) none dt tr binary = .ok m ∧
      importGrid m = .ok { g with domain := g.domain.map fun _ => 0 } := by
  obtain ⟨hlen, hdom, hel⟩ := hwf
  refine ⟨_, export_grid_only so _ g dt tr binary hlen, ?_⟩
  · simp [gridRec, importGrid, trianglesOf, cellDataOf, tagFields, chooseDomain, hext,
      traverse_map tripleOf pointOf g.vertices (fun v _ => tripleOf_pointOf v), traverse_tripleOf_cells,
      map_uint32_cells g.elements hel]
    exact map_const_eq 0 _ _ hlen.symm

/-! ### grid-function data -/

/-- Node data: with `data_type="node"` (the default for P1 spaces) the record handed to meshio is the grid record
plus point data that is exactly the transformed `evaluate_on_vertices()` array, one row per vertex: under the name
`data` if the transformed array has a real dtype, as its real and imaginary parts under `real` / `imag` if it is
complex.  No data is put into the cell data. -/
theorem export_node_data_is_evaluation (so : List Nat → List Nat) (ext : String) (f : GridFun) (dt : DataType)
    (tr : Transform) (binary : Bool) (t : TMat)
    (hdt : defaultDataType dt (some f) = .node) (ht : applyTransform tr f.vertexValues = some t)
    (hre : t.re.length = f.grid.vertices.length) (him : t.im.length = f.grid.vertices.length)
    (hlen : f.grid.domain.length = f.grid.elements.length) :
    «export» so ext none (some f) dt tr binary =
      .ok { gridRec so ext binary f.grid with
            pointData := if t.isComplex then [("real", .mat t.re), ("imag", .mat t.im)] else [("data", .mat t.re)] } := by
  have hacc := accepted_grid_only so (ext == ".msh") f.grid
    (if (ext == ".msh") = true then some "gmsh22" else none) binary hlen
  simp only [«export», hdt, dataFields, ht]
  cases hc : t.isComplex
  · simp only [assemble, gridRec, Bool.false_eq_true, if_false]
    rw [if_pos (by
      simp only [MeshRec.accepted, List.all_cons, List.all_nil, Block.len, hre, List.length_map,
        beq_self_eq_true, Bool.and_true, Bool.true_and] at hacc ⊢
      exact hacc)]
  · simp only [assemble, gridRec, if_true]
    rw [if_pos (by
      simp only [MeshRec.accepted, List.all_cons, List.all_nil, Block.len, hre, him, List.length_map,
        beq_self_eq_true, Bool.and_true, Bool.true_and] at hacc ⊢
      exact hacc)]

/-- Element data: with `data_type="element"` (the default for all other spaces) the record handed to meshio is
the grid record with additional cell data that is exactly the transformed `evaluate_on_element_centers()` array (one
block, one row per element): under the name `data` if the transformed array has a real dtype, as its real and
imaginary parts under `real` / `imag` if it is complex.  No point data is written. -/
theorem export_element_data_is_evaluation (so : List Nat → List Nat) (ext : String) (f : GridFun)
    (dt : DataType) (tr : Transform) (binary : Bool) (t : TMat)
    (hdt : defaultDataType dt (some f) = .element) (ht : applyTransform tr f.centerValues = some t)
    (hre : t.re.length = f.grid.elements.length) (him : t.im.length = f.grid.elements.length)
    (hlen : f.grid.domain.length = f.grid.elements.length) :
    «export» so ext none (some f) dt tr binary =
      .ok { gridRec so ext binary f.grid with
            cellData := (if t.isComplex then [("real", [.mat t.re]), ("imag", [.mat t.im])]
                         else [("data", [.mat t.re])]) ++ tagFields so (ext == ".msh") f.grid } := by
  have hacc := accepted_grid_only so (ext == ".msh") f.grid
    (if (ext == ".msh") = true then some "gmsh22" else none) binary hlen
  simp only [«export», hdt, dataFields, ht]
  cases hc : t.isComplex
  · simp only [assemble, gridRec, Bool.false_eq_true, if_false]
    rw [if_pos (by
      simp only [MeshRec.accepted, List.all_cons, List.all_nil, Block.len, List.length_map, hre, List.nil_append,
        List.cons_append, List.length_cons, List.length_nil, List.zip_cons_cons, List.zip_nil_right,
        beq_self_eq_true, Bool.and_true, Bool.true_and] at hacc ⊢
      exact hacc)]
  · simp only [assemble, gridRec, if_true]
    rw [if_pos (by
      simp only [MeshRec.accepted, List.all_cons, List.all_nil, Block.len, List.length_map, hre, him,
        List.nil_append, List.cons_append, List.length_cons, List.length_nil, List.zip_cons_cons,
        List.zip_nil_right, beq_self_eq_true, Bool.and_true, Bool.true_and] at hacc ⊢
      exact hacc)]

/-- two triangles, a complex DP0 function with coefficients `1+2i`, `3+4i` -/
def complexDP0 : GridFun :=
  { grid := { vertices := [(0, 0, 0), (1, 0, 0), (0, 1, 0), (1, 1, 0)], elements := [(0, 1, 2), (1, 3, 2)],
              domain := [0, 7] }
    isP1 := false
    vertexValues := ⟨true, [[(1, 2)], [(2, 3)], [(2, 3)], [(3, 4)]]⟩
    centerValues := ⟨true, [[(1, 2)], [(3, 4)]]⟩ }

/-- Regression witness for the repaired defect `export-complex-element-data` (replayed on the real code by the
oracle): the element data of `complexDP0` IS exported, as the real and imaginary parts of the centre values. -/
theorem complex_element_data_exported :
    ∃ m, «export» List.eraseDups ".msh" none (some complexDP0) .unset .none true = .ok m ∧
      m.cellData.lookup "real" = some [.mat [[.rat 1], [.rat 3]]] ∧
      m.cellData.lookup "imag" = some [.mat [[.rat 2], [.rat 4]]] :=
  ⟨_, rfl, by decide +kernel, by decide +kernel⟩

/-! ### transformations, defaults, import logic -/

/-- `_transform_array`: what each named transformation computes, entry by entry (`cols[j][c] = values[c, j]`):
`real`/`imag` take parts componentwise (the imaginary part of a real-dtype array is 0); `abs_squared` is the sum
over the components of `re² + im²`, `abs` its square root and `log_abs` the logarithm of that, each collapsing the
components to one; `None` leaves the array and its dtype alone; all named transformations return a real dtype and
one column per input column. -/
theorem transform_defs (m : CMat) :
    applyTransform .none m = some (plain m) ∧
    (applyTransform .real m).map (·.re) = some (m.cols.map (·.map fun z => Val.rat z.1)) ∧
    (applyTransform .imag m).map (·.re)
      = some (m.cols.map (·.map fun z => if m.isComplex then Val.rat z.2 else Val.rat 0)) ∧
    (applyTransform .absSquared m).map (·.re)
      = some (m.cols.map fun c => [Val.rat ((c.map fun z => z.1 * z.1 + z.2 * z.2).sum)]) ∧
    (applyTransform .abs m).map (·.re)
      = some (m.cols.map fun c => [Val.sqrt ((c.map fun z => z.1 * z.1 + z.2 * z.2).sum)]) ∧
    (applyTransform .logAbs m).map (·.re)
      = some (m.cols.map fun c => [Val.logSqrt ((c.map fun z => z.1 * z.1 + z.2 * z.2).sum)]) ∧
    (∀ tr t, (tr = .real ∨ tr = .imag ∨ tr = .abs ∨ tr = .absSquared ∨ tr = .logAbs) →
      applyTransform tr m = some t → t.isComplex = false ∧ t.re.length = m.cols.length) ∧
    (plain m).isComplex = m.isComplex ∧ (plain m).re.length = m.cols.length ∧ (plain m).im.length = m.cols.length := by
  refine ⟨rfl, rfl, rfl, rfl, rfl, rfl, ?_, rfl, by simp [plain], by simp [plain]⟩
  intro tr t h ht
  rcases h with h | h | h | h | h <;> subst h <;> simp only [applyTransform, Option.some.injEq] at ht <;>
    subst ht <;> simp [realResult]

/-- Default `data_type`: `"node"` exactly when `space.identifier` equals the string `export` tests (`"p1"`),
`"element"` for every other space; an explicit value is never overridden.  (Observation reported with C19: no
library space has the identifier `"p1"`, so the default is `"element"` for every real space, P1 included.) -/
theorem default_data_type (f : GridFun) (dt : DataType) :
    defaultDataType .unset (some f) = (if f.isP1 then .node else .element) ∧
    (dt ≠ .unset → defaultDataType dt (some f) = dt) := by
  refine ⟨rfl, ?_⟩
  cases dt <;> simp [defaultDataType]

/-- `import_grid`'s choice of domain indices: `gmsh:physical` if present and not identically 0; otherwise
`gmsh:geometrical` if present; otherwise the (all-zero) physical tags, or nothing (⇒ zeros in `Grid`). -/
theorem import_domain_choice (p q : List Int) :
    (p.all (· == 0) = false → ∀ g, chooseDomain (some p) g = some p) ∧
    (p.all (· == 0) = true → chooseDomain (some p) (some q) = some q ∧ chooseDomain (some p) none = some p) ∧
    (∀ g, chooseDomain none g = g) := by
  refine ⟨fun h g => by simp [chooseDomain, h], fun h => by simp [chooseDomain, h], fun g => rfl⟩

/-- `import_grid` keeps exactly the cells of all blocks of type `triangle`, in block order, and drops every other
block (lines, vertices, …); a mesh without a triangle block is rejected. -/
theorem import_keeps_triangles (m : MeshRec) :
    (trianglesOf m = none ↔ ∀ b ∈ m.cells, b.type ≠ "triangle") ∧
    (∀ t, trianglesOf m = some t → t = (m.cells.filter (·.type == "triangle")).flatMap (·.cells)) := by
  constructor
  · simp [trianglesOf, List.filter_eq_nil_iff]
  · intro t h
    simp only [trianglesOf] at h
    split at h
    · cases h
    · exact (Option.some.inj h).symm

/-! ### non-vacuity -/

/-- non-contiguous domain indices including 0 and one ≥ 2³¹ -/
def sampleGrid : Grid :=
  { vertices := [(0, 0, 1/4), (1, 0, 0), (0, 1, 1/2), (1, 1, 0), (1/2, 1/2, 9/8)]
    elements := [(0, 1, 2), (1, 3, 2), (2, 3, 4)], domain := [0, 2147483653, 3] }

/-- `roundtrip_msh_partial` applies to `sampleGrid` (its hypotheses are satisfiable) -/
example : sampleGrid.WF ∧ ∃ d ∈ sampleGrid.domain, d ≠ 0 := by
  refine ⟨⟨rfl, by decide, by decide⟩, 3, by decide, by decide⟩

/-- and the round trip of `sampleGrid` computes to `sampleGrid` -/
example : ∃ m, «export» List.eraseDups ".msh" (some sampleGrid) none .unset .none false = .ok m ∧
    importGrid m = .ok sampleGrid := ⟨_, rfl, by decide +kernel⟩

/-- the hypothesis `SetOrderSpec` of `zero_domain_gives_ones` is satisfiable (first-occurrence order) -/
example : SetOrderSpec List.eraseDups := setOrderSpec_eraseDups

/-- node data of a complex function: hypotheses of `export_node_data_is_evaluation` are satisfiable and the
exported `imag` array is the imaginary part of the vertex values -/
example : ∃ m, «export» List.eraseDups ".vtu" none (some complexDP0) .node .none true = .ok m ∧
    m.pointData.lookup "imag" = some (.mat [[.rat 2], [.rat 3], [.rat 3], [.rat 4]]) ∧
    m.pointData.lookup "real" = some (.mat [[.rat 1], [.rat 2], [.rat 2], [.rat 3]]) :=
  ⟨_, rfl, by decide +kernel, by decide +kernel⟩

end BemppVerif.C19
