/-
C18 — Results depend only on explicit arguments, not on process history.
Property theorems only; the state machine is `BemppVerif/Model/Hist.lean`, helper lemmas `BemppVerif/Lemmas/Hist.lean`.

`Code.asFound` mirrors the tree in which the FMM cache keys omit the quadrature order and the FMM evaluators read
`GLOBAL_PARAMETERS`; `Code.repaired` mirrors the tree after `findings/proposed_c18.diff`.  `props/c18.py` reads the
source on every run, decides which of the two the working tree is, drives the corresponding model in the
correspondence and registers the theorems about THAT variant as obligations.
-/
import BemppVerif.Model.Hist
import BemppVerif.Lemmas.Hist

namespace BemppVerif.C18
open BemppVerif.Model.Hist BemppVerif.Lemmas.Hist

/-! ### History independence -/

/-- REPAIRED TREE, all operators.  After ANY earlier history (any state whose FMM caches were filled by the code
itself: `Inv`) and for ANY sequence of API calls — creating spaces / operators / potentials on any assembler with
global or explicit parameters, `weak_form`, `strong_form`, `mass_matrix`, potential evaluation, changes of global or
explicit parameter objects and of `DEFAULT_PRECISION`, `clear_fmm_cache` — every call returns exactly what the
cache-free specification returns: the configuration used by an assembly is `resolve(arguments at construction,
values of the operator's parameter object at its first use)`, and it is frozen afterwards.  Only whether an FMM
interface object was reused (`eraseHit`) may differ. -/
theorem history_independent (s : State) (hs : Inv s) (ops : List Op) :
    (run .repaired s ops).map Out.eraseHit = specRun s.core ops :=
  run_sim ops s hs

/-- the same from a fresh interpreter -/
theorem history_independent_fresh (ops : List Op) :
    (run .repaired State.init ops).map Out.eraseHit = specRun Core.init ops :=
  run_sim ops State.init inv_init

/- Full statement for the tree AS FOUND (false, see `fmm_counterexample_history`):
     ∀ ops, (run .asFound State.init ops).map Out.eraseHit = specRun Core.init ops            -/
/-- TREE AS FOUND, every history that builds no operator on the FMM path (dense, sparse, singular, dense potential
operators, mass matrices, strong forms; any parameter changes, cache clears, interleavings). -/
theorem history_independent_partial (ops : List Op) (h : ∀ op ∈ ops, op.createsFmm = false) :
    (run .asFound State.init ops).map Out.eraseHit = specRun Core.init ops := by
  rw [run_code_irrelevant ops State.init inv_init noFmm_init h]
  exact run_sim ops State.init inv_init

/-- the history of finding (i), first half: two FMM operators on one grid with a change of the global quadrature
order between them -/
def staleHistory : List Op :=
  [.createSpace 0, .createOp .fmm 0 0 .glob none, .weakForm 0, .setGlobal .regular 6,
   .createOp .fmm 0 0 .glob none, .weakForm 1]

/-- TREE AS FOUND: after `staleHistory` the second operator talks to the interface built for order 4 (6 points per
element) with point maps of order 6 (12 points per element): the configuration is inconsistent (the first matvec
raises) and differs from the specification. -/
theorem fmm_counterexample_history :
    (run .asFound State.init staleHistory).map Out.eraseHit ≠ specRun Core.init staleHistory
    ∧ (run .asFound State.init staleHistory).getLast? =
        some (.asm false true ⟨some 6, some 4, some ⟨0, 0, 0, 4, 5, 400⟩, .double⟩)
    ∧ (Used.consistent ⟨some 6, some 4, some ⟨0, 0, 0, 4, 5, 400⟩, .double⟩) = false := by
  decide

/-- second half of finding (i): an explicit parameter object with regular order 6 under global order 4 -/
def explicitHistory : List Op :=
  [.createSpace 0, .newParams ⟨6, 4, 5, 400, 4⟩, .createOp .fmm 0 0 (.obj 0) none, .weakForm 0,
   .createPot .fmm 0 0 0 (.obj 0), .evalPot 0]

/-- TREE AS FOUND: the FMM boundary operator mixes the explicit order (interface) with the global order (maps) and
the FMM potential operator ignores the explicit object altogether (silently evaluates with order 4). -/
theorem fmm_counterexample_explicit :
    run .asFound State.init explicitHistory =
      [.unit, .unit, .unit, .asm false false ⟨some 4, some 4, some ⟨0, 0, 0, 6, 5, 400⟩, .double⟩,
       .pot false ⟨some 4, none, some ⟨0, 0, 0, 4, 5, 400⟩, .double⟩,
       .potEval ⟨some 4, none, some ⟨0, 0, 0, 4, 5, 400⟩, .double⟩]
    ∧ specRun Core.init explicitHistory =
      [.unit, .unit, .unit, .asm false false ⟨some 6, some 4, some ⟨0, 0, 0, 6, 5, 400⟩, .double⟩,
       .pot false ⟨some 6, none, some ⟨0, 0, 0, 6, 5, 400⟩, .double⟩,
       .potEval ⟨some 6, none, some ⟨0, 0, 0, 6, 5, 400⟩, .double⟩] := by
  decide

/-- on the repaired tree both histories behave like the specification (instances of `history_independent`) and
`clear_fmm_cache()` heals the first one already on the tree as found -/
example : (run .repaired State.init staleHistory).map Out.eraseHit = specRun Core.init staleHistory
    ∧ (run .repaired State.init explicitHistory).map Out.eraseHit = specRun Core.init explicitHistory
    ∧ (let h := [.createSpace 0, .createOp .fmm 0 0 .glob none, .weakForm 0, .setGlobal .regular 6, .clearFmmCache,
                 .createOp .fmm 0 0 .glob none, .weakForm 1]
       (run .asFound State.init h).map Out.eraseHit = specRun Core.init h) := by
  decide

/-! ### Explicit parameter objects -/

/-- REPAIRED TREE: an operator holding the explicit object `i` (values `p`) is assembled with `resolve … p` whatever
the global parameters `g` are, and that is exactly what an operator built with `parameters=None` gets when the same
values are set globally. -/
theorem explicit_params_honoured (s : State) (hs : Inv s) (o : BOp) (i : Nat) (sp : Space) (p : Params)
    (hpref : o.pref = .obj i) (hsp : s.core.spaces[o.space]? = some sp) (he : s.core.explicit[i]? = some p)
    (g : Params) :
    (assemble .repaired { s with core := { s.core with glob := g } } o).map (·.2.2)
        = some (resolve o.asm sp.grid o.kern o.prec p)
    ∧ (assemble .repaired { s with core := { s.core with glob := p } } { o with pref := .glob }).map (·.2.2)
        = some (resolve o.asm sp.grid o.kern o.prec p) := by
  constructor
  · have h := assemble_spec { s with core := { s.core with glob := g } } hs o
    simp only [hsp, hpref, deref, he] at h
    obtain ⟨s', hit, e, _, _⟩ := h
    rw [e]; rfl
  · have h := assemble_spec { s with core := { s.core with glob := p } } hs { o with pref := .glob }
    simp only [hsp, deref] at h
    obtain ⟨s', hit, e, _, _⟩ := h
    rw [e]; rfl

/- Full statement for the tree as found: as above with `.asFound` (false for `o.asm = .fmm`,
   `fmm_counterexample_explicit`). -/
/-- TREE AS FOUND: the same for the dense, sparse and singular assemblers (no hypothesis on the caches needed). -/
theorem explicit_params_honoured_partial (s : State) (o : BOp) (i : Nat) (sp : Space) (p : Params)
    (ha : o.asm ≠ .fmm)
    (hpref : o.pref = .obj i) (hsp : s.core.spaces[o.space]? = some sp) (he : s.core.explicit[i]? = some p)
    (g : Params) :
    (assemble .asFound { s with core := { s.core with glob := g } } o).map (·.2.2)
        = some (resolve o.asm sp.grid o.kern o.prec p)
    ∧ (assemble .asFound { s with core := { s.core with glob := p } } { o with pref := .glob }).map (·.2.2)
        = some (resolve o.asm sp.grid o.kern o.prec p) := by
  unfold assemble
  simp only [hsp, hpref, deref, he]
  cases h : o.asm <;> simp_all [resolve]

/-- the dense potential operator reads its parameter object in the constructor (both trees) and the FMM potential
operator of the repaired tree does; the configuration never changes afterwards: after any further calls `evaluate`
uses what the constructor resolved -/
theorem potential_resolved_at_construction (c : Code) (s : State) (a : PotAsm) (sp pts kern : Nat) (pref : PRef)
    (hit : Bool) (u : Used) (h : (step c s (.createPot a sp pts kern pref)).2 = .pot hit u) (ops : List Op) :
    let s1 := (step c s (.createPot a sp pts kern pref)).1
    (step c (runState c s1 ops) (.evalPot s.core.pots.length)).2 = .potEval u := by
  intro s1
  have hf : FrozenP s1.core.pots s.core.pots.length u := by
    simp only [s1]
    simp only [step, plainStep, createPot] at h ⊢
    cases hsp : s.core.spaces[sp]? with
    | none => simp [hsp] at h
    | some spc =>
      cases hp : deref s.core pref with
      | none => simp [hsp, hp] at h
      | some p =>
        simp only [hsp, hp] at h ⊢
        cases a with
        | dense =>
          simp only [Out.pot.injEq] at h
          obtain ⟨_, rfl⟩ := h
          exact ⟨_, List.getElem?_concat_length .., rfl⟩
        | fmm =>
          simp only at h ⊢
          cases hl : s.potCache.lookup (potKey c spc.grid pts kern p) <;> simp only [hl, Out.pot.injEq] at h ⊢ <;>
            obtain ⟨_, rfl⟩ := h <;> exact ⟨_, List.getElem?_concat_length .., rfl⟩
  obtain ⟨o, ho, hu⟩ := runState_frozenP c _ u ops s1 hf
  simp only [step, plainStep, ho, hu]

/-! ### Memoisation -/

/-- both trees: a second `weak_form()` returns the memoised object (`fromCache = true`) with the configuration of the
first call and leaves the whole state unchanged -/
theorem weak_form_idempotent (c : Code) (s : State) (k : Nat) (fc hit : Bool) (u : Used)
    (h : (step c s (.weakForm k)).2 = .asm fc hit u) :
    step c (step c s (.weakForm k)).1 (.weakForm k) = ((step c s (.weakForm k)).1, .asm true false u) := by
  simp only [step, plainStep] at h ⊢
  exact weakForm_of_frozen c _ k u (weakForm_freezes c s k fc hit u h)

/-- both trees: once `weak_form()` returned configuration `u`, NO later sequence of calls — changes of the global
parameters, of explicit parameter objects, of the default precision, cache clears, other assemblies — changes what
`weak_form()` (and the weak-form part of `strong_form()`) returns -/
theorem later_global_changes_do_not_affect_assembled (c : Code) (s : State) (k : Nat) (fc hit : Bool) (u : Used)
    (h : (step c s (.weakForm k)).2 = .asm fc hit u) (ops : List Op) :
    (step c (runState c (step c s (.weakForm k)).1 ops) (.weakForm k)).2 = .asm true false u := by
  simp only [step, plainStep] at h ⊢
  have hf := runState_frozen c k u ops _ (weakForm_freezes c s k fc hit u h)
  rw [weakForm_of_frozen c _ k u hf]

/-- the requested precision selects the precision of the result array of the dense and singular assemblers and
nothing else (orders, FMM settings are those of the double-precision request) -/
theorem precision_selects_dtype_only (a : Asm) (grid kern : Nat) (prec : Prec) (p : Params) :
    resolve a grid kern prec p = { resolve a grid kern .double p with
      dtype := match a with | .dense => prec | .singular => prec | _ => .double } := by
  cases a <;> rfl

/-! ### Non-vacuity -/

/-- a history with a parameter change between construction and first use, an explicit object, a later global change,
a repeated `weak_form`, a strong form and a mass matrix: the (as-found) model returns what is expected -/
example :
    run .asFound State.init
      [.createSpace 7, .newParams ⟨3, 5, 5, 400, 4⟩, .createOp .dense 0 0 .glob none,
       .createOp .dense 0 0 (.obj 0) (some .single), .setGlobal .regular 6, .weakForm 0, .weakForm 1,
       .setGlobal .regular 2, .setGlobal .singular 7, .weakForm 0, .strongForm 1, .massMatrix 0, .strongForm 0]
    = [.unit, .unit, .unit, .unit, .unit,
       .asm false false ⟨some 6, some 4, none, .double⟩, .asm false false ⟨some 3, some 5, none, .single⟩,
       .unit, .unit,
       .asm true false ⟨some 6, some 4, none, .double⟩,
       .strong false (some ⟨some 2, none, none, .double⟩) true false ⟨some 3, some 5, none, .single⟩,
       .mass true ⟨some 2, none, none, .double⟩,
       .strong true (some ⟨some 2, none, none, .double⟩) true false ⟨some 6, some 4, none, .double⟩] := by
  decide

/-- `Inv` is satisfiable by a non-empty cache (reached by the repaired model itself), and the hypotheses of
`explicit_params_honoured` are satisfiable -/
example : ∃ s : State, Inv s ∧ s.fmmCache ≠ [] ∧ s.potCache ≠ [] :=
  ⟨⟨Core.init, [([0, 0, 0, 5, 400, 4], ⟨0, 0, 0, 4, 5, 400⟩)], [([0, 1, 0, 4, 5, 400], ⟨0, 1, 0, 4, 5, 400⟩)]⟩,
   ⟨by intro e he; simp at he; subst he; simp [KeyOK], by intro e he; simp at he; subst he; simp [PotKeyOK]⟩,
   by simp, by simp⟩

example : (runState .repaired State.init staleHistory).fmmCache.length = 2 := by decide

end BemppVerif.C18
