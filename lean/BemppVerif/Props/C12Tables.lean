/-
C12 — tabulated quadrature rules: statements decided by kernel computation (`decide +kernel`)
over the tables regenerated from the source on every run.
-/
import BemppVerif.Model.Quad

namespace BemppVerif.C12
open BemppVerif.Model.Quad BemppVerif.Gen

/-! ### Tabulated rules: exactness by kernel computation over the *whole* regenerated table -/

theorem tri_exact_all : triExactAll = true := by decide +kernel

/-- Triangle rule of order `n` (1..20) integrates `x^a y^b`, `a+b ≤ n`, to within `1e-14` of
`a! b!/(a+b+2)!` (exact rational arithmetic on the exact binary64 table values). -/
theorem tri_exact (n a b : Nat) (h1 : 1 ≤ n) (h20 : n ≤ 20) (hab : a + b ≤ n) :
    triExactAt n a b = true := by
  have h := tri_exact_all
  unfold triExactAll at h
  rw [List.all_eq_true] at h
  have h' := h (n - 1) (by simp; omega)
  rw [List.all_eq_true] at h'
  have h'' := h' a (by simp; omega)
  rw [List.all_eq_true] at h''
  have h3 := h'' b (by simp; omega)
  have : n - 1 + 1 = n := by omega
  rwa [this] at h3

theorem gauss_exact_all : gaussExactAll = true := by decide +kernel

/-- Gauss rule with `n` points (1..30) integrates `x^j`, `j ≤ 2n-1`, over [0,1] to within `1e-14`. -/
theorem gauss_exact (n j : Nat) (h1 : 1 ≤ n) (h30 : n ≤ 30) (hj : j ≤ 2 * n - 1) :
    gaussExactAt n j = true := by
  have h := gauss_exact_all
  unfold gaussExactAll at h
  rw [List.all_eq_true] at h
  have h' := h (n - 1) (by simp; omega)
  rw [List.all_eq_true] at h'
  have h3 := h' j (by simp; omega)
  have : n - 1 + 1 = n := by omega
  rwa [this] at h3

/-- every tabulated Gauss node lies strictly inside (0,1), every weight is positive, and the rule
of order `n` has exactly `n` points -/
theorem gauss_interior_all : gaussInteriorAll = true := by decide +kernel

/-! ### Lookup: rejected exactly outside the supported range; slices inside the tables -/

theorem tri_rule_rejects (n : Int) : triRuleInt n = none ↔ (n < 1 ∨ n > 20) := by
  unfold triRuleInt
  have h1 : TriTable.ruleLo = 1 := by decide
  have h2 : TriTable.ruleHi = 20 := by decide
  rw [h1, h2]
  split <;> simp_all

theorem gauss_rule_rejects (n : Int) : gaussRuleInt n = none ↔ (n < 1 ∨ n > 30) := by
  unfold gaussRuleInt
  have h1 : GaussTable.ruleLo = 1 := by decide
  have h2 : GaussTable.ruleHi = 30 := by decide
  rw [h1, h2]
  split <;> simp_all

theorem tri_slices_in_range : (List.range 20).all (fun i => triSliceOK (i + 1)) = true := by
  decide +kernel

theorem gauss_slices_in_range : (List.range 30).all (fun i => gaussSliceOK (i + 1)) = true := by
  decide +kernel

/-! ### Edge-adjacent and coincident exactness on the tabulated rule, by kernel computation
(orders 2 and 3 here; order 4 in `Props/C12Deep.lean`, thorough tier).  For larger `n` only the
structure theorems above are proved: `edge_adjacent_exact` / `coincident_exact` for all `n` are
NOT proved (named gap, see DESIGN.md). -/

theorem duffy_exact_upto3_partial :
    ([Adj.coincident, Adj.edge, Adj.vertex].all fun adj => [2, 3].all fun n => duffyExactOrder adj n) = true := by
  decide +kernel


end BemppVerif.C12
