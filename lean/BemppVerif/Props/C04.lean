/-
C04 — Operators on a subspace are congruence transforms of those on a larger space.

Full for the congruence / sub-block statements (all grids, spaces, sizes, kernels); the statement about nested spaces on
refined grids ("up to quadrature error that vanishes") is oracle-only.
-/
import BemppVerif.Lemmas.AsmSpec
import BemppVerif.Model.Sing

namespace BemppVerif.C04
open BemppVerif.Model.Asm BemppVerif.Lemmas

/-- **Congruence.**  For every pair of spaces `(T, S)` (arbitrary `local2global` and multipliers: P1, RWG, SNC, segment and
support restrictions, artificial zero-multiplier dofs …) and arbitrary local integrals `I τ σ i j`, the Galerkin matrix is
`Σ_{(τ,i)} Σ_{(σ,j)} T_T[(τ,i), r] · I τ σ i j · T_S[(σ,j), c]` with `T[(e,i), g] = mult e i · [l2g e i = g]`,
i.e. `T_Tᵀ · A_DP · T_S` where `A_DP[(τ,i),(σ,j)] = I τ σ i j` is the matrix of the element-wise discontinuous space with
the same local basis and `T` the space's coefficient map (`map_to_full_grid`). -/
theorem congruence {R : Type} [CommRing R] (T S : SpaceData R) (suppT suppS : List Nat)
    (I : Nat → Nat → Nat → Nat → R) (r c : Nat) :
    galerkin T S suppT suppS I r c =
      lsum (suppT.map fun τ => rsum T.nshape fun i =>
        (if T.l2g τ i = r then T.mult τ i else 0) *
          lsum (suppS.map fun σ => rsum S.nshape fun j =>
            I τ σ i j * (if S.l2g σ j = c then S.mult σ j else 0))) :=
  galerkin_congruence T S suppT suppS I r c

/-- **The element-wise space reproduces the local integrals**: `A_DP[nT·τ+i, nS·σ+j] = I τ σ i j` with the code's
flattening `local2global[e, i] = nshape·e + i`; in particular spaces restricted to support elements give exactly the
corresponding sub-blocks. -/
theorem dp_entries_are_local_integrals {R : Type} [CommRing R] (nT nS : Nat) (suppT suppS : List Nat)
    (hT : suppT.Nodup) (hS : suppS.Nodup) (I : Nat → Nat → Nat → Nat → R) (τ σ i j : Nat)
    (hτ : τ ∈ suppT) (hσ : σ ∈ suppS) (hi : i < nT) (hj : j < nS) :
    galerkin (dpSpace nT) (dpSpace nS) suppT suppS I (nT * τ + i) (nS * σ + j) = I τ σ i j :=
  galerkin_dp_entry nT nS suppT suppS hT hS I τ σ i j hτ hσ hi hj

/-- **The assembled dense operator on any pair of spaces is the congruence transform of the local integrals**
(combination of `dense_refines_spec` and `congruence`). -/
theorem dense_is_congruence {R : Type} [CommRing R] (dr : RegData R) (ds : SingData R) (T S : SpaceData R)
    (byColor : List (List Nat)) (tr suppT suppS : List Nat) (pairs : List SingPair)
    (hcol : byColor.flatten.Perm suppT) (htr : tr.Perm suppS) (hT : suppT.Nodup) (hS : suppS.Nodup)
    (hmemT : ∀ pr ∈ pairs, pr.testElem ∈ suppT) (hmemS : ∀ pr ∈ pairs, pr.trialElem ∈ suppS) (r c : Nat) :
    entry (denseRegular dr T S byColor tr ++ singularContribs ds T S pairs) r c =
      lsum (suppT.map fun τ => rsum T.nshape fun i =>
        (if T.l2g τ i = r then T.mult τ i else 0) *
          lsum (suppS.map fun σ => rsum S.nshape fun j =>
            (localReg dr τ σ i j + singSum ds pairs τ σ i j) * (if S.l2g σ j = c then S.mult σ j else 0))) := by
  rw [dense_refines_spec dr ds T S byColor tr suppT suppS pairs hcol htr hT hS hmemT hmemS]
  exact galerkin_congruence T S suppT suppS _ r c

/-- the singular pair filter keeps exactly the pairs with both elements in their supports (model of the support filter of
`_SingularQuadratureRuleInterfaceGalerkin.__init__`) -/
theorem singular_pairs_filtered (n nElem : Nat) (ts ss : Nat → Bool)
    (ea : List BemppVerif.Model.Sing.EdgeCol) (va : List BemppVerif.Model.Sing.VertCol) :
    ∀ pr ∈ BemppVerif.Model.Sing.singPairs n nElem ts ss ea va, ts pr.testElem = true ∧ ss pr.trialElem = true := by
  intro pr hpr
  simp only [BemppVerif.Model.Sing.singPairs, List.mem_append, List.mem_map, List.mem_filter, List.mem_range] at hpr
  rcases hpr with (⟨e, ⟨_, he⟩, rfl⟩ | ⟨c, ⟨_, hc⟩, rfl⟩) | ⟨c, ⟨_, hc⟩, rfl⟩ <;> simp_all

/-- Non-vacuity: P1-like space on two elements sharing two vertices, restricted to one element. -/
example : galerkin (R := ℤ) ⟨3, fun e i => if e = 0 then i else i + 1, fun _ _ => 1⟩ (dpSpace 1) [0] [0, 1]
    (fun τ σ i j => (10 * τ + i : ℤ) + 100 * σ + 1000 * j) 2 1 = 102 := by
  decide

end BemppVerif.C04
