/-
C07 — Boundary operators between disjoint grids equal Galerkin-tested potentials.

Full for every operator of the scalar families (single layer, double layer: kernels that do not depend on the test normal);
the Maxwell magnetic / electric statements are oracle-only (PARTIAL in props/c07.py).
The generated theorems `BemppVerif.AsmMatch.two_grid_operator_is_tested_potential_r_c` state the identity between the TRACE
of the real boundary assembler on two different grids and the TRACE of the real potential assembler.
-/
import BemppVerif.Lemmas.AsmSpec

namespace BemppVerif.C07
open BemppVerif.Model.Asm BemppVerif.Lemmas

/-- **Regular local integral = tested potential.**  When no pair is skipped (two different grids:
`grids_identical = false`), for every element pair and shape functions
`localReg τ σ i j = Σ_p w_p · ie_τ · φ_i(x_p) · Pot_{σ,j}(x_{τ,p})`, where `Pot_{σ,j}` is the potential assembler applied to
the unit coefficient vector of the trial shape function `(σ, j)` (element-major coefficient index `nshape·σ + j`),
evaluated at the test element's quadrature points. -/
theorem regular_eq_tested_potential {R : Type} [CommRing R] (d : RegData R) (nS : Nat) (τ σ i j : Nat) (hj : j < nS)
    (hadj : d.adjacent τ σ = false) :
    localReg d τ σ i j =
      rsum d.nq fun p => d.w p * d.ieT τ * d.phiT i p *
        potential ⟨d.nq, d.w, d.ieS, d.phiS, fun x σ' q => d.K τ x σ' q⟩ nS [σ]
          (fun a => if a = nS * σ + j then 1 else 0) p :=
  localReg_eq_tested_potential d nS τ σ i j hj hadj

/-- **No singular part and no skipped pairs between different grids**: with `adjacent ≡ false` and an empty singular pair
list the assembled matrix is the Galerkin sum of the regular local integrals over ALL element pairs. -/
theorem disjoint_grids_regular_only {R : Type} [CommRing R] (d : RegData R) (T S : SpaceData R)
    (byColor : List (List Nat)) (tr suppT suppS : List Nat)
    (hcol : byColor.flatten.Perm suppT) (htr : tr.Perm suppS) (r c : Nat) :
    entry (denseRegular d T S byColor tr ++ singularContribs (⟨fun _ => 0, fun _ => 0, fun _ _ => 0, fun _ _ => 0,
      fun _ _ _ _ => 0⟩ : SingData R) T S []) r c = galerkin T S suppT suppS (localReg d) r c := by
  rw [entry_append, denseRegular_refines d T S byColor tr suppT suppS hcol htr]
  simp [singularContribs, entry]

/-- point-cloud / coefficient indexing used by both assemblers: point `q` of element `e` is column `npts·e + q`, shape
function `j` of element `σ` is coefficient `nshape·σ + j`; both maps are injective on their ranges -/
theorem element_major_index_injective (n e q e' q' : Nat) (hq : q < n) (hq' : q' < n)
    (h : n * e + q = n * e' + q') : e = e' ∧ q = q' := by
  have hn : 0 < n := by omega
  have key : ∀ a b : Nat, b < n → (n * a + b) / n = a := by
    intro a b hb
    rw [Nat.mul_add_div hn, Nat.div_eq_of_lt hb, Nat.add_zero]
  have he : e = e' := by rw [← key e q hq, ← key e' q' hq', h]
  subst he
  exact ⟨rfl, by omega⟩

/-- Non-vacuity of `regular_eq_tested_potential`. -/
example : (⟨2, fun _ => (1 : ℤ), fun _ => 1, fun _ => 1, fun _ _ => 1, fun _ _ => 1, fun _ _ _ _ => 1,
    fun _ _ => false⟩ : RegData ℤ).adjacent 0 1 = false ∧ (0 : Nat) < 1 := by decide

end BemppVerif.C07
