/-
C15 — Linear solvers return solutions of the stated system in the right spaces.

Property theorems about the wrapper model `BemppVerif/Model/Solve.lean`; SciPy's routines and the inverse mass
matrices are external parameters, what is assumed about them is a hypothesis of each theorem.  All theorems
hold over every scalar type with `0, +, *` (in particular over every field, real or complex); helper lemmas
live in `BemppVerif/Lemmas/Solve.lean`.
-/
import BemppVerif.Model.Solve
import BemppVerif.Lemmas.Solve
import Mathlib.Algebra.Field.Defs

namespace BemppVerif.C15
open BemppVerif.Model.Solve BemppVerif.Lemmas.Solve

variable {R F T σ ρ : Type} [Zero R] [Add R] [Mul R]

/-! ### Packing and unpacking -/

/-- Concatenating any list of vectors and slicing the result by their lengths gives the vectors back, and the
length of the concatenation is the sum of the lengths (all block structures, all sizes).  For the code:
`grid_function_list_from_coefficients` undoes `coefficients_from_grid_functions_list`. -/
theorem pack_unpack_roundtrip {α : Type} (fs : List (List α)) :
    splitBy (fs.map List.length) (pack fs) = fs ∧ (pack fs).length = (fs.map List.length).sum :=
  ⟨splitBy_pack fs, length_pack fs⟩

/-- Conversely, slicing a vector whose length is the sum of the counts and concatenating the slices gives the
vector back, and the slices have the requested lengths. -/
theorem unpack_pack_roundtrip {α : Type} (ns : List Nat) (v : List α) (h : v.length = ns.sum) :
    pack (splitBy ns v) = v ∧ (splitBy ns v).map List.length = ns :=
  ⟨pack_splitBy ns v (by omega), splitBy_lengths ns v (by omega)⟩

omit [Zero R] [Add R] [Mul R] in
/-- `grid_function_list_from_coefficients(coefficients_from_grid_functions_list(fs), spaces of fs)` is the list
`fs` (as functions given by coefficients), whenever every coefficient vector has its space's dof count. -/
theorem pack_unpack_coefficients (cx : MassCtx R) (fs : List (GF R))
    (hwf : ∀ f ∈ fs, (f.coefficients cx).length = f.space.ndof) :
    gridFunctionListFromCoefficients (coefficientsFromList cx fs) (fs.map GF.space)
        = fs.map (fun f => GF.ofCoefficients f.space f.space (f.coefficients cx))
      ∧ (coefficientsFromList cx fs).length = ((fs.map GF.space).map Space.ndof).sum := by
  have hcounts : (fs.map GF.space).map Space.ndof = (fs.map (GF.coefficients cx)).map List.length := by
    simp only [List.map_map]
    apply List.map_congr_left
    intro f hf
    exact (hwf f hf).symm
  constructor
  · unfold gridFunctionListFromCoefficients coefficientsFromList
    rw [hcounts, splitBy_pack, zipWith_map_same]
  · unfold coefficientsFromList
    rw [length_pack, hcounts]

omit [Zero R] [Add R] [Mul R] in
/-- `grid_function_list_from_projections` slices a packed projection vector by the dof counts of the *dual*
spaces: if block `i` of the vector has `duals[i].ndof` entries, function `i` of the result is
`GridFunction(spaces[i], projections = block i, dual_space = duals[i])` — whatever the dof counts of `spaces`. -/
theorem pack_unpack_projections (ps : List (Vec R)) (spaces duals : List Space)
    (hs : spaces.length = duals.length) (hp : ps.map List.length = duals.map Space.ndof) :
    gridFunctionListFromProjections (pack ps) spaces duals
      = .ok (List.zipWith (fun (sd : Space × Space) p => GF.ofProjections sd.1 sd.2 p) (spaces.zip duals) ps) := by
  unfold gridFunctionListFromProjections
  rw [if_neg (by simp [hs]), ← hp, splitBy_pack]

/-- Non-vacuity / the repaired defect: with range dof counts `[1, 1]` and dual dof counts `[2, 1]`, slicing by the
dual counts round-trips and slicing by the range counts does not. -/
example : pack (splitBy [2, 1] [10, 20, 30]) = [10, 20, 30] ∧ pack (splitBy [1, 1] [10, 20, 30]) ≠ [10, 20, 30] := by
  decide

/-! ### LU -/

/-- `lu(A, A*f)` for a single operator: if the weak form `W` is injective on vectors of the domain's dof count
and `scipy.linalg.solve(W, v)` returns an exact solution of the right length for every solvable `v`, the
returned grid function lives in the domain space of `A` and has exactly the coefficient vector of `f`. -/
theorem lu_roundtrip (ext : DirectExt R F) (cx : MassCtx R) (A : Op R) (f : GF R)
    (hdom : f.space = A.domain)
    (hlen : (f.coefficients cx).length = A.domain.ndof)
    (hinj : ∀ x y : Vec R, x.length = A.domain.ndof → y.length = A.domain.ndof →
      matvec A.W x = matvec A.W y → x = y)
    (hsolve : ∀ x : Vec R, x.length = A.domain.ndof →
      (ext.solve A.W (matvec A.W x)).length = A.domain.ndof ∧
      matvec A.W (ext.solve A.W (matvec A.W x)) = matvec A.W x) :
    (A.mulGF cx f).map (fun b => luSingle ext cx A b none)
      = .ok (GF.ofCoefficients A.domain A.domain (f.coefficients cx)) := by
  have hs := hsolve _ hlen
  have hx := hinj _ _ hs.1 hlen hs.2
  simp only [Op.mulGF, hdom, ne_eq, not_true_eq_false, if_false, Except.map, luSingle, luCallSingle,
    GF.projections, if_true, DirectExt.run, hx]

/-- `lu(A, A*fs)` for a blocked operator with arbitrary block sizes; in particular the range and dual spaces of
a block row may have different dof counts.  `W` is the dense weak form (`Σ dual dofs` rows); function `j` of `fs`
lives in `domains[j]` (otherwise `A*fs` is rejected). -/
theorem lu_roundtrip_blocked (ext : DirectExt R F) (cx : MassCtx R) (A : BlockOp R) (fs : List (GF R))
    (hdom : fs.map GF.space = A.domains)
    (hr : A.ranges.length = A.duals.length)
    (hlen : fs.map (fun f => (f.coefficients cx).length) = A.domains.map Space.ndof)
    (hrows : A.W.length = (A.duals.map Space.ndof).sum)
    (hinj : ∀ x y : Vec R, x.length = (A.domains.map Space.ndof).sum → y.length = (A.domains.map Space.ndof).sum →
      matvec A.W x = matvec A.W y → x = y)
    (hsolve : ∀ x : Vec R, x.length = (A.domains.map Space.ndof).sum →
      (ext.solve A.W (matvec A.W x)).length = (A.domains.map Space.ndof).sum ∧
      matvec A.W (ext.solve A.W (matvec A.W x)) = matvec A.W x) :
    (A.mulGFs cx fs).map (fun b => luBlocked ext cx A b none)
      = .ok (List.zipWith (fun s f => GF.ofCoefficients s s (f.coefficients cx)) A.domains fs) := by
  have hn : fs.length = A.domains.length := by rw [← hdom, List.length_map]
  have hc : (coefficientsFromList cx fs).length = (A.domains.map Space.ndof).sum := by
    unfold coefficientsFromList
    rw [length_pack, List.map_map, ← hlen]
    rfl
  have hs := hsolve _ hc
  have hx := hinj _ _ hs.1 hc hs.2
  have hsplit : (splitBy (A.duals.map Space.ndof) (matvec A.W (coefficientsFromList cx fs))).length
      = A.duals.length := by rw [length_splitBy, List.length_map]
  have hpack : pack (splitBy (A.duals.map Space.ndof) (matvec A.W (coefficientsFromList cx fs)))
      = matvec A.W (coefficientsFromList cx fs) :=
    pack_splitBy _ _ (by rw [length_matvec, hrows]; exact Nat.le_refl _)
  have hcoef : (fs.map (GF.coefficients cx)).map List.length = A.domains.map Space.ndof := by
    rw [List.map_map]; exact hlen
  simp only [BlockOp.mulGFs, hn, hdom, ne_eq, not_true_eq_false, if_false, gridFunctionListFromProjections, hr,
    Except.map, luBlocked, luCallBlocked, projectionsFromList, DirectExt.run]
  rw [projections_of_ofProjections cx _ _ _ hr hsplit, hpack, hx]
  simp only [gridFunctionListFromCoefficients, coefficientsFromList]
  rw [← hcoef, splitBy_pack, zipWith_map_right']

/-! ### Precomputed LU factors -/

/-- `lu(A, b, lu_factor=compute_lu_factors(A))` equals `lu(A, b)` when both SciPy paths solve the system
exactly and `W` is injective (single operator). -/
theorem precomputed_lu_same (ext : DirectExt R F) (cx : MassCtx R) (A : Op R) (b : GF R) (n : Nat)
    (hinj : ∀ x y : Vec R, x.length = n → y.length = n → matvec A.W x = matvec A.W y → x = y)
    (hsolve : (ext.solve A.W (b.projections cx A.dual)).length = n ∧
      matvec A.W (ext.solve A.W (b.projections cx A.dual)) = b.projections cx A.dual)
    (hlu : (ext.luSolve (ext.luFactor A.W) (b.projections cx A.dual)).length = n ∧
      matvec A.W (ext.luSolve (ext.luFactor A.W) (b.projections cx A.dual)) = b.projections cx A.dual) :
    luSingle ext cx A b (some (computeLuFactorsSingle ext A)) = luSingle ext cx A b none := by
  simp only [luSingle, luCallSingle, DirectExt.run, computeLuFactorsSingle]
  rw [hinj _ _ hlu.1 hsolve.1 (hlu.2.trans hsolve.2.symm)]

/-- the same for a blocked operator -/
theorem precomputed_lu_same_blocked (ext : DirectExt R F) (cx : MassCtx R) (A : BlockOp R) (bs : List (GF R))
    (n : Nat)
    (hinj : ∀ x y : Vec R, x.length = n → y.length = n → matvec A.W x = matvec A.W y → x = y)
    (hsolve : (ext.solve A.W (projectionsFromList cx bs A.duals)).length = n ∧
      matvec A.W (ext.solve A.W (projectionsFromList cx bs A.duals)) = projectionsFromList cx bs A.duals)
    (hlu : (ext.luSolve (ext.luFactor A.W) (projectionsFromList cx bs A.duals)).length = n ∧
      matvec A.W (ext.luSolve (ext.luFactor A.W) (projectionsFromList cx bs A.duals))
        = projectionsFromList cx bs A.duals) :
    luBlocked ext cx A bs (some (computeLuFactorsBlocked ext A)) = luBlocked ext cx A bs none := by
  simp only [luBlocked, luCallBlocked, DirectExt.run, computeLuFactorsBlocked]
  rw [hinj _ _ hlu.1 hsolve.1 (hlu.2.trans hsolve.2.symm)]

/-- A supplied factorisation is what is used: with `lu_factor` given, the result does not depend on the weak form
of `A` at all (it is `lu_solve(lu_factor, projections of b)` wrapped in the domain space). -/
theorem lu_uses_supplied_factor (ext : DirectExt R F) (cx : MassCtx R) (A : Op R) (b : GF R) (fac : F) :
    luSingle ext cx A b (some fac)
      = GF.ofCoefficients A.domain A.domain (ext.luSolve fac (b.projections cx A.dual)) := rfl

/-! ### Iterative solvers: which system is solved, and where the result lives -/

/-- relative residual bound `‖b − A x‖ ≤ tol ‖b‖` for an arbitrary norm -/
def ResidualBound {ρ' : Type} [LE ρ'] [Mul ρ'] [Sub R] (nrm : Vec R → ρ') (Aop : LinOp R) (b x : Vec R)
    (tol : ρ') : Prop :=
  nrm (vsub b (Aop x)) ≤ tol * nrm b

/-- GMRES on a single operator.  The system handed to SciPy is `W x = (projections of b onto the dual space)`
in weak form and `M⁻¹ W x = (coefficients of b)` with `use_strong_form=True` (`M⁻¹` = inverse mass matrix of
range/dual).  Whatever vector `x` SciPy returns is wrapped unchanged as a grid function of the *domain* space; so
if `x` meets the relative residual bound for the operator and right-hand side it was given, the returned function's
coefficient vector meets that bound for the stated system.  `tol`, `restart`, `maxiter` reach SciPy unchanged. -/
theorem weak_strong_systems [Sub R] (ext : IterExt R T σ) (nc : NormCtx R σ ρ) (cx : MassCtx R) (A : Op R)
    (b : GF R) (tol : T) (restart maxiter : Option Nat) (strong rr rc : Bool)
    (hcompat : strong = true → A.range = b.space) :
    let A' : LinOp R := if strong then (fun x => cx.massInv A.range A.dual (matvec A.W x)) else matvec A.W
    let b' : Vec R := if strong then b.coefficients cx else b.projections cx A.dual
    let r := ext.gmres ⟨A', b', tol, restart, maxiter⟩
    ∃ out, gmresSingle ext nc cx A b tol restart maxiter strong rr rc = .ok out ∧
      out.result = GF.ofCoefficients A.domain A.domain r.x ∧ out.result.space = A.domain ∧ out.info = r.info ∧
      ∀ {ρ' : Type} [LE ρ'] [Mul ρ'] (nrm : Vec R → ρ') (t : ρ'),
        ResidualBound nrm A' b' r.x t → ResidualBound nrm A' b' (out.result.coefficients cx) t := by
  intro A' b' r
  refine ⟨IterOut.mk' (.ofCoefficients A.domain A.domain r.x) r.info (Counter.run rr nc.nrmScalar r.calls) rr rc,
    ?_, rfl, rfl, rfl, fun _ _ h => h⟩
  have hn : ¬ (strong = true ∧ A.range ≠ b.space) := fun h => h.2 (hcompat h.1)
  unfold gmresSingle
  rw [if_neg hn]
  cases strong <;> rfl

/-- the same for CG (single operators only; CG has no `restart`) -/
theorem weak_strong_systems_cg [Sub R] (ext : IterExt R T σ) (nc : NormCtx R σ ρ) (cx : MassCtx R) (A : Op R)
    (b : GF R) (tol : T) (maxiter : Option Nat) (strong rr rc : Bool)
    (hcompat : strong = true → A.range = b.space) :
    let A' : LinOp R := if strong then (fun x => cx.massInv A.range A.dual (matvec A.W x)) else matvec A.W
    let b' : Vec R := if strong then b.coefficients cx else b.projections cx A.dual
    let r := ext.cg ⟨A', b', tol, none, maxiter⟩
    ∃ out, cgSingle ext nc cx A b tol maxiter strong rr rc = .ok out ∧
      out.result = GF.ofCoefficients A.domain A.domain r.x ∧ out.result.space = A.domain ∧ out.info = r.info ∧
      ∀ {ρ' : Type} [LE ρ'] [Mul ρ'] (nrm : Vec R → ρ') (t : ρ'),
        ResidualBound nrm A' b' r.x t → ResidualBound nrm A' b' (out.result.coefficients cx) t := by
  intro A' b' r
  refine ⟨IterOut.mk' (.ofCoefficients A.domain A.domain r.x) r.info
    (Counter.run rr (fun x => nc.nrm (vsub b' (A' x))) r.calls) rr rc, ?_, rfl, rfl, rfl, fun _ _ h => h⟩
  have hn : ¬ (strong = true ∧ A.range ≠ b.space) := fun h => h.2 (hcompat h.1)
  unfold cgSingle
  rw [if_neg hn]
  cases strong <;> rfl

/-- GMRES on a blocked operator: the system is `W x = pack(projections of b_i onto dual_i)` in weak form and
`diag(M_i⁻¹) W x = pack(coefficients of b_i)` in strong form; the solution vector is split by the dof counts of the
*domain* spaces and function `j` of the result lives in `domains[j]`; packing the result's coefficients gives back
SciPy's vector (so it satisfies whatever residual bound that vector satisfies). -/
theorem weak_strong_systems_blocked [Sub R] (ext : IterExt R T σ) (nc : NormCtx R σ ρ) (cx : MassCtx R)
    (A : BlockOp R) (bs : List (GF R)) (tol : T) (restart maxiter : Option Nat) (strong rr rc : Bool) :
    let A' : LinOp R :=
      if strong then (fun x => pack (List.zipWith (fun (sd : Space × Space) y => cx.massInv sd.1 sd.2 y)
        (A.ranges.zip A.duals) (splitBy (A.duals.map Space.ndof) (matvec A.W x))))
      else matvec A.W
    let b' : Vec R :=
      if strong then pack (bs.map (GF.coefficients cx))
      else pack (List.zipWith (GF.projections cx) bs A.duals)
    let r := ext.gmres ⟨A', b', tol, restart, maxiter⟩
    let out := gmresBlocked ext nc cx A bs tol restart maxiter strong rr rc
    out.info = r.info ∧
    out.result = List.zipWith (fun s c => GF.ofCoefficients s s c) A.domains
      (splitBy (A.domains.map Space.ndof) r.x) ∧
    (r.x.length = (A.domains.map Space.ndof).sum →
      out.result.map GF.space = A.domains ∧ coefficientsFromList cx out.result = r.x ∧
      ∀ {ρ' : Type} [LE ρ'] [Mul ρ'] (nrm : Vec R → ρ') (t : ρ'),
        ResidualBound nrm A' b' r.x t → ResidualBound nrm A' b' (coefficientsFromList cx out.result) t) := by
  intro A' b' r out
  have hinfo : out.info = r.info := by cases strong <;> rfl
  have hout : out.result = List.zipWith (fun s c => GF.ofCoefficients s s c) A.domains
      (splitBy (A.domains.map Space.ndof) r.x) := by cases strong <;> rfl
  refine ⟨hinfo, hout, fun hx => ?_⟩
  have hl : (splitBy (A.domains.map Space.ndof) r.x).length = A.domains.length := by
    rw [length_splitBy, List.length_map]
  have h1 : out.result.map GF.space = A.domains := by
    rw [hout, List.map_zipWith]
    exact zipWith_fst_eq _ _ hl
  have h2 : coefficientsFromList cx out.result = r.x := by
    rw [hout]
    unfold coefficientsFromList
    rw [List.map_zipWith]
    show pack (List.zipWith (fun _ c => c) _ _) = _
    rw [zipWith_snd_eq _ _ hl]
    exact pack_splitBy _ _ (by omega)
  exact ⟨h1, h2, fun _ _ h => by rw [h2]; exact h⟩

/-- An exact solution of the strong-form system solves the weak-form system: if `M (M⁻¹ v) = v` for the mass
matrix of range/dual and `b` is given by coefficients in the range space, then `M⁻¹ W x = c_b` implies
`W x = M c_b` (= the projections of `b` onto the dual space). -/
theorem strong_solution_solves_weak (cx : MassCtx R) (A : Op R) (d : Space) (c x : Vec R)
    (hM : ∀ v, matvec (cx.mass A.range A.dual) (cx.massInv A.range A.dual v) = v)
    (hx : A.strongOp cx x = (GF.ofCoefficients A.range d c).coefficients cx) :
    A.weakOp x = (GF.ofCoefficients A.range d c).projections cx A.dual := by
  simp only [Op.strongOp, GF.coefficients] at hx
  simp only [Op.weakOp, GF.projections, ← hx, hM]

/-! ### Iteration counter -/

/-- `IterationCounter`: after the SciPy routine has invoked the callback on the arguments `calls` (in this
order), `count` is the number of invocations and, when residuals are stored, the residual list is the sequence of
the residual norms of those invocations (nothing otherwise). -/
theorem iteration_counter {ι : Type} (store : Bool) (resNorm : ι → ρ) (calls : List ι) :
    (Counter.run store resNorm calls).count = calls.length ∧
    (Counter.run store resNorm calls).residuals = if store then calls.map resNorm else [] := by
  rw [counter_run]
  exact ⟨rfl, rfl⟩

/-- what `gmres(..., return_residuals=rr, return_iteration_count=rc)` returns besides the solution: the count is
the number of callback invocations of the run that produced the solution, the residuals are the (norms of the)
values SciPy passed to the callback, in order; each is present exactly when requested. -/
theorem iteration_counter_gmres [Sub R] (ext : IterExt R T σ) (nc : NormCtx R σ ρ) (cx : MassCtx R) (A : Op R)
    (b : GF R) (tol : T) (restart maxiter : Option Nat) (strong rr rc : Bool) (out : IterOut (GF R) ρ)
    (h : gmresSingle ext nc cx A b tol restart maxiter strong rr rc = .ok out) :
    let r := ext.gmres (krylovArgsSingle cx A b tol restart maxiter strong)
    out.count = (if rc then some r.calls.length else none) ∧
    out.residuals = (if rr then some (r.calls.map nc.nrmScalar) else none) := by
  unfold gmresSingle at h
  split at h
  · cases h
  · injection h with h
    subst h
    simp only [IterOut.mk', counter_run]
    cases rr <;> cases rc <;> simp

/-- the same for blocked GMRES -/
theorem iteration_counter_gmres_blocked [Sub R] (ext : IterExt R T σ) (nc : NormCtx R σ ρ) (cx : MassCtx R)
    (A : BlockOp R) (bs : List (GF R)) (tol : T) (restart maxiter : Option Nat) (strong rr rc : Bool) :
    let r := ext.gmres (krylovArgsBlocked cx A bs tol restart maxiter strong)
    let out := gmresBlocked ext nc cx A bs tol restart maxiter strong rr rc
    out.count = (if rc then some r.calls.length else none) ∧
    out.residuals = (if rr then some (r.calls.map nc.nrmScalar) else none) := by
  simp only [gmresBlocked, IterOut.mk', counter_run]
  cases rr <;> cases rc <;> simp

/-- for CG the stored residuals are the true residual norms `‖b' − A' x_k‖` of the iterates passed to the
callback, for the operator and right-hand side that were handed to SciPy -/
theorem iteration_counter_cg [Sub R] (ext : IterExt R T σ) (nc : NormCtx R σ ρ) (cx : MassCtx R) (A : Op R)
    (b : GF R) (tol : T) (maxiter : Option Nat) (strong rr rc : Bool) (out : IterOut (GF R) ρ)
    (h : cgSingle ext nc cx A b tol maxiter strong rr rc = .ok out) :
    let args : KrylovArgs R T := krylovArgsSingle cx A b tol none maxiter strong
    let r := ext.cg args
    out.count = (if rc then some r.calls.length else none) ∧
    out.residuals = (if rr then some (r.calls.map fun x => nc.nrm (vsub args.rhs (args.op x))) else none) := by
  unfold cgSingle at h
  split at h
  · cases h
  · injection h with h
    subst h
    simp only [IterOut.mk', counter_run]
    cases rr <;> cases rc <;> simp

/-! ### Non-vacuity -/

section Examples

/-- exact 2×2 solver over `Int` for `W = [[2,1],[1,3]]` (determinant 5) -/
def exSolve : DirectExt Int Unit where
  solve := fun _ v => [(3 * v.getD 0 0 - v.getD 1 0) / 5, (2 * v.getD 1 0 - v.getD 0 0) / 5]
  luFactor := fun _ => ()
  luSolve := fun _ v => [(3 * v.getD 0 0 - v.getD 1 0) / 5, (2 * v.getD 1 0 - v.getD 0 0) / 5]

def exCx : MassCtx Int := ⟨fun _ _ => [], fun _ _ v => v⟩
def exOp : Op Int := ⟨⟨0, 2⟩, ⟨1, 3⟩, ⟨2, 2⟩, [[2, 1], [1, 3]]⟩

theorem exOp_inj : ∀ x y : Vec Int, x.length = 2 → y.length = 2 →
    matvec exOp.W x = matvec exOp.W y → x = y := by
  intro x y hx hy h
  match x, hx with
  | [a, b], _ =>
    match y, hy with
    | [c, d], _ =>
      simp [matvec, dot, exOp] at h
      obtain ⟨h1, h2⟩ := h
      have : a = c := by omega
      have : b = d := by omega
      simp [*]

theorem exOp_solve : ∀ x : Vec Int, x.length = 2 →
    (exSolve.solve exOp.W (matvec exOp.W x)).length = 2 ∧
      matvec exOp.W (exSolve.solve exOp.W (matvec exOp.W x)) = matvec exOp.W x := by
  intro x hx
  match x, hx with
  | [a, b], _ =>
    refine ⟨rfl, ?_⟩
    simp [matvec, dot, exOp, exSolve]
    constructor <;> omega

/-- the hypotheses of `lu_roundtrip` are satisfiable (range dof count 3 ≠ dual dof count 2), and its conclusion
is the concrete round trip -/
example : (exOp.mulGF exCx (.ofCoefficients ⟨0, 2⟩ ⟨0, 2⟩ [7, -4])).map (fun b => luSingle exSolve exCx exOp b none)
    = .ok (GF.ofCoefficients ⟨0, 2⟩ ⟨0, 2⟩ [7, -4]) :=
  lu_roundtrip exSolve exCx exOp (.ofCoefficients ⟨0, 2⟩ ⟨0, 2⟩ [7, -4]) rfl rfl exOp_inj exOp_solve

/-- blocked 2×2 example with block sizes 1 and 2, range dof counts `[5, 1]` different from the dual dof counts
`[1, 2]`:  `W = [[2,0,1],[1,3,0],[0,0,1]]` -/
def exBlock : BlockOp Int :=
  ⟨[⟨0, 1⟩, ⟨1, 2⟩], [⟨2, 5⟩, ⟨3, 1⟩], [⟨0, 1⟩, ⟨1, 2⟩],
   [[[[2]], [[0, 1]]], [[[1], [0]], [[3, 0], [0, 1]]]]⟩

def exSolve3 : DirectExt Int Unit where
  solve := fun _ v =>
    let c := v.getD 2 0
    let a := (v.getD 0 0 - c) / 2
    [a, (v.getD 1 0 - a) / 3, c]
  luFactor := fun _ => ()
  luSolve := fun _ v => v

example : exBlock.W = [[2, 0, 1], [1, 3, 0], [0, 0, 1]] := by decide

example : (exBlock.mulGFs exCx [.ofCoefficients ⟨0, 1⟩ ⟨0, 1⟩ [4], .ofCoefficients ⟨1, 2⟩ ⟨1, 2⟩ [-1, 6]]).map
      (fun b => luBlocked exSolve3 exCx exBlock b none)
    = .ok [GF.ofCoefficients ⟨0, 1⟩ ⟨0, 1⟩ [4], GF.ofCoefficients ⟨1, 2⟩ ⟨1, 2⟩ [-1, 6]] := by
  refine lu_roundtrip_blocked exSolve3 exCx exBlock _ rfl rfl rfl rfl ?_ ?_
  · intro x y hx hy h
    match x, hx with
    | [a, b, c], _ =>
      match y, hy with
      | [a', b', c'], _ =>
        simp [matvec, dot, exBlock, BlockOp.W, toDense, hstack] at h
        obtain ⟨h1, h2, h3⟩ := h
        have : a = a' := by omega
        have : b = b' := by omega
        simp [*]
  · intro x hx
    match x, hx with
    | [a, b, c], _ =>
      refine ⟨rfl, ?_⟩
      simp [matvec, dot, exBlock, BlockOp.W, toDense, hstack, exSolve3]
      omega

/-- `weak_strong_systems` and the counter on a concrete run: a routine that calls the callback three times -/
example :
    let ext : IterExt Int Nat Int := ⟨fun a => ⟨a.rhs, 0, [5, 3, 1]⟩, fun a => ⟨a.rhs, 0, []⟩⟩
    let nc : NormCtx Int Int Nat := ⟨fun v => v.length, Int.natAbs⟩
    (gmresSingle ext nc exCx exOp (.ofCoefficients ⟨1, 3⟩ ⟨1, 3⟩ [1, 2, 3]) 7 none (some 4) true true true).map
        (fun o => (o.result.space, o.info, o.residuals, o.count))
      = .ok (⟨0, 2⟩, 0, some [5, 3, 1], some 3) := by
  intro ext nc
  rfl

/-- the theorems apply verbatim over any field -/
example {K : Type} [Field K] (ext : DirectExt K F) (cx : MassCtx K) (A : Op K) (b : GF K) (fac : F) :
    luSingle ext cx A b (some fac)
      = GF.ofCoefficients A.domain A.domain (ext.luSolve fac (b.projections cx A.dual)) :=
  lu_uses_supplied_factor ext cx A b fac

end Examples

end BemppVerif.C15
