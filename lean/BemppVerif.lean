import BemppVerif.Model.Quad
import BemppVerif.Model.Topo
import BemppVerif.Model.Geom
import BemppVerif.Model.IOMap
import BemppVerif.Model.Color
import BemppVerif.Model.Sched
import BemppVerif.Model.Hist
import BemppVerif.Model.Solve
