import BemppVerif.Model.Quad
