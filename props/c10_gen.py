"""Tie A for C10: barycentric / dual-space tables -> lean/BemppVerif/Gen/BaryTables.lean.

Extracted with `ast` from the source text (no import of the repository), as exact integers / rationals
(`1 / 3`, `1.0 / 6`, `0.5` are taken with their real-arithmetic meaning):

  grid.py            `_EDGE_LOCAL`; the 18 assignments `new_elements[k, 6 * index + s] = ...` of
                     `_create_barycentric_connectivity_array` (vertex codes (kind, index): 0 = parent vertex,
                     1 = midpoint vertex of local edge, 2 = barycentre); the weights of the new vertices
  scalar_spaces.py   the three 6x3 tables `coeffs` of `p1_barycentric_continuous_function_space`; the index
                     pattern of `generate_p1_map` (coarse dof 3*index+i, bary dofs 18*index + ravel position)
  maxwell_spaces.py  `local_coords` and the three 6x3 tables of `rwg0_/snc0_barycentric_function_space`;
                     from `generate_rwg0_map` the nine length definitions (pairs of `local_coords` columns),
                     `outer_edges`, the 6x3 `dof_mult` table, the formula `bary_coeffs * outer_edges[i] / dof_mult`
                     and the index pattern; the edge convention and the scaling formula of
                     `_numba_rwg0_evaluate` / `_numba_snc0_evaluate`
  scalar_dual_spaces.py  DUAL0: the two sub-triangle index formulas (evaluated for vertex = 0, 1, 2) and the
                     stride; DUAL1: the barycentre / edge-midpoint / vertex dof lists, their values, the stride 18
                     and the tests that select the list (`element_edges[i][neighbour] == edge`,
                     `elements[i][neighbour] == vertex`)
"""
import ast
import os
from fractions import Fraction

from vlib import tables as T
from vlib.common import LEAN, GenError

GRID = "bempp_cl/api/grid/grid.py"
SCALAR = "bempp_cl/api/space/scalar_spaces.py"
MAXWELL = "bempp_cl/api/space/maxwell_spaces.py"
DUAL = "bempp_cl/api/space/scalar_dual_spaces.py"


# ------------------------------------------------------------------------------------------------ helpers

def _is_name(n, name):
    return isinstance(n, ast.Name) and n.id == name


def _chain(n):
    if isinstance(n, ast.Name):
        return n.id
    if isinstance(n, ast.Attribute):
        b = _chain(n.value)
        return None if b is None else b + "." + n.attr
    return None


def _int(n):
    if isinstance(n, ast.Constant) and isinstance(n.value, int) and not isinstance(n.value, bool):
        return n.value
    return None


def _sub(n):
    """(base chain, [index nodes]) of a Subscript, else None."""
    if not isinstance(n, ast.Subscript):
        return None
    sl = n.slice
    return _chain(n.value), (list(sl.elts) if isinstance(sl, ast.Tuple) else [sl])


def _u(n):
    return ast.unparse(n).replace(" ", "")


def rat(node):
    """Exact rational value of a literal arithmetic expression."""
    if isinstance(node, ast.Constant) and isinstance(node.value, (int, float)) and not isinstance(node.value, bool):
        return Fraction(node.value)
    if isinstance(node, ast.UnaryOp) and isinstance(node.op, ast.USub):
        return -rat(node.operand)
    if isinstance(node, ast.UnaryOp) and isinstance(node.op, ast.UAdd):
        return rat(node.operand)
    if isinstance(node, ast.BinOp):
        a, b = rat(node.left), rat(node.right)
        if isinstance(node.op, ast.Add):
            return a + b
        if isinstance(node.op, ast.Sub):
            return a - b
        if isinstance(node.op, ast.Mult):
            return a * b
        if isinstance(node.op, ast.Div):
            if b == 0:
                raise GenError("division by zero in a table literal")
            return a / b
    raise GenError(f"not a rational literal: {ast.unparse(node)[:80]}")


def rat_table(node, what):
    """Nested list / tuple / `_np.array(...)` / `.T` literal -> nested python lists of Fractions."""
    if isinstance(node, ast.Attribute) and node.attr == "T":
        m = rat_table(node.value, what)
        if not m or not all(isinstance(r, list) and len(r) == len(m[0]) for r in m):
            raise GenError(f"{what}: cannot transpose")
        return ("T", m)
    if isinstance(node, ast.Call):
        if _chain(node.func) not in ("_np.array", "np.array", "numpy.array") or not node.args:
            raise GenError(f"{what}: unexpected call `{ast.unparse(node)[:60]}`")
        return rat_table(node.args[0], what)
    if isinstance(node, (ast.List, ast.Tuple)):
        return [rat_table(e, what) for e in node.elts]
    return rat(node)


def _shape_check(t, dims, what):
    def go(x, d):
        if not d:
            if not isinstance(x, Fraction):
                raise GenError(f"{what}: ragged table")
            return
        if not isinstance(x, list) or len(x) != d[0]:
            raise GenError(f"{what}: expected shape {dims}")
        for y in x:
            go(y, d[1:])
    go(t, list(dims))


def int_eval(node, env):
    """Integer value of an arithmetic expression over named integer variables."""
    if _int(node) is not None:
        return _int(node)
    if isinstance(node, ast.Name) and node.id in env:
        return env[node.id]
    if isinstance(node, ast.UnaryOp) and isinstance(node.op, ast.USub):
        return -int_eval(node.operand, env)
    if isinstance(node, ast.BinOp):
        a, b = int_eval(node.left, env), int_eval(node.right, env)
        if isinstance(node.op, ast.Add):
            return a + b
        if isinstance(node.op, ast.Sub):
            return a - b
        if isinstance(node.op, ast.Mult):
            return a * b
        if isinstance(node.op, ast.Mod) and b != 0:
            return a % b
        if isinstance(node.op, ast.FloorDiv) and b != 0:
            return a // b
    raise GenError(f"not an integer index expression: {ast.unparse(node)[:80]}")


def _func(tree, name):
    try:
        return T.find_function(tree, name)
    except T.ExtractError as e:
        raise GenError(str(e))


def _assign_in(fn, name):
    """Value of the unique assignment `name = ...` anywhere inside fn."""
    found = [st.value for st in ast.walk(fn) if isinstance(st, ast.Assign) and len(st.targets) == 1
             and _is_name(st.targets[0], name)]
    if len(found) != 1:
        raise GenError(f"{fn.name}: expected exactly one assignment to `{name}`, found {len(found)}")
    return found[0]


# ------------------------------------------------------------------------------------------------ grid.py

def extract_grid(tree):
    try:
        el = T.module_literal(tree, "_EDGE_LOCAL")
    except T.ExtractError as e:
        raise GenError(str(e))
    if not (isinstance(el, list) and len(el) == 3 and all(isinstance(r, list) and len(r) == 2 and
                                                            all(isinstance(x, int) for x in r) for r in el)):
        raise GenError(f"_EDGE_LOCAL has unexpected shape: {el!r}")
    fn = _func(tree, "_create_barycentric_connectivity_array")
    loop = next((n for n in fn.body if isinstance(n, ast.For)), None)
    if loop is None or not _is_name(loop.target, "index"):
        raise GenError("_create_barycentric_connectivity_array: element loop `for index in ...` not found")
    table = {}
    centroid_weight = midpoint_weight = None
    for st in ast.walk(loop):
        if not (isinstance(st, ast.Assign) and len(st.targets) == 1):
            continue
        sp = _sub(st.targets[0])
        if not sp:
            continue
        if sp[0] == "new_vertices":
            # new_vertices[:, number_of_vertices] = w * _np.sum(vertices[:, <cols>], axis=1)
            v = st.value
            if isinstance(v, ast.BinOp) and isinstance(v.op, ast.Mult) and isinstance(v.right, ast.Call) \
                    and _chain(v.right.func) in ("_np.sum", "np.sum"):
                arg = _u(v.right.args[0]) if v.right.args else ""
                w = rat(v.left)
                if arg == "vertices[:,elements[:,index]]":
                    centroid_weight = w
                elif arg == "vertices[:,edges[:,edge_index]]":
                    midpoint_weight = w
                else:
                    raise GenError(f"barycentric: cannot interpret `{ast.unparse(st)}`")
            else:
                raise GenError(f"barycentric: cannot interpret `{ast.unparse(st)}`")
            continue
        if sp[0] != "new_elements":
            continue
        if len(sp[1]) != 2 or _int(sp[1][0]) is None:
            raise GenError(f"barycentric: cannot interpret `{ast.unparse(st)}`")
        row = _int(sp[1][0])
        s0 = int_eval(sp[1][1], {"index": 0})
        s1 = int_eval(sp[1][1], {"index": 1})
        if s1 - s0 != 6 or not 0 <= s0 < 6:
            raise GenError(f"barycentric: column `{ast.unparse(sp[1][1])}` is not 6 * index + s")
        val, code = st.value, None
        if _is_name(val, "midpoint_index"):
            code = (2, 0)
        else:
            vp = _sub(val)
            if vp and vp[0] == "elements" and len(vp[1]) == 2 and _int(vp[1][0]) is not None \
                    and _is_name(vp[1][1], "index"):
                code = (0, _int(vp[1][0]))
            elif vp and vp[0] == "local_vertex_ids" and len(vp[1]) == 1 and _int(vp[1][0]) is not None:
                code = (1, _int(vp[1][0]))
        if code is None:
            raise GenError(f"barycentric: cannot interpret `{ast.unparse(st)}`")
        if (s0, row) in table:
            raise GenError(f"barycentric: new_elements[{row}, 6*index+{s0}] assigned twice")
        table[(s0, row)] = code
    if sorted(table) != [(s, r) for s in range(6) for r in range(3)]:
        raise GenError(f"barycentric: {len(table)} assignments `new_elements[k, 6*index+s]` instead of 18")
    if centroid_weight is None or midpoint_weight is None:
        raise GenError("barycentric: centroid / edge-midpoint vertex formulas not found")
    # the midpoint vertex of local edge l is the one stored in local_vertex_ids[l] for element_edges[l, index]
    src = _u(loop)
    for needle in ("edge_index=element_edges[local_index,index]", "local_vertex_ids[local_index]=number_of_vertices",
                   "local_vertex_ids[local_index]=edge_to_vertex[edge_index]"):
        if needle not in src:
            raise GenError(f"barycentric: pattern `{needle}` not found")
    return dict(edge_local=el, sub=[[table[(s, r)] for r in range(3)] for s in range(6)],
                centroid_weight=centroid_weight, midpoint_weight=midpoint_weight)


# ------------------------------------------------------------------------------------------------ scalar_spaces.py

def _coeff_tables(fn, what):
    t = rat_table(_assign_in(fn, "coeffs"), what)
    _shape_check(t, (3, 6, 3), what)
    return t


def _map_index_pattern(fn, what):
    """Index pattern shared by generate_p1_map / generate_rwg0_map."""
    src = _u(fn)
    for needle in ("forindex,elem_indexinenumerate(support_elements):", "bary_elements=_np.arange(6)+6*index",
                   "forlocal_dofinrange(3):", "coarse_dof=3*index+local_dof", "bary_coeffs=coeffs[local_dof]",
                   "coarse_dofs[count:count+18]=coarse_dof",
                   "bary_dofs[count:count+18]=_np.arange(3*bary_elements[0],3*bary_elements[0]+18)",
                   "count+=18", "return(coarse_dofs,bary_dofs,values)"):
        if needle not in src:
            raise GenError(f"{what}: pattern `{needle}` not found")


def extract_scalar(tree):
    fn = _func(tree, "p1_barycentric_continuous_function_space")
    p1 = _coeff_tables(fn, "P1 barycentric coeffs")
    src = _u(fn)
    for needle in ("generate_p1_map(coarse_space.grid.data(),coarse_space.support_elements,coeffs)",
                   "dof_transformation=transform@coarse_space.map_to_localised_space",
                   "coo_matrix((values,(bary_dofs,coarse_dofs))", '.set_shapeset("p1_discontinuous")'.replace('"', "'")):
        if needle not in src:
            raise GenError(f"p1_barycentric_continuous_function_space: pattern `{needle}` not found")
    g = _func(tree, "generate_p1_map")
    _map_index_pattern(g, "generate_p1_map")
    if "values[count:count+18]=bary_coeffs.ravel()" not in _u(g):
        raise GenError("generate_p1_map: `values[count:count+18] = bary_coeffs.ravel()` not found")
    # P0
    f0 = _func(tree, "p0_barycentric_discontinuous_function_space")
    s0 = _u(f0)
    for needle in ("coarse_dofs=_np.repeat(_np.arange(number_of_support_elements,dtype=_np.uint32),6)",
                   "bary_dofs=_np.arange(6*number_of_support_elements,dtype=_np.uint32)",
                   "values=_np.ones(6*number_of_support_elements,dtype=_np.float64)",
                   "dof_transformation=transform@coarse_space.map_to_localised_space"):
        if needle not in s0:
            raise GenError(f"p0_barycentric_discontinuous_function_space: pattern `{needle}` not found")
    return dict(p1=p1)


# ------------------------------------------------------------------------------------------------ maxwell_spaces.py

def _local_coords(fn, what):
    t = rat_table(_assign_in(fn, "local_coords"), what)
    if not (isinstance(t, tuple) and t[0] == "T"):
        raise GenError(f"{what}: expected `_np.array([...]).T`")
    _shape_check(t[1], (7, 2), what)
    return t[1]


def _eval_convention(fn):
    """edge_lengths[i] = norm(vertices[:, elements[a, e]] - vertices[:, elements[b, e]]) and the scaling formula."""
    pairs = {}
    for st in ast.walk(fn):
        if isinstance(st, ast.Assign) and len(st.targets) == 1:
            sp = _sub(st.targets[0])
            if sp and sp[0] == "edge_lengths" and len(sp[1]) == 1 and _int(sp[1][0]) is not None:
                v = st.value
                ok = isinstance(v, ast.Call) and _chain(v.func) in ("_np.linalg.norm", "np.linalg.norm") and \
                    len(v.args) == 1 and isinstance(v.args[0], ast.BinOp) and isinstance(v.args[0].op, ast.Sub)
                if not ok:
                    raise GenError(f"{fn.name}: cannot interpret `{ast.unparse(st)[:80]}`")
                ab = []
                for side in (v.args[0].left, v.args[0].right):
                    s = _sub(side)
                    inner = _sub(s[1][1]) if s and s[0] == "grid_data.vertices" and len(s[1]) == 2 else None
                    if not (inner and inner[0] == "grid_data.elements" and len(inner[1]) == 2 and
                            _int(inner[1][0]) is not None and _is_name(inner[1][1], "element_index")):
                        raise GenError(f"{fn.name}: cannot interpret `{ast.unparse(st)[:80]}`")
                    ab.append(_int(inner[1][0]))
                pairs[_int(sp[1][0])] = tuple(ab)
    if sorted(pairs) != [0, 1, 2]:
        raise GenError(f"{fn.name}: edge_lengths[0..2] not found")
    src = _u(fn)
    scal = ("=local_multipliers[element_index,index]*edge_lengths[index]/grid_data.integration_elements[element_index]"
            "*grid_data.jacobians[element_index].dot(reference_values[:,index,:])")
    if scal not in src:
        raise GenError(f"{fn.name}: scaling formula mult * edge_length / integration_element * J.dot(ref) not found")
    return [pairs[i] for i in range(3)]


def extract_maxwell(tree):
    out = {}
    for key, name, evalname, shapeset in (("rwg", "rwg0_barycentric_function_space", "_numba_rwg0_evaluate", "rwg0"),
                                          ("snc", "snc0_barycentric_function_space", "_numba_snc0_evaluate", "rwg0")):
        fn = _func(tree, name)
        out[key + "_coords"] = _local_coords(fn, name + " local_coords")
        out[key] = _coeff_tables(fn, name + " coeffs")
        src = _u(fn)
        for needle in ("generate_rwg0_map(coarse_space.grid.data(),coarse_space.support_elements,local_coords,coeffs)",
                       "dof_transformation=transform@coarse_space.map_to_localised_space",
                       "coo_matrix((values,(bary_dofs,coarse_dofs))", f".set_shapeset('{shapeset}')",
                       f".set_numba_evaluator({evalname})",
                       "normal_multipliers=_np.repeat(coarse_space.normal_multipliers,6)"):
            if needle not in src:
                raise GenError(f"{name}: pattern `{needle}` not found")
        out[key + "_eval_edges"] = _eval_convention(_func(tree, evalname))
    snc = _u(_func(tree, "_numba_snc0_evaluate"))
    for needle in ("normal=grid_data.normals[element_index]*normal_multipliers[element_index]",
                   "result[0,:,:]=normal[1]*tmp[2,:,:]-normal[2]*tmp[1,:,:]",
                   "result[1,:,:]=normal[2]*tmp[0,:,:]-normal[0]*tmp[2,:,:]",
                   "result[2,:,:]=normal[0]*tmp[1,:,:]-normal[1]*tmp[0,:,:]"):
        if needle not in snc:
            raise GenError(f"_numba_snc0_evaluate: pattern `{needle}` not found")
    g = _func(tree, "generate_rwg0_map")
    _map_index_pattern(g, "generate_rwg0_map")
    src = _u(g)
    for needle in ("local_vertices=grid_data.local2global(elem_index,local_coords)",
                   "dof_coeffs=bary_coeffs*outer_edges[local_dof]/dof_mult",
                   "values[count:count+18]=dof_coeffs.ravel()"):
        if needle not in src:
            raise GenError(f"generate_rwg0_map: pattern `{needle}` not found")
    lens = {}
    order = []
    for st in ast.walk(g):
        if isinstance(st, ast.Assign) and len(st.targets) == 1 and isinstance(st.targets[0], ast.Name):
            v = st.value
            if isinstance(v, ast.Call) and _chain(v.func) in ("_np.linalg.norm", "np.linalg.norm"):
                ok = len(v.args) == 1 and isinstance(v.args[0], ast.BinOp) and isinstance(v.args[0].op, ast.Sub)
                ab = []
                if ok:
                    for side in (v.args[0].left, v.args[0].right):
                        s = _sub(side)
                        if not (s and s[0] == "local_vertices" and len(s[1]) == 2 and isinstance(s[1][0], ast.Slice)
                                and _int(s[1][1]) is not None):
                            ok = False
                            break
                        ab.append(_int(s[1][1]))
                if not ok:
                    raise GenError(f"generate_rwg0_map: cannot interpret `{ast.unparse(st)}`")
                nm = st.targets[0].id
                if nm in lens:
                    raise GenError(f"generate_rwg0_map: length `{nm}` assigned twice")
                lens[nm] = tuple(ab)
                order.append(nm)
    if len(order) != 9:
        raise GenError(f"generate_rwg0_map: {len(order)} length definitions instead of 9")

    def names(node, what):
        if isinstance(node, ast.Call) and _chain(node.func) in ("_np.array", "np.array") and node.args:
            node = node.args[0]
        if isinstance(node, (ast.List, ast.Tuple)):
            return [names(e, what) for e in node.elts]
        if isinstance(node, ast.Name) and node.id in lens:
            return order.index(node.id)
        raise GenError(f"generate_rwg0_map: {what}: `{ast.unparse(node)[:60]}` is not a length name")
    outer = names(_assign_in(g, "outer_edges"), "outer_edges")
    dm = names(_assign_in(g, "dof_mult"), "dof_mult")
    if not (isinstance(outer, list) and len(outer) == 3 and all(isinstance(x, int) for x in outer)):
        raise GenError("generate_rwg0_map: outer_edges is not a list of three lengths")
    if not (len(dm) == 6 and all(isinstance(r, list) and len(r) == 3 and all(isinstance(x, int) for x in r) for r in dm)):
        raise GenError("generate_rwg0_map: dof_mult is not a 6x3 table of lengths")
    out.update(len_names=order, len_defs=[lens[n] for n in order], outer=outer, dof_mult=dm)
    return out


# ------------------------------------------------------------------------------------------------ scalar_dual_spaces.py

def extract_dual(tree):
    out = {}
    f0 = _func(tree, "dual0_function_space")
    exprs = []
    for node in ast.walk(f0):
        if isinstance(node, ast.Call) and _chain(node.func) == "_bary_dofs.append" and len(node.args) == 1:
            exprs.append(node.args[0])
    if len(exprs) != 2:
        raise GenError(f"dual0_function_space: {len(exprs)} `_bary_dofs.append(...)` instead of 2")
    subs = []
    for v in range(3):
        row = []
        for e in exprs:
            a = int_eval(e, {"face_n": 0, "vertex": v})
            b = int_eval(e, {"face_n": 1, "vertex": v})
            if b - a != 6:
                raise GenError(f"dual0_function_space: `{ast.unparse(e)}` has stride {b - a} in face_n, expected 6")
            row.append(a)
        subs.append(row)
    src = _u(f0)
    for needle in ("forface,vertexinlocal_dofs:", "values=_np.ones(nentries,dtype=_np.float64)",
                   "coo_matrix((values,(bary_dofs,coarse_dofs))", "local_dofs=coarse_space.global2local[global_dof_index]",
                   "coarse_space=p1_continuous_function_space(", ".set_shapeset('p0_discontinuous')"):
        if needle not in src:
            raise GenError(f"dual0_function_space: pattern `{needle}` not found")
    out["dual0"] = subs
    f1 = _func(tree, "dual1_function_space")
    src1 = _u(f1)
    for needle in ("coarse_space=p0_discontinuous_function_space(", ".set_shapeset('p1_discontinuous')",
                   "coo_matrix((values,(bary_dofs,coarse_dofs))", "neighbour_count=end-start"):
        if needle not in src1:
            raise GenError(f"dual1_function_space: pattern `{needle}` not found")
    bary = mid = vert = None
    vals = {}

    def body_info(loop, what):
        """stride and value of `bary_dofs[count] = S * face_n + n; values[count] = v` in a `for n in ...` body."""
        stride = val = None
        for st in loop.body:
            if isinstance(st, ast.Assign) and len(st.targets) == 1:
                sp = _sub(st.targets[0])
                if sp and sp[0] == "bary_dofs":
                    a = int_eval(st.value, {"face_n": 0, "n": 0})
                    b = int_eval(st.value, {"face_n": 1, "n": 0})
                    c = int_eval(st.value, {"face_n": 0, "n": 1})
                    if a != 0 or c != 1:
                        raise GenError(f"dual1_function_space: {what}: `{ast.unparse(st)}` is not S*face_n + n")
                    stride = b
                if sp and sp[0] == "values":
                    val = _u(st.value)
                if sp and sp[0] == "coarse_dofs" and not _is_name(st.value, "global_dof_index"):
                    raise GenError(f"dual1_function_space: {what}: coarse dof is not global_dof_index")
        if stride is None or val is None:
            raise GenError(f"dual1_function_space: {what}: dof / value assignment not found")
        return stride, val

    for node in ast.walk(f1):
        if not isinstance(node, ast.For):
            continue
        it = node.iter
        if _is_name(node.target, "n") and isinstance(it, ast.List) and all(_int(e) is not None for e in it.elts) \
                and len(it.elts) == 6:
            if bary is not None:
                raise GenError("dual1_function_space: two barycentre dof lists")
            bary = [_int(e) for e in it.elts]
            vals["bary"] = body_info(node, "barycentre")
        if isinstance(it, ast.Call) and _chain(it.func) == "enumerate" and len(it.args) == 1 \
                and isinstance(it.args[0], ast.List) and isinstance(node.target, ast.Tuple):
            lists = []
            for r in it.args[0].elts:
                if not (isinstance(r, ast.List) and all(_int(e) is not None for e in r.elts)):
                    raise GenError("dual1_function_space: dof list is not a literal")
                lists.append([_int(e) for e in r.elts])
            iv, dv = (e.id for e in node.target.elts)
            cond = next((s for s in node.body if isinstance(s, ast.If)), None)
            if cond is None:
                raise GenError("dual1_function_space: selection test of a dof list not found")
            test = _u(cond.test)
            inner = next((s for s in cond.body if isinstance(s, ast.For) and _is_name(s.iter, dv)), None)
            brk = any(isinstance(s, ast.Break) for s in cond.body)
            if inner is None or not brk:
                raise GenError("dual1_function_space: `for n in dofs: ... break` not found")
            if test == f"coarse_space.grid.element_edges[{iv}][neighbour]==edge":
                if mid is not None:
                    raise GenError("dual1_function_space: two edge-midpoint dof tables")
                mid = lists
                vals["mid"] = body_info(inner, "edge midpoint")
            elif test == f"coarse_space.grid.elements[{iv}][neighbour]==vertex":
                if vert is not None:
                    raise GenError("dual1_function_space: two vertex dof tables")
                vert = lists
                vals["vert"] = body_info(inner, "vertex")
            else:
                raise GenError(f"dual1_function_space: unknown selection test `{ast.unparse(cond.test)}`")
    if bary is None or mid is None or vert is None:
        raise GenError("dual1_function_space: barycentre / midpoint / vertex dof lists not all found")
    if len(mid) != 3 or len(vert) != 3:
        raise GenError("dual1_function_space: midpoint / vertex tables must have three rows")
    strides = {v[0] for v in vals.values()}
    if len(strides) != 1:
        raise GenError(f"dual1_function_space: inconsistent strides {strides}")
    try:
        bval = Fraction(vals["bary"][1])
        mval = Fraction(vals["mid"][1])
    except ValueError:
        raise GenError(f"dual1_function_space: barycentre / midpoint values are not literals: {vals}")
    if vals["vert"][1] != "1/neighbour_count":
        raise GenError(f"dual1_function_space: vertex value `{vals['vert'][1]}` is not 1 / neighbour_count")
    for needle in ("forneighbourincoarse_space.grid.edge_neighbors[edge]:", "forneighbourinneighbours:",
                   "edge=coarse_space.grid.element_edges[e][element_index]",
                   "vertex=coarse_space.grid.elements[v][element_index]",
                   "start=coarse_space.grid.vertex_neighbors.indexptr[vertex]"):
        if needle not in src1:
            raise GenError(f"dual1_function_space: pattern `{needle}` not found")
    out.update(dual1_bary=bary, dual1_mid=mid, dual1_vert=vert, dual1_stride=strides.pop(), dual1_bary_value=bval,
               dual1_mid_value=mval)
    return out


# ------------------------------------------------------------------------------------------------ printing

def lr(q):
    q = Fraction(q)
    if q.denominator == 1:
        return str(q.numerator) if q.numerator >= 0 else f"({q.numerator})"
    return f"({q.numerator}/{q.denominator})" if q.numerator >= 0 else f"(({q.numerator})/{q.denominator})"


def _rat3(name, t, doc):
    out = [f"/-- {doc} -/", f"def {name} : List (List (List Rat)) := ["]
    blocks = []
    for tab in t:
        blocks.append("  [" + ",\n   ".join("[" + ", ".join(lr(x) for x in row) + "]" for row in tab) + "]")
    out.append(",\n".join(blocks))
    out.append("]")
    return "\n".join(out)


def _pairs(l):
    return "[" + ", ".join(f"({a}, {b})" for a, b in l) + "]"


def _nat2(l):
    return "[" + ", ".join("[" + ", ".join(str(x) for x in r) + "]" for r in l) + "]"


def extract_all():
    try:
        g = extract_grid(T.parse(GRID))
        s = extract_scalar(T.parse(SCALAR))
        m = extract_maxwell(T.parse(MAXWELL))
        d = extract_dual(T.parse(DUAL))
    except (T.ExtractError, SyntaxError, OSError) as e:
        raise GenError(f"barycentric table extraction failed: {e}")
    return dict(grid=g, scalar=s, maxwell=m, dual=d)


def render(x):
    g, s, m, d = x["grid"], x["scalar"], x["maxwell"], x["dual"]
    body = [
        "-- GENERATED by props/c10_gen.py from bempp_cl/api/grid/grid.py, api/space/scalar_spaces.py,",
        "-- maxwell_spaces.py, scalar_dual_spaces.py -- do not edit",
        "namespace BemppVerif.Gen.BaryTables",
        "/-- `_EDGE_LOCAL`: local vertex indices of local edge l -/",
        "def edgeLocal : List (Nat × Nat) := " + _pairs(g["edge_local"]),
        "/-- `_create_barycentric_connectivity_array`: vertex codes `(kind, index)` of the local vertices 0,1,2 of",
        "sub-triangle `6 * index + s`; kind 0 = parent vertex, 1 = midpoint vertex of local edge, 2 = barycentre -/",
        "def subTri : List (List (Nat × Nat)) := [",
        ",\n".join("  " + _pairs(tri) for tri in g["sub"]),
        "]",
        "/-- weights in `w * sum(vertices of the element)` / `w * sum(vertices of the edge)` of the new vertices -/",
        f"def centroidWeight : Rat := {lr(g['centroid_weight'])}",
        f"def midpointWeight : Rat := {lr(g['midpoint_weight'])}",
        _rat3("p1Coeffs", s["p1"], "`p1_barycentric_continuous_function_space`: `coeffs[i][s][k]`"),
        "/-- `rwg0_barycentric_function_space`: `local_coords` columns -/",
        "def rwgLocalCoords : List (Rat × Rat) := [" + ", ".join(f"({lr(a)}, {lr(b)})" for a, b in m["rwg_coords"]) + "]",
        _rat3("rwgCoeffs", m["rwg"], "`rwg0_barycentric_function_space`: `coeffs[i][s][k]`"),
        "/-- `snc0_barycentric_function_space`: `local_coords` columns -/",
        "def sncLocalCoords : List (Rat × Rat) := [" + ", ".join(f"({lr(a)}, {lr(b)})" for a, b in m["snc_coords"]) + "]",
        _rat3("sncCoeffs", m["snc"], "`snc0_barycentric_function_space`: `coeffs[i][s][k]`"),
        "/-- `generate_rwg0_map`: the lengths " + ", ".join(m["len_names"]) + " as pairs of `local_vertices` columns -/",
        "def lenDefs : List (Nat × Nat) := " + _pairs(m["len_defs"]),
        "/-- `outer_edges` (indices into `lenDefs`) -/",
        "def outerEdges : List Nat := [" + ", ".join(str(v) for v in m["outer"]) + "]",
        "/-- `dof_mult[s][k]` (indices into `lenDefs`) -/",
        "def dofMult : List (List Nat) := " + _nat2(m["dof_mult"]),
        "/-- `_numba_rwg0_evaluate` / `_numba_snc0_evaluate`: `edge_lengths[i] = |v[a] - v[b]|` -/",
        "def rwgEvalEdges : List (Nat × Nat) := " + _pairs(m["rwg_eval_edges"]),
        "def sncEvalEdges : List (Nat × Nat) := " + _pairs(m["snc_eval_edges"]),
        "/-- `dual0_function_space`: sub-triangles `6 * face_n + _` that carry the dof of local vertex v = 0,1,2 -/",
        "def dual0Subs : List (List Nat) := " + _nat2(d["dual0"]),
        "/-- `dual1_function_space`: dof lists (`18 * face_n + n`, n = 3 * s + k) and values -/",
        "def dual1Bary : List Nat := [" + ", ".join(str(v) for v in d["dual1_bary"]) + "]",
        "def dual1Mid : List (List Nat) := " + _nat2(d["dual1_mid"]),
        "def dual1Vert : List (List Nat) := " + _nat2(d["dual1_vert"]),
        f"def dual1Stride : Nat := {d['dual1_stride']}",
        f"def dual1BaryValue : Rat := {lr(d['dual1_bary_value'])}",
        f"def dual1MidValue : Rat := {lr(d['dual1_mid_value'])}",
        "end BemppVerif.Gen.BaryTables",
        "",
    ]
    return "\n".join(body)


def generate():
    x = extract_all()
    ch = T.write_if_changed(os.path.join(LEAN, "BemppVerif/Gen/BaryTables.lean"), render(x))
    return {"BaryTables": dict(sub_triangle_assignments=18, p1_entries=54, rwg_entries=54, snc_entries=54,
                               length_defs=len(x["maxwell"]["len_defs"]), dual1_lists=7, changed=ch)}


if __name__ == "__main__":
    print(generate())
