"""Tie B for the assembly loops: trace the real assembly functions on small generic configurations and emit
(1) `lean/BemppVerif/Gen/AsmTraces.lean`: one Lean definition per traced result entry (atoms become applications of
    function variables: `Kf_3_5_0_4` ↦ `Kf 3 5 0 4`, `qw_1` ↦ `qw 1`, …),
(2) `lean/BemppVerif/Gen/AsmMatch.lean`: theorems stating that the hand-written model `Model/Asm.lean`, instantiated at
    the traced configuration, equals the traced entries, and trace-level identities between different assemblers
    (hypersingular = curl·curl × single layer, boundary operator between two grids = tested potential); all proved
    by unfolding + `ring`.
The Maxwell assemblers and potentials are traced by props/asm_gen_mx.py, the Laplace-Beltrami sparse kernel by
props/asm_gen_sparse.py (both called from `generate()` below; their modules are listed in Gen/AsmMatch.lean too).

Configuration "same grid": elements e0=(0,1,2), e1=(1,3,2) (edge-adjacent to e0), e2=(4,5,6) (disjoint from both);
2 regular quadrature points; spaces: p1 (nshape 3, local2global = vertex index), dp1 (3e+i), dp0 (e), all with symbolic
multipliers.  Configuration "two grids": test grid `t` with elements (0,1,2),(1,3,2), trial grid `s` with (0,1,2),(2,1,3)."""
import os
import re

import numpy as np

from vlib import symtrace as st, asmtrace as at
from vlib import tables as T
from vlib.common import LEAN, GenError

ELEMS = np.array([[0, 1, 2], [1, 3, 2], [4, 5, 6]]).T
NE, NV, NQ = 3, 7, 2
ELEMS_T = np.array([[0, 1, 2], [1, 3, 2]]).T
ELEMS_S = np.array([[0, 1, 2], [2, 1, 3]]).T
_VAR = re.compile(r"^([A-Za-z]+)((?:_\d+)*)$")


def lean_term(t):
    """Like symtrace.to_lean but atoms `name_i_j` become applications `(name i j)`."""
    k = t[0]
    if k == "var":
        m = _VAR.match(t[1])
        if not m:
            raise GenError(f"unexpected atom {t[1]}")
        idx = [s for s in m.group(2).split("_") if s]
        return "(" + " ".join([m.group(1)] + idx) + ")" if idx else m.group(1)
    if k == "const":
        return st.to_lean(t)
    if k in ("add", "sub", "mul", "div"):
        return "(" + lean_term(t[1]) + {"add": " + ", "sub": " - ", "mul": " * ", "div": " / "}[k] + lean_term(t[2]) + ")"
    if k == "neg":
        return "(-" + lean_term(t[1]) + ")"
    if k == "pow":
        return "(" + lean_term(t[1]) + " ^ " + str(t[2]) + ")"
    if k == "fn":
        return "(" + t[1] + " " + lean_term(t[2]) + ")"
    raise GenError(k)


def atom_arities(terms, ar=None):
    ar = {} if ar is None else ar
    for t in terms:
        for v in st.free_vars(t):
            if v.startswith("@"):
                continue
            m = _VAR.match(v)
            if not m:
                raise GenError(f"unexpected atom {v}")
            n = len([s for s in m.group(2).split("_") if s])
            if ar.setdefault(m.group(1), n) != n:
                raise GenError(f"atom {m.group(1)} used with two arities")
    return ar


def binders(ar):
    return " ".join(f"({name} : {' → '.join(['Nat'] * ar[name] + ['K'])})" for name in sorted(ar))


class Space:
    def __init__(self, kind, elems, role):
        ne = elems.shape[1]
        self.kind = kind
        self.nshape = 1 if kind == "dp0" else 3
        if kind == "dp0":
            self.l2g = np.arange(ne).reshape(ne, 1)
        elif kind == "dp1":
            self.l2g = np.arange(3 * ne).reshape(ne, 3)
        elif kind == "p1":
            self.l2g = elems.T.copy()
        else:
            raise ValueError(kind)
        self.ndofs = int(self.l2g.max()) + 1
        self.mult = at.atoms((ne, self.nshape), ("mt" if role == "test" else "ms") + "_{0}_{1}")
        self.shape_name = "p0_discontinuous" if kind == "dp0" else "p1_discontinuous"


class Env:
    """Symbolic grids, rules, registries shared by all traces of a run."""

    def __init__(self):
        import bempp_cl.core.numba_kernels as nk
        import bempp_cl.api.space.shapesets as sh
        import bempp_cl.api.space.space as spacemod
        self.nk, self.sh, self.spacemod = nk, sh, spacemod
        self.g = at.SymGrid("", ELEMS, NV)
        self.gt = at.SymGrid("t", ELEMS_T, 4)
        self.gs = at.SymGrid("s", ELEMS_S, 4)
        self.qp, self.qw = at.quad_rule(NQ)
        self.nmt = at.atoms((NE,), "nmt_{0}")
        self.nms = at.atoms((NE,), "nms_{0}")
        # singular rule: concatenated symbolic points / weights (8 columns each)
        self.stp = np.empty((2, 8), dtype=object)
        self.ssp = np.empty((2, 8), dtype=object)
        self.sw = np.empty(8, dtype=object)
        for i in range(8):
            self.stp[0, i], self.stp[1, i] = st.Sym.var(f"stu_{i}"), st.Sym.var(f"stv_{i}")
            self.ssp[0, i], self.ssp[1, i] = st.Sym.var(f"ssu_{i}"), st.Sym.var(f"ssv_{i}")
            self.sw[i] = st.Sym.var(f"sw_{i}")
        self.preg, self.nreg = at.Registry(), at.Registry()
        # structured ids.  points: same grid regular: e*NQ+q  (0..5);  grid t: 10 + e*NQ+q;  grid s: 20 + e*NQ+q;
        # singular test points on element e column i: 100 + 8*e + i; singular trial points: 200 + 8*e + i
        self._reg_points(self.g, self.qp, 0, NE)
        self._pad(self.preg, 10)
        self._reg_points(self.gt, self.qp, 10, 2)
        self._pad(self.preg, 20)
        self._reg_points(self.gs, self.qp, 20, 2)
        self._pad(self.preg, 100)
        for e in range(NE):
            gp = self.g.data.local2global(e, self.stp)
            for i in range(8):
                assert self.preg.point(list(gp[:, i])) == 100 + 8 * e + i
        self._pad(self.preg, 200)
        for e in range(NE):
            gp = self.g.data.local2global(e, self.ssp)
            for i in range(8):
                assert self.preg.point(list(gp[:, i])) == 200 + 8 * e + i
        # normals: same grid test e -> e, trial e -> 3+e; grid t test -> 10+e; grid s trial -> 20+e; zero normal -> 30
        for e in range(NE):
            assert self.nreg.point(list(self.g.data.normals[e] * self.nmt[e])) == e
        for e in range(NE):
            assert self.nreg.point(list(self.g.data.normals[e] * self.nms[e])) == NE + e
        self._pad(self.nreg, 10)
        for e in range(2):
            assert self.nreg.point(list(self.gt.data.normals[e] * self.nmt[e])) == 10 + e
        self._pad(self.nreg, 20)
        for e in range(2):
            assert self.nreg.point(list(self.gs.data.normals[e] * self.nms[e])) == 20 + e
        self._pad(self.nreg, 30)
        assert self.nreg.point([0.0, 0.0, 0.0]) == 30

    @staticmethod
    def _pad(reg, upto):
        while len(reg.terms) < upto:
            reg.id(("pad", len(reg.terms)))

    def _reg_points(self, grid, pts, base, ne):
        for e in range(ne):
            gp = grid.data.local2global(e, pts)
            for q in range(pts.shape[1]):
                assert self.preg.point(list(gp[:, q])) == base + e * pts.shape[1] + q

    def shape(self, sp):
        f = self.sh._SHAPESETS[sp.shape_name]["evaluate"]
        return getattr(f, "py_func", f)


class Kstub:
    def __init__(self, env, name="Kf", cplx=False):
        self.env, self.name, self.cplx, self.calls = env, name, cplx, 0

    def __call__(self, test_points, trial_points, test_normal, trial_normals, params):
        self.calls += 1
        c = self.env
        tp = np.asarray(test_points, dtype=object)
        yp = np.asarray(trial_points, dtype=object)
        tn = np.asarray(trial_normals, dtype=object)
        n = yp.shape[1]
        out = np.empty(n, dtype=object)
        nx = c.nreg.point(list(np.asarray(test_normal, dtype=object).ravel()))
        for j in range(n):
            x = c.preg.point(list(tp[:, j] if tp.ndim == 2 else tp))
            y = c.preg.point(list(yp[:, j]))
            ny = c.nreg.point(list(tn[:, j] if tn.ndim == 2 else tn))
            if self.cplx:
                out[j] = st.CSym(st.Sym.var(f"{self.name}re_{x}_{y}_{nx}_{ny}"), st.Sym.var(f"{self.name}im_{x}_{y}_{nx}_{ny}"))
            else:
                out[j] = st.Sym.var(f"{self.name}_{x}_{y}_{nx}_{ny}")
        return out


def _py(f):
    return getattr(f, "py_func", f)


def trace_boundary_regular(env, fname, tk, sk, two_grids=False, test_elems=(0, 2), trial_elems=(0, 1, 2), cplx=False,
                           params=None):
    nk = env.nk
    if two_grids:
        gT, gS, eT, eS = env.gt, env.gs, ELEMS_T, ELEMS_S
        test_elems, trial_elems = (0, 1), (0, 1)
    else:
        gT = gS = env.g
        eT = eS = ELEMS
    Tsp, Ssp = Space(tk, eT, "test"), Space(sk, eS, "trial")
    result = at.zeros((Tsp.ndofs, Ssp.ndofs))
    K = Kstub(env, name="Kc" if cplx else "Kf", cplx=cplx)
    kp = np.array([0.0, 0.0], dtype=object) if params is None else params
    with at.pyfuncs(nk):
        _py(getattr(nk, fname))(gT.data, gS.data, Tsp.nshape, Ssp.nshape, np.array(test_elems), np.array(trial_elems),
                                Tsp.mult, Ssp.mult, Tsp.l2g, Ssp.l2g, env.nmt, env.nms, env.qp, env.qw, K,
                                kp, not two_grids, env.shape(Tsp), env.shape(Ssp), result)
    return result, Tsp, Ssp


SING_PAIRS = [  # (test element, trial element, test offset, trial offset, weights offset, npoints)
    (0, 0, 0, 0, 0, 2),
    (0, 1, 2, 5, 3, 2),
    (1, 0, 5, 2, 3, 2),
]


def trace_singular(env, fname, tk, sk):
    nk = env.nk
    Tsp, Ssp = Space(tk, ELEMS, "test"), Space(sk, ELEMS, "trial")
    P = np.array(SING_PAIRS)
    result = at.zeros((Tsp.nshape * Ssp.nshape * len(SING_PAIRS),))
    K = Kstub(env, name="Ks")
    with at.pyfuncs(nk):
        _py(getattr(nk, fname))(env.g.data, env.stp, env.ssp, env.sw, P[:, 0], P[:, 1], P[:, 2], P[:, 3], P[:, 4], P[:, 5],
                                env.nmt, env.nms, Tsp.nshape, Ssp.nshape, env.shape(Tsp), env.shape(Ssp), K,
                                np.array([0.0, 0.0], dtype=object), result)
    return result, Tsp, Ssp


def trace_potential(env, sk, support=(0, 1)):
    """Scalar potential of a density on grid `s`, evaluated at the regular quadrature points of grid `t`."""
    nk = env.nk
    Ssp = Space(sk, ELEMS_S, "trial")
    pts = np.hstack([env.gt.data.local2global(e, env.qp) for e in range(2)])
    coef = at.atoms((Ssp.nshape * 2,), "coef_{0}")
    K = Kstub(env)
    with at.pyfuncs(nk):
        out = _py(nk.default_scalar_potential_kernel)(np.dtype(object), np.dtype(object), 1, pts, coef, env.gs.data, env.qp,
                                                       env.qw, Ssp.nshape, env.shape(Ssp), K,
                                                       np.array([0.0, 0.0], dtype=object), env.nms, np.array(support))
    return np.asarray(out, dtype=object), Ssp


def trace_sparse_identity(env, tk, sk, elements=(0, 2)):
    nk, sm = env.nk, env.spacemod
    Tsp, Ssp = Space(tk, ELEMS, "test"), Space(sk, ELEMS, "trial")
    result = at.zeros((Tsp.nshape * Ssp.nshape * len(elements),))
    ev = _py(sm._numba_evaluate)
    with at.pyfuncs(nk):
        _py(nk.default_sparse_kernel)(env.g.data, Tsp.nshape, Ssp.nshape, np.array(elements), env.qp, env.qw, env.nmt, env.nms,
                                      Tsp.mult, Ssp.mult, env.shape(Tsp), env.shape(Ssp), ev, ev,
                                      _py(nk.l2_identity_kernel), result)
    return result, Tsp, Ssp


# ------------------------------------------------------------------------------------------------


def generate():
    try:
        env = Env()
        reg_p1_dp0, Tp1, Sdp0 = trace_boundary_regular(env, "default_scalar_regular_kernel", "p1", "dp0")
        reg_dp0_dp0, _, _ = trace_boundary_regular(env, "default_scalar_regular_kernel", "dp0", "dp0")
        hyp_p1_p1, _, _ = trace_boundary_regular(env, "laplace_hypersingular_regular", "p1", "p1")
        dis_p1_dp1, _, _ = trace_boundary_regular(env, "default_scalar_regular_kernel", "p1", "dp1", two_grids=True)
        sing_p1_dp0, _, _ = trace_singular(env, "default_scalar_singular_kernel", "p1", "dp0")
        hsing_p1_p1, _, _ = trace_singular(env, "laplace_hypersingular_singular", "p1", "p1")
        sing_dp0_dp0, _, _ = trace_singular(env, "default_scalar_singular_kernel", "dp0", "dp0")
        pot_dp1, _ = trace_potential(env, "dp1")
        # the same potential of a density supported on element 1 only: the position in the support list (0) differs from the
        # element index (1), as for every segment space whose support is not a leading block of the grid
        potseg_dp1, _ = trace_potential(env, "dp1", support=(1,))
        ident_p1_dp0, _, _ = trace_sparse_identity(env, "p1", "dp0")
        reg_dp1_dp1, _, _ = trace_boundary_regular(env, "default_scalar_regular_kernel", "dp1", "dp1")
        kp = np.empty(2, dtype=object)
        kp[0], kp[1] = st.Sym.var("kp_0"), st.Sym.var("kp_1")
        mhyp_p1_p1, _, _ = trace_boundary_regular(env, "modified_helmholtz_hypersingular_regular", "p1", "p1", params=kp)
        creg_dp0, _, _ = trace_boundary_regular(env, "default_scalar_regular_kernel", "dp0", "dp0", cplx=True)
        creg_dp1, _, _ = trace_boundary_regular(env, "default_scalar_regular_kernel", "dp1", "dp1", cplx=True)
        chyp_p1_p1, _, _ = trace_boundary_regular(env, "helmholtz_hypersingular_regular", "p1", "p1", cplx=True, params=kp)
    except (st.TraceError, AssertionError, AttributeError, TypeError, IndexError, ValueError, KeyError) as e:
        raise GenError(f"assembler tracing failed: {type(e).__name__}: {e}")
    fams = {
        "regular": reg_p1_dp0, "regdp0": reg_dp0_dp0, "hyp": hyp_p1_p1, "dis": dis_p1_dp1,
        "sing": sing_p1_dp0.reshape(-1, 1), "hsing": hsing_p1_p1.reshape(-1, 1), "singdp0": sing_dp0_dp0.reshape(-1, 1),
        "pot": pot_dp1.reshape(-1, 1), "potseg": potseg_dp1.reshape(-1, 1), "ident": ident_p1_dp0.reshape(-1, 1),
        "regdp1": reg_dp1_dp1, "mhyp": mhyp_p1_p1,
    }
    cfams = {"cregdp0": creg_dp0, "cregdp1": creg_dp1, "chyp": chyp_p1_p1}
    entries = {}
    for fam, arr in fams.items():
        for r in range(arr.shape[0]):
            for c in range(arr.shape[1]):
                entries[(fam, r, c)] = st.Sym.lift(arr[r, c]).t
    for fam, arr in cfams.items():
        for r in range(arr.shape[0]):
            for c in range(arr.shape[1]):
                re_, im_ = st.parts(arr[r, c])
                entries[(fam + "re", r, c)] = re_
                entries[(fam + "im", r, c)] = im_
    ar = atom_arities(entries.values())
    # atoms that the theorems mention even if a trace does not use them
    for name, n in (("N", 2), ("JIT", 3), ("nmt", 1), ("nms", 1), ("coef", 1), ("ssu", 1), ("ssv", 1), ("kp", 1)):
        ar.setdefault(name, n)
    B = binders(ar)
    names = " ".join(sorted(ar))
    L = ["-- GENERATED by props/asm_gen.py by tracing the assembly functions of bempp_cl/core/numba_kernels.py -- do not edit",
         "import Mathlib.Algebra.Field.Defs",
         "namespace BemppVerif.Gen.AsmTraces",
         "set_option linter.unusedVariables false",
         ""]
    for (fam, r, c), t in sorted(entries.items()):
        L.append(f"def {fam}_{r}_{c} {{K : Type}} [Field K] {B} : K :=\n  " + lean_term(t))
    L += ["end BemppVerif.Gen.AsmTraces", ""]
    ch1 = T.write_if_changed(os.path.join(LEAN, "BemppVerif/Gen/AsmTraces.lean"), "\n".join(L))

    # ---------------------------------------------------------------- matching theorems
    def table(name, arr):
        out = [f"def {name} : Nat → Nat → Nat := fun e i =>\n  match e, i with"]
        for e in range(arr.shape[1]):
            for i in range(3):
                out.append(f"  | {e}, {i} => {int(arr[i, e])}")
        out.append("  | _, _ => 0")
        return "\n".join(out)

    adj = [[bool(set(ELEMS[:, a]) & set(ELEMS[:, b])) for b in range(NE)] for a in range(NE)]
    adjdef = ["def adjacent : Nat → Nat → Bool := fun a b =>\n  match a, b with"]
    for a in range(NE):
        for b in range(NE):
            adjdef.append(f"  | {a}, {b} => {'true' if adj[a][b] else 'false'}")
    adjdef.append("  | _, _ => false")
    SIMP = ("entry, regularLaunch, localReg, localSing, potential, localIdentity, rsum, lsum, List.range, List.range.loop, "
            "p1shape, nb_shape_p1_discontinuous_c0_f0, nb_shape_p1_discontinuous_c0_f1, nb_shape_p1_discontinuous_c0_f2, "
            "nb_shape_p0_discontinuous_c0_f0, adjacent, elems, elemsT, elemsS, curlT, curlS, cross, refGrad, surfGrad, "
            "-mul_eq_mul_right_iff, -mul_eq_mul_left_iff, -mul_eq_zero, -zero_eq_mul")
    M = ["-- GENERATED by props/asm_gen.py -- do not edit.",
         "-- (a) Model/Asm.lean instantiated at the traced configuration = trace of the real assembler;",
         "-- (b) trace-level identities between different assemblers.",
         "import BemppVerif.Gen.AsmTraces",
         "import BemppVerif.Gen.FmmKernels",
         "import BemppVerif.Model.Asm",
         "import Mathlib.Tactic.Ring",
         "namespace BemppVerif.AsmMatch",
         "open BemppVerif.Model.Asm BemppVerif.Gen.AsmTraces BemppVerif.Gen.FmmKernels",
         "set_option linter.unusedVariables false",
         "set_option linter.unusedSimpArgs false",
         "",
         "/-- element tables of the traced configurations -/",
         table("elems", ELEMS), table("elemsT", ELEMS_T), table("elemsS", ELEMS_S),
         "/-- `elements_adjacent` on the same-grid configuration (computed from the element table) -/",
         "\n".join(adjdef),
         "def p1shape {K : Type} [Field K] (i : Nat) (u v : K) : K :=\n  match i with\n"
         "  | 0 => nb_shape_p1_discontinuous_c0_f0 u v\n  | 1 => nb_shape_p1_discontinuous_c0_f1 u v\n"
         "  | _ => nb_shape_p1_discontinuous_c0_f2 u v",
         "/-- reference gradients of the P1 shape functions: (-1,-1), (1,0), (0,1) -/",
         "def refGrad {K : Type} [Field K] (i a : Nat) : K :=\n  match i, a with\n  | 0, _ => -1\n  | 1, 0 => 1\n  | 2, 1 => 1\n  | _, _ => 0",
         "/-- surface gradient `jac_inv_trans[e] @ reference_gradient[:, i]`, component c -/",
         "def surfGrad {K : Type} [Field K] (JIT : Nat → Nat → Nat → K) (e i c : Nat) : K :=\n  JIT e c 0 * refGrad i 0 + JIT e c 1 * refGrad i 1",
         "def cross {K : Type} [Field K] (a b : Nat → K) (c : Nat) : K :=\n  match c with\n  | 0 => a 1 * b 2 - a 2 * b 1\n  | 1 => a 2 * b 0 - a 0 * b 2\n  | _ => a 0 * b 1 - a 1 * b 0",
         "/-- surface curl of P1 shape function i on element e: `(n_e × grad_i) * normal_multiplier_e` -/",
         "def curlT {K : Type} [Field K] (N : Nat → Nat → K) (JIT : Nat → Nat → Nat → K) (nmt : Nat → K) (e i c : Nat) : K :=\n"
         "  cross (N e) (surfGrad JIT e i) c * nmt e",
         "def curlS {K : Type} [Field K] (N : Nat → Nat → K) (JIT : Nat → Nat → Nat → K) (nms : Nat → K) (e i c : Nat) : K :=\n"
         "  cross (N e) (surfGrad JIT e i) c * nms e",
         ]
    SECTION = f"section\nvariable {{K : Type}} [Field K] {B}\n"
    thms = []
    groups = {}

    def add(tn, stmt, extra=""):
        intro = "  intro Kg\n" if stmt.startswith("∀ Kg") else ""
        grp = tn.split("_")[0] + ("_" + tn.split("_")[1] if tn.startswith("hyp_") else "")
        groups.setdefault(grp, []).append(
            f"theorem {tn} :\n    {stmt} := by\n{intro}  simp [{SIMP}{extra}]\n  try ring")
        thms.append(f"BemppVerif.AsmMatch.{tn}")

    # (a1) regular launch
    regD = (f"({{ nq := {NQ}, w := qw, ieT := ie, ieS := ie, phiT := fun i p => p1shape i (qu p) (qv p), "
            f"phiS := fun _ _ => nb_shape_p0_discontinuous_c0_f0 (qu 0) (qv 0), "
            f"K := fun τ p σ q => Kf (τ * {NQ} + p) (σ * {NQ} + q) τ ({NE} + σ), adjacent := adjacent }} : RegData K)")
    Tsp = "(⟨3, elems, mt⟩ : SpaceData K)"
    Ssp = "(⟨1, fun e _ => e, ms⟩ : SpaceData K)"
    for r in range(NV):
        for c in range(NE):
            add(f"regular_matches_trace_{r}_{c}",
                f"entry (regularLaunch {regD} {Tsp} {Ssp} [0, 2] [0, 1, 2]) {r} {c}\n      = regular_{r}_{c} {names}",
                f", regular_{r}_{c}")
    # (a2) singular local integrals (slot = 3*pair + i for p1 x dp0)
    singD = ("({ w := sw, ie := ie, phiT := fun i q => p1shape i (stu q) (stv q), "
             "phiS := fun _ q => nb_shape_p0_discontinuous_c0_f0 (ssu q) (ssv q), "
             "K := fun τ p σ q => Ks (100 + 8 * τ + p) (200 + 8 * σ + q) τ (3 + σ) } : SingData K)")
    for k, pr in enumerate(SING_PAIRS):
        for i in range(3):
            slot = 3 * k + i
            add(f"singular_matches_trace_{k}_{i}",
                f"localSing {singD} ⟨{pr[0]}, {pr[1]}, {pr[2]}, {pr[3]}, {pr[4]}, {pr[5]}⟩ {i} 0\n      = sing_{slot}_0 {names}",
                f", sing_{slot}_0")
    # (a3) potential at the 4 evaluation points (regular quadrature points of grid t), density space dp1 on grid s
    potD = (f"({{ nq := {NQ}, w := qw, ie := ies, phi := fun j q => p1shape j (qu q) (qv q), "
            f"K := fun x σ q => Kf (10 + x) (20 + σ * {NQ} + q) 30 (20 + σ) }} : PotData K)")
    for x in range(4):
        add(f"potential_matches_trace_{x}",
            f"potential {potD} 3 [0, 1] coef {x} = pot_{x}_0 {names}", f", pot_{x}_0")
    for x in range(4):
        add(f"potential_matches_trace_segment_{x}",
            f"potential {potD} 3 [1] coef {x} = potseg_{x}_0 {names}", f", potseg_{x}_0")
    # (a4) sparse identity slots (p1 x dp0, elements [0,2]); the basis evaluators multiply by the multipliers
    spD = (f"({{ nq := {NQ}, w := qw, ie := ie, valT := fun e i q => p1shape i (qu q) (qv q) * mt e i, "
           f"valS := fun e j q => nb_shape_p0_discontinuous_c0_f0 (qu q) (qv q) * ms e j }} : SparseData K)")
    for k, e in enumerate((0, 2)):
        for i in range(3):
            add(f"identity_matches_trace_{k}_{i}",
                f"localIdentity {spD} {e} {i} 0 = ident_{3 * k + i}_0 {names}", f", ident_{3 * k + i}_0")
    # (b1) hypersingular regular = curl·curl × single layer on the element-wise constant space (C06, Laplace)
    regdp0_names = ", ".join(f"regdp0_{a}_{b}" for a in range(NE) for b in range(NE))
    for r in range(NV):
        for c in range(NV):
            terms, used0 = [], set()
            for tau in (0, 2):
                for sig in (0, 1, 2):
                    for i in range(3):
                        for j in range(3):
                            if ELEMS[i, tau] == r and ELEMS[j, sig] == c:
                                dot = " + ".join(f"curlT N JIT nmt {tau} {i} {d} * curlS N JIT nms {sig} {j} {d}" for d in range(3))
                                terms.append(f"({dot}) * (mt {tau} {i} * ms {sig} {j}) * regdp0_{tau}_{sig} "
                                             + " ".join(n if n not in ("mt", "ms") else "(fun _ _ => 1)" for n in sorted(ar)))
                                used0.add(f"regdp0_{tau}_{sig}")
            rhs = " +\n        ".join(terms) if terms else "0"
            add(f"hyp_regular_is_curl_curl_sl_{r}_{c}", f"hyp_{r}_{c} {names}\n      = {rhs}",
                f", hyp_{r}_{c}" + "".join(", " + u for u in sorted(used0)))
    # (b1m) modified Helmholtz hypersingular regular = curl·curl × V0 + ω² (n_τ·n_σ) × V1   (ω = kp 0)
    unit = " ".join(n if n not in ("mt", "ms") else "(fun _ _ => 1)" for n in sorted(ar))
    regdp1_names = ", ".join(f"regdp1_{a}_{b}" for a in range(3 * NE) for b in range(3 * NE))
    for r in range(NV):
        for c in range(NV):
            terms, used = [], []
            for tau in (0, 2):
                for sig in (0, 1, 2):
                    for i in range(3):
                        for j in range(3):
                            if ELEMS[i, tau] == r and ELEMS[j, sig] == c:
                                dot = " + ".join(f"curlT N JIT nmt {tau} {i} {d} * curlS N JIT nms {sig} {j} {d}" for d in range(3))
                                nn = " + ".join(f"(N {tau} {d} * nmt {tau}) * (N {sig} {d} * nms {sig})" for d in range(3))
                                terms.append(f"(mt {tau} {i} * ms {sig} {j}) * (({dot}) * regdp0_{tau}_{sig} {unit}"
                                             f" + kp 0 * kp 0 * ({nn}) * regdp1_{3 * tau + i}_{3 * sig + j} {unit})")
                                used += [f"regdp0_{tau}_{sig}", f"regdp1_{3 * tau + i}_{3 * sig + j}"]
            rhs = " +\n        ".join(terms) if terms else "0"
            add(f"hyp_modified_decomposition_{r}_{c}", f"mhyp_{r}_{c} {names}\n      = {rhs}",
                f", mhyp_{r}_{c}" + "".join(", " + u for u in sorted(set(used))))
    # (b1h) Helmholtz hypersingular regular = curl·curl × V0 − k² (n_τ·n_σ) × V1, k = kp 0 + i kp 1 (real and imaginary part)
    cdp0re = ", ".join(f"cregdp0re_{a}_{b}, cregdp0im_{a}_{b}" for a in range(NE) for b in range(NE))
    cdp1re = ", ".join(f"cregdp1re_{a}_{b}, cregdp1im_{a}_{b}" for a in range(3 * NE) for b in range(3 * NE))
    for part in ("re", "im"):
        for r in range(NV):
            for c in range(NV):
                terms, used = [], []
                for tau in (0, 2):
                    for sig in (0, 1, 2):
                        for i in range(3):
                            for j in range(3):
                                if ELEMS[i, tau] == r and ELEMS[j, sig] == c:
                                    dot = " + ".join(f"curlT N JIT nmt {tau} {i} {d} * curlS N JIT nms {sig} {j} {d}" for d in range(3))
                                    nn = " + ".join(f"(N {tau} {d} * nmt {tau}) * (N {sig} {d} * nms {sig})" for d in range(3))
                                    used += [f"cregdp0{part}_{tau}_{sig}", f"cregdp1re_{3 * tau + i}_{3 * sig + j}",
                                             f"cregdp1im_{3 * tau + i}_{3 * sig + j}"]
                                    v0 = f"cregdp0{part}_{tau}_{sig} {unit}"
                                    v1re = f"cregdp1re_{3 * tau + i}_{3 * sig + j} {unit}"
                                    v1im = f"cregdp1im_{3 * tau + i}_{3 * sig + j} {unit}"
                                    k2re, k2im = "(kp 0 * kp 0 - kp 1 * kp 1)", "(2 * kp 0 * kp 1)"
                                    k2v1 = (f"({k2re} * {v1re} - {k2im} * {v1im})" if part == "re"
                                            else f"({k2re} * {v1im} + {k2im} * {v1re})")
                                    terms.append(f"(mt {tau} {i} * ms {sig} {j}) * (({dot}) * {v0} - ({nn}) * {k2v1})")
                rhs = " +\n        ".join(terms) if terms else "0"
                add(f"hyp_helmholtz_decomposition_{part}_{r}_{c}", f"chyp{part}_{r}_{c} {names}\n      = {rhs}",
                    f", chyp{part}_{r}_{c}" + "".join(", " + u for u in sorted(set(used))))
    # (b2) hypersingular singular local integral = curl·curl × single layer singular local integral (dp0 x dp0)
    for k, pr in enumerate(SING_PAIRS):
        for i in range(3):
            for j in range(3):
                dot = " + ".join(f"curlT N JIT nmt {pr[0]} {i} {d} * curlS N JIT nms {pr[1]} {j} {d}" for d in range(3))
                add(f"hyp_singular_is_curl_curl_sl_{k}_{i}_{j}",
                    f"hsing_{9 * k + 3 * i + j}_0 {names} = ({dot}) * singdp0_{k}_0 {names}",
                    f", hsing_{9 * k + 3 * i + j}_0, singdp0_{k}_0")
    # (b3) boundary operator between two grids = Galerkin-tested potential (C07):  dis[r, c] =
    #      Σ_τ Σ_i [l2g τ i = r] mt τ i Σ_p w_p ie_τ φ_i(p) · Pot(x_{τ,p}; coef = column c of the trial space's full-grid map)
    for r in range(4):
        for c in range(6):
            sig, j = divmod(c, 3)
            terms = []
            for tau in (0, 1):
                for i in range(3):
                    if ELEMS_T[i, tau] == r:
                        for p in range(NQ):
                            potargs = " ".join(n if n != "coef" else f"(fun a => if a = {c} then ms {sig} {j} else 0)"
                                               for n in sorted(ar))
                            terms.append(f"mt {tau} {i} * (qw {p} * iet {tau} * p1shape {i} (qu {p}) (qv {p})) * pot_{tau * NQ + p}_0 {potargs}")
            rhs = " +\n        ".join(terms) if terms else "0"
            rhs = rhs.replace(" Kf ", " (fun x y _ ny => Kg x y ny) ")
            lhs_names = names.replace(" Kf ", " (fun x y _ ny => Kg x y ny) ")
            add(f"two_grid_operator_is_tested_potential_{r}_{c}",
                f"∀ Kg : Nat → Nat → Nat → K, dis_{r}_{c} {lhs_names}\n      = {rhs}",
                f", dis_{r}_{c}, " + ", ".join(f"pot_{x}_0" for x in range(4)))
    M += ["end BemppVerif.AsmMatch", ""]
    changed = [ch1, T.write_if_changed(os.path.join(LEAN, "BemppVerif/Gen/AsmMatchDefs.lean"), "\n".join(M))]
    imports = []
    for grp, items in sorted(groups.items()):
        mod = "AsmMatch" + "".join(w.capitalize() for w in grp.split("_"))
        body = ["-- GENERATED by props/asm_gen.py -- do not edit.", "import BemppVerif.Gen.AsmMatchDefs",
                "namespace BemppVerif.AsmMatch",
                "open BemppVerif.Model.Asm BemppVerif.Gen.AsmTraces BemppVerif.Gen.FmmKernels",
                "set_option linter.unusedVariables false", "set_option linter.unusedSimpArgs false", "", SECTION]
        body += items + ["end", "end BemppVerif.AsmMatch", ""]
        changed.append(T.write_if_changed(os.path.join(LEAN, f"BemppVerif/Gen/{mod}.lean"), "\n".join(body)))
        imports.append(f"import BemppVerif.Gen.{mod}")
    # Maxwell assemblers / potentials (props/asm_gen_mx.py) and the remaining sparse kernels (props/asm_gen_sparse.py):
    # own trace files and theorem groups, same symbolic configuration and registries
    from props import asm_gen_mx, asm_gen_sparse
    mx_info, mx_thms, mx_imports = asm_gen_mx.generate(env)
    sp_info, sp_thms, sp_imports = asm_gen_sparse.generate(env)
    imports += mx_imports + sp_imports
    thms += mx_thms + sp_thms
    changed += mx_info.pop("changed") + sp_info.pop("changed")
    changed.append(T.write_if_changed(os.path.join(LEAN, "BemppVerif/Gen/AsmMatch.lean"),
                                      "-- GENERATED by props/asm_gen.py -- do not edit.\n" + "\n".join(imports) + "\n"))
    return dict(entries=len(entries), theorems=len(thms), changed=changed, atoms=sorted(ar), groups=sorted(groups),
                maxwell=mx_info, sparse=sp_info), thms


if __name__ == "__main__":
    info, thms = generate()
    print(info)
