"""Tie B for the assembly loops: trace the real assembly functions on a small generic configuration and emit
(1) `lean/BemppVerif/Gen/AsmTraces.lean`: one Lean definition per traced result entry (atoms become applications of
    function variables: `K_3_5_0_4` ↦ `Kf 3 5 0 4`, `qw_1` ↦ `qw 1`, …),
(2) `lean/BemppVerif/Gen/AsmMatch.lean`: theorems stating that the hand-written model `Model/Asm.lean`, instantiated at
    the traced configuration, equals the traced entries (proved by unfolding + `ring`).

Configuration (same grid for test and trial): elements e0=(0,1,2), e1=(1,3,2) (edge-adjacent to e0), e2=(4,5,6) (disjoint);
2 quadrature points; test space "P1-like" (nshape 3, local2global = vertex index, symbolic multipliers), trial space
"DP0-like" (nshape 1, local2global = element index)."""
import os
import re

import numpy as np

from vlib import symtrace as st, asmtrace as at
from vlib import tables as T
from vlib.common import LEAN, GenError

ELEMS = np.array([[0, 1, 2], [1, 3, 2], [4, 5, 6]]).T
NE, NV, NQ = 3, 7, 2
_VAR = re.compile(r"^([A-Za-z]+)((?:_\d+)*)$")


def lean_term(t):
    """Like symtrace.to_lean but atoms `name_i_j` become applications `(name i j)`."""
    k = t[0]
    if k == "var":
        m = _VAR.match(t[1])
        if not m:
            raise GenError(f"unexpected atom {t[1]}")
        idx = [s for s in m.group(2).split("_") if s]
        return "(" + " ".join([m.group(1)] + idx) + ")" if idx else m.group(1)
    if k == "const":
        return st.to_lean(t)
    if k in ("add", "sub", "mul", "div"):
        return "(" + lean_term(t[1]) + {"add": " + ", "sub": " - ", "mul": " * ", "div": " / "}[k] + lean_term(t[2]) + ")"
    if k == "neg":
        return "(-" + lean_term(t[1]) + ")"
    if k == "pow":
        return "(" + lean_term(t[1]) + " ^ " + str(t[2]) + ")"
    if k == "fn":
        return "(" + t[1] + " " + lean_term(t[2]) + ")"
    raise GenError(k)


def atom_sig(terms):
    """Function-variable binders for all atoms of the given terms: {name: arity}."""
    ar = {}
    for t in terms:
        for v in st.free_vars(t):
            if v.startswith("@"):
                continue
            m = _VAR.match(v)
            n = len([s for s in m.group(2).split("_") if s])
            if ar.setdefault(m.group(1), n) != n:
                raise GenError(f"atom {m.group(1)} used with two arities")
    return ar


def binders(ar):
    out = []
    for name in sorted(ar):
        typ = " → ".join(["Nat"] * ar[name] + ["K"])
        out.append(f"({name} : {typ})")
    return " ".join(out)


class Config:
    def __init__(self):
        import bempp_cl.core.numba_kernels as nk
        import bempp_cl.api.space.shapesets as sh
        self.nk, self.sh = nk, sh
        self.grid = at.SymGrid("", ELEMS, NV)
        self.qp, self.qw = at.quad_rule(NQ)
        self.preg, self.nreg = at.Registry(), at.Registry()
        self.mt = at.atoms((NE, 3), "mt_{0}_{1}")
        self.ms = at.atoms((NE, 1), "ms_{0}_{1}")
        self.nmt = at.atoms((NE,), "nmt_{0}")
        self.nms = at.atoms((NE,), "nms_{0}")
        self.l2g_test = ELEMS.T.copy()
        self.l2g_trial = np.arange(NE).reshape(NE, 1)
        # pre-register points and normals so that ids are structured:
        #   point id   = e*NQ + q         (global image of regular quad point q on element e)
        #   normal id  = e (test normal of e, with test multiplier),  NE + e (trial normal)
        for e in range(NE):
            gp = self.grid.data.local2global(e, self.qp)
            for q in range(NQ):
                assert self.preg.point(list(gp[:, q])) == e * NQ + q
        for e in range(NE):
            assert self.nreg.point(list(self.grid.data.normals[e] * self.nmt[e])) == e
        for e in range(NE):
            assert self.nreg.point(list(self.grid.data.normals[e] * self.nms[e])) == NE + e


class Kstub(at.KernelStub):
    def __init__(self, cfg, name="Kf"):
        self.cfg, self.name, self.calls = cfg, name, 0

    def __call__(self, test_points, trial_points, test_normal, trial_normals, params):
        self.calls += 1
        c = self.cfg
        tp = np.asarray(test_points, dtype=object)
        yp = np.asarray(trial_points, dtype=object)
        tn = np.asarray(trial_normals, dtype=object)
        n = yp.shape[1]
        out = np.empty(n, dtype=object)
        nx = c.nreg.point(list(np.asarray(test_normal, dtype=object).ravel()))
        for j in range(n):
            x = c.preg.point(list(tp[:, j] if tp.ndim == 2 else tp))
            y = c.preg.point(list(yp[:, j]))
            ny = c.nreg.point(list(tn[:, j] if tn.ndim == 2 else tn))
            out[j] = st.Sym.var(f"{self.name}_{x}_{y}_{nx}_{ny}")
        return out


def trace_regular(cfg, test_elems=(0, 2), trial_elems=(0, 1, 2)):
    nk, sh = cfg.nk, cfg.sh
    result = at.zeros((NV, NE))
    K = Kstub(cfg)
    p1 = sh._SHAPESETS["p1_discontinuous"]["evaluate"].py_func
    p0 = sh._SHAPESETS["p0_discontinuous"]["evaluate"].py_func
    f = getattr(nk.default_scalar_regular_kernel, "py_func", nk.default_scalar_regular_kernel)
    with at.pyfuncs(nk):
        f(cfg.grid.data, cfg.grid.data, 3, 1, np.array(test_elems), np.array(trial_elems), cfg.mt, cfg.ms,
          cfg.l2g_test, cfg.l2g_trial, cfg.nmt, cfg.nms, cfg.qp, cfg.qw, K,
          np.array([0.0, 0.0], dtype=object), True, p1, p0, result)
    return result


def generate():
    try:
        cfg = Config()
        reg = trace_regular(cfg)
    except (st.TraceError, AssertionError, AttributeError, TypeError, IndexError, ValueError) as e:
        raise GenError(f"assembler tracing failed: {type(e).__name__}: {e}")
    entries = {}
    for r in range(NV):
        for c in range(NE):
            entries[("regular", r, c)] = st.Sym.lift(reg[r, c]).t
    ar = atom_sig(entries.values())
    B = binders(ar)
    names = " ".join(sorted(ar))
    L = ["-- GENERATED by props/asm_gen.py by tracing the assembly functions of bempp_cl/core/numba_kernels.py -- do not edit",
         "import Mathlib.Algebra.Field.Defs",
         "namespace BemppVerif.Gen.AsmTraces",
         "set_option linter.unusedVariables false",
         ""]
    for (kind, r, c), t in sorted(entries.items()):
        L.append(f"def {kind}_{r}_{c} {{K : Type}} [Field K] {B} : K :=\n  " + lean_term(t))
    L += ["end BemppVerif.Gen.AsmTraces", ""]
    ch1 = T.write_if_changed(os.path.join(LEAN, "BemppVerif/Gen/AsmTraces.lean"), "\n".join(L))
    # --- matching theorems
    M = ["-- GENERATED by props/asm_gen.py -- do not edit.  Model/Asm.lean instantiated at the traced configuration = trace.",
         "import BemppVerif.Gen.AsmTraces",
         "import BemppVerif.Gen.FmmKernels",
         "import BemppVerif.Model.Asm",
         "import Mathlib.Tactic.Ring",
         "namespace BemppVerif.AsmMatch",
         "open BemppVerif.Model.Asm BemppVerif.Gen.AsmTraces BemppVerif.Gen.FmmKernels",
         "set_option linter.unusedVariables false",
         "",
         "/-- element table of the traced configuration -/",
         "def elems : Nat → Nat → Nat := fun e i =>",
         "  match e, i with",
         ]
    for e in range(NE):
        for i in range(3):
            M.append(f"  | {e}, {i} => {int(ELEMS[i, e])}")
    M.append("  | _, _ => 0")
    M.append("/-- `elements_adjacent` on the traced configuration (computed from the element table) -/")
    adj = [[bool(set(ELEMS[:, a]) & set(ELEMS[:, b])) for b in range(NE)] for a in range(NE)]
    M.append("def adjacent : Nat → Nat → Bool := fun a b =>\n  match a, b with")
    for a in range(NE):
        for b in range(NE):
            M.append(f"  | {a}, {b} => {'true' if adj[a][b] else 'false'}")
    M.append("  | _, _ => false")
    M.append("def p1shape {K : Type} [Field K] (i : Nat) (u v : K) : K :=\n  match i with\n"
             "  | 0 => nb_shape_p1_discontinuous_c0_f0 u v\n  | 1 => nb_shape_p1_discontinuous_c0_f1 u v\n"
             "  | _ => nb_shape_p1_discontinuous_c0_f2 u v")
    M.append(f"""
section
variable {{K : Type}} [Field K] {B}

/-- the model's data record for the traced configuration -/
def regData : RegData K :=
  {{ nq := {NQ}, w := qw, ieT := ie, ieS := ie,
    phiT := fun i p => p1shape i (qu p) (qv p),
    phiS := fun _ _ => nb_shape_p0_discontinuous_c0_f0 (qu 0) (qv 0),
    K := fun τ p σ q => Kf (τ * {NQ} + p) (σ * {NQ} + q) τ ({NE} + σ),
    adjacent := adjacent }}
def testSpace : SpaceData K := ⟨3, elems, mt⟩
def trialSpace : SpaceData K := ⟨1, fun e _ => e, ms⟩
""")
    thms = []
    for (kind, r, c), t in sorted(entries.items()):
        tn = f"regular_matches_trace_{r}_{c}"
        M.append(f"theorem {tn} :\n    entry (regularLaunch (regData {names_for(ar, 'regData')}) (testSpace {names_for(ar, 'testSpace')}) "
                 f"(trialSpace {names_for(ar, 'trialSpace')}) [0, 2] [0, 1, 2]) {r} {c}\n      = {kind}_{r}_{c} {names} := by\n"
                 f"  simp [entry, regularLaunch, localReg, rsum, lsum, regData, testSpace, trialSpace, adjacent, elems, p1shape,\n"
                 f"    nb_shape_p1_discontinuous_c0_f0, nb_shape_p1_discontinuous_c0_f1, nb_shape_p1_discontinuous_c0_f2,\n"
                 f"    nb_shape_p0_discontinuous_c0_f0, List.range, List.range.loop, {kind}_{r}_{c},\n"
                 f"    -mul_eq_mul_right_iff, -mul_eq_mul_left_iff, -mul_eq_zero, -zero_eq_mul, -mul_eq_mul_left_iff]\n  try ring")
        thms.append(f"BemppVerif.AsmMatch.{tn}")
    M += ["end", "end BemppVerif.AsmMatch", ""]
    ch2 = T.write_if_changed(os.path.join(LEAN, "BemppVerif/Gen/AsmMatch.lean"), "\n".join(M))
    return dict(entries=len(entries), changed=[ch1, ch2]), thms


def names_for(ar, what):
    # section variables are auto-bound in definitions only when used; pass exactly the ones each def uses
    used = {"regData": ["Kf", "ie", "qu", "qv", "qw"], "testSpace": ["mt"], "trialSpace": ["ms"]}[what]
    return " ".join(n for n in sorted(ar) if n in used)


if __name__ == "__main__":
    print(generate())
