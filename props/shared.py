"""Shared pieces for the assembled-operator properties (C01-C08, C13, C17): cached runs of the Tie A / Tie B translators
and the names of the generated / shared theorems."""
import importlib

from vlib.common import GenError, Result

_CACHE = {}


def gen_kernels():
    if "kernels" not in _CACHE:
        from props import kernels_gen
        _CACHE["kernels"] = kernels_gen.generate()
    return _CACHE["kernels"]


def gen_asm():
    if "asm" not in _CACHE:
        from props import asm_gen
        _CACHE["asm"] = asm_gen.generate()
    return _CACHE["asm"]


def gen_sing():
    if "sing" not in _CACHE:
        from props import sing_gen
        _CACHE["sing"] = sing_gen.generate()
    return _CACHE["sing"]


def gen_c12_tables():
    if "c12" not in _CACHE:
        from props import c12_gen
        _CACHE["c12"] = c12_gen.generate()
    return _CACHE["c12"]


def gen_ctors():
    if "ctors" not in _CACHE:
        from props import ctor_gen
        _CACHE["ctors"] = ctor_gen.generate()
    return _CACHE["ctors"]


CTOR_MODULES = ["BemppVerif.Gen.CtorTable", "BemppVerif.Props.Ctors"]
CTOR_SPEC = ["BemppVerif.Ctors." + t for t in (
    "helmholtz_imag_is_modified", "helmholtz_keeps_complex_wavenumber", "no_dispatch_far_field_maxwell",
    "hypersingular_uses_single_layer_kernel", "maxwell_kernel_and_dimension", "singular_part_and_dtype")]
CTOR_TRUSTED = ("constructor tie (props/ctor_gen.py): the descriptors are recorded from the real constructors for a fixed set "
                "of wavenumber probes and parsed into the structured names of Model/Ctor.lean (round trip checked); the "
                "theorems ctor_<group> state recorded = spec for those probes, the general theorems of Props/Ctors.lean are "
                "about spec")


def ctor_theorems(*groups):
    """Generated theorems `ctor_<group>` (recorded descriptors = specification) for the given constructor groups."""
    info, thms = gen_ctors()
    return [t for t in thms if t.split(".")[-1].split("_", 1)[1] in groups]


def asm_theorems(*prefixes):
    """Names of the generated AsmMatch theorems whose short name starts with one of the prefixes."""
    info, thms = gen_asm()
    return [t for t in thms if any(t.split(".")[-1].startswith(p) for p in prefixes)]


# prefixes of the generated Maxwell theorem groups (props/asm_gen_mx.py), by the property that cites them
MX_PREFIXES = {
    # C06 (a): traced E-field blocks = closed form = -ik Σ_c R_c' V1 R_c - (1/ik) D' V0 D (regular, singular), scatter of the
    # local blocks into the edge-numbered matrix, closed forms of the traced single-layer V0 / V1; (b): complex symmetry of
    # the regular E and M blocks; closed forms of the M blocks
    "C06": ("mx_scalar_regular_closed_form", "mx_scalar_singular_closed_form", "mx_efield_regular_closed_form",
            "mx_efield_regular_decomposition", "mx_efield_regular_scatter", "mx_efield_singular_closed_form",
            "mx_efield_singular_decomposition", "mx_efield_regular_symmetric", "mx_mfield_regular_symmetric",
            "mx_mfield_regular_closed_form", "mx_mfield_singular_closed_form"),
    # C07 (c): boundary assembler on two disjoint grids vs Galerkin-tested traced potential
    "C07": ("mx_two_mfield_is_minus_tested_potential", "mx_two_efield_is_minus_tested_potential_minus_remainder",
            "mx_potential_efield_segment_closed_form", "mx_potential_mfield_segment_closed_form"),
    # C08 (d): traced potentials / far fields = closed-form kernel sums
    "C08": ("mx_potential_efield_closed_form", "mx_potential_mfield_closed_form", "mx_potential_efield_far_field_closed_form",
            "mx_potential_mfield_far_field_closed_form", "mx_potential_efield_segment_closed_form",
            "mx_potential_mfield_segment_closed_form"),
    # C13: Laplace-Beltrami local blocks
    "C13": ("sparse_lb_",),
}
MX = "BemppVerif.Mx."
MX_LEMMAS = [MX + t for t in ("efield_decomposition", "efield_decomposition_sing", "quadForm_reg", "quadForm_sing",
                              "rwgVal_interp", "rwgRef_divergence", "rwgDivIe_eq")]


def mx_theorems(pid):
    return asm_theorems(*MX_PREFIXES[pid])


K = "BemppVerif.Kernels."
KERNEL_FACTS = {
    "laplace": [K + f"laplace_{k}_{m}" for k in ("sl", "dl", "adl") for m in ("regular", "singular")],
    "modified": [K + f"modified_{k}_{m}" for k in ("sl", "dl", "adl") for m in ("regular", "singular")],
    "helmholtz": [K + f"helmholtz_{k}_{m}_{b}_{p}" for k in ("sl", "dl", "adl") for m in ("regular", "singular")
                  for b in ("im0", "imnz") for p in ("re", "im")],
    "far_field": [K + f"far_field_{k}_{p}" for k in ("sl", "dl") for p in ("re", "im")],
}
KC = "BemppVerif.KernelCalculus."
CALCULUS = {
    "laplace": [KC + "laplace_dl_is_normal_derivative", KC + "laplace_adl_is_normal_derivative"],
    "modified": [KC + "modified_dl_is_normal_derivative", KC + "modified_adl_is_normal_derivative"],
    "helmholtz": [KC + f"helmholtz_{k}_is_normal_derivative_{p}" for k in ("dl", "adl") for p in ("re", "im")],
    "pde": [KC + "laplace_radial_pde", KC + "modified_radial_pde", KC + "helmholtz_radial_pde"],
    "far_field": [KC + "far_field_limit_re", KC + "far_field_limit_im", KC + "far_field_limit_real_k_re",
                  KC + "far_field_limit_real_k_im", KC + "farfield_dist_bound"],
}
SPEC = "BemppVerif.Lemmas."


def load_oracle(pid):
    """oracle(ctx, deep) of props/<pid>_oracle.py, or None while the oracle module does not exist yet."""
    try:
        m = importlib.import_module(f"props.{pid.lower()}_oracle")
    except ModuleNotFoundError:
        return None
    return m.oracle


def sing_pairs_correspondence(ctx, res, grids_spaces):
    """Tie C for the singular bookkeeping: the real `_SingularQuadratureRuleInterfaceGalerkin.get_arrays()` index and
    offset vectors against `Model.Sing.singPairs` fed with the real adjacency tables and supports."""
    from vlib.common import run_driver
    from bempp_cl.core.singular_assembler import _SingularQuadratureRuleInterfaceGalerkin as Rule
    reqs, checks = [], []
    for label, grid, ts, ss, order in grids_spaces:
        rule = Rule(grid, order, ts, ss)
        arr = rule.get_arrays()
        real = list(zip(*[[int(v) for v in arr[k]] for k in (3, 4, 5, 6, 7, 8)]))
        ea, va = grid.edge_adjacency, grid.vertex_adjacency
        toks = [str(order), str(grid.number_of_elements)] + [str(int(b)) for b in ts] + [str(int(b)) for b in ss]
        toks += [str(ea.shape[1])] + [str(int(v)) for c in range(ea.shape[1]) for v in ea[:, c]]
        toks += [str(va.shape[1])] + [str(int(v)) for c in range(va.shape[1]) for v in va[:, c]]
        reqs.append("singpairs " + " ".join(toks))
        checks.append((label, real, order))
        # shapes of the concatenated arrays
        from bempp_cl.api.integration.duffy_galerkin import number_of_quadrature_points as nq
        tot = nq(order, "coincident") + 6 * nq(order, "edge_adjacent") + 3 * nq(order, "vertex_adjacent")
        if arr[0].shape != (2, tot) or arr[1].shape != (2, tot):
            res.disagree("concatenated singular point arrays have unexpected shape", case=label,
                         impl=list(arr[0].shape), model=[2, tot])
    if not reqs:
        return
    for (label, real, order), ans in zip(checks, run_driver(reqs)):
        t = ans.split()
        ok = t[0] == "ok" and int(t[1]) == len(real)
        if ok:
            vals = [int(v) for v in t[2:]]
            model = [tuple(vals[6 * k:6 * k + 6]) for k in range(len(real))]
            ok = model == real
        res.case(("singpairs", label), nontrivial=len(real) > 0 and any(r[0] != r[1] for r in real),
                 sample=dict(kind="singpairs", case=label, pairs=len(real), order=order))
        if not ok:
            res.disagree("singular index/offset vectors differ from the model", case=label, order=order,
                         impl=real[:4], model=ans[:200])


def trace_validation(ctx, pid):
    """Tie B validation: compiled kernels / assemblers against their traces at random numeric inputs."""
    res = Result()
    kernels_only = pid in ("C03", "C05")
    fam = {"C01": ("regular", "singular", "hyp"), "C02": ("potential",), "C04": ("regular", "singular"),
           "C06": ("hyp", "regular"), "C07": ("regular", "potential"), "C08": ("potential",), "C13": ()}.get(pid, ())
    if pid in ("C03", "C05", "C08", "C02", "C01"):
        from props import c20
        if "nb" not in c20._STATE:
            info, nb = gen_kernels()
            c20._STATE["nb"] = nb
        res.merge(c20.correspondence(ctx))
    if fam and not kernels_only:
        from props import asm_validate
        res.merge(asm_validate.validate(ctx, fam))
    mxfam = {"C06": ("mx_regular", "mx_singular"), "C07": ("mx_two", "mx_potential"), "C08": ("mx_potential",)}.get(pid, ())
    if mxfam:
        from props import asm_validate
        res.merge(asm_validate.validate_maxwell(ctx, mxfam))
    if pid == "C13":
        from props import asm_validate
        res.merge(asm_validate.validate_sparse(ctx))
    if pid in ("C01", "C04"):
        from props import asm_corr
        asm_corr.dense_correspondence(ctx, res)
    return res
