"""C01 numerical oracle: the assembled Laplace boundary operators satisfy the Calderon identities.

Checked on the REAL code (bempp_cl.api) for closed, outward oriented polyhedra from vlib/meshgen.py and affine
u(x) = a.(x - c) + b  (c = centroid of the vertices; this is every affine function, written relative to the mesh):

    g   = vertex values of u            coefficients in the whole-grid continuous space  P1
    psi = element values of a.n         coefficients in the whole-grid piecewise constants DP0
          (n = grid.normals, compared with (v1-v0)x(v2-v0) and with the outward direction as a side check)

  identity 1 (Dirichlet trace of the interior representation formula),  gamma_0 u = (1/2 I - K) g + V psi :
        (1/2 M + K) g = V psi
      I1/dp0:  M = identity(P1 -> ., dual DP0),  K = double_layer(P1, DP0, DP0),  V = single_layer(DP0, DP0, DP0)
      I1/p1 :  M = identity(P1 -> ., dual P1),   K = double_layer(P1, P1, P1),    V = single_layer(DP0, P1, P1)
      I1/dp1:  the same with dual space DP1
      (I1/p1 and I1/dp1: thorough / deep only, on a few small meshes; the quick tier checks ONE of I1/dp0, I2/p1 per run,
      drawn from ctx.rng, because every identity costs about five Numba specialisations)
    The identity holds pointwise a.e. on the surface, so it may be tested with ANY dual space D: all three matrices have
    dual_to_range = D and both sides are vectors of length D.global_dof_count (functionals on D).  The range space
    does not enter weak_form(); it is set equal to D.

  identity 2 (Neumann trace),  gamma_1 u = W g + (1/2 I + K') psi :
        W g = (1/2 M' - K') psi
      I2/p1 :  W = hypersingular(P1, P1, P1),  K' = adjoint_double_layer(DP0, P1, P1),  M' = identity(DP0 -> ., dual P1)
    W is assembled in its integrated-by-parts form  <curl phi, V curl g>, which equals <phi, W g> only for CONTINUOUS
    test functions phi on a closed surface; therefore the dual space of identity 2 is P1 only (DP0 / DP1 test functions
    would not make the identity true, and hypersingular() rejects DP0).

Both identities are exact for the exact Galerkin integrals on every polyhedron (affine traces are in the discrete
spaces), so the residual is quadrature error only.  For every mesh the matrices are assembled along the order ladder
(regular, singular) = (4,4) (6,6) (8,8) (10,10) (12,10) [(14,12) (16,14)] and for every rung the worst relative residual
||lhs - rhs||_2 / ||rhs||_2 over the affine test functions is recorded.  Criteria (calibrated on /repo, see the
`margin_*` / `worst_*` stats):

  * every rung:     residual <= RUNG_BOUND[rung]   (about 10 x the worst value seen in calibration; this is the
                    "calibrated looser bound" of the rungs below the target and what the quick tier relies on)
  * target:         residual <= 1e-6 at (12,10); a mesh that misses it there (coarse perturbed meshes: 1.0e-6 .. 2.9e-6
                    measured, pure regular-quadrature error of near element pairs) climbs on to (14,12) and (16,14) and
                    must reach 1e-6 at the last rung  ("once the orders are raised")
  * ladder:         residual[k+1] <= 1.5 residual[k]  and  residual[k+2] <= 0.3 residual[k]   unless already <= FLOOR
  * constants (a = 0):          ||(1/2 M + K) 1|| <= bound * ||1/2 M 1||   (rhs is 0 there),  ||W 1|| <= 1e-10 ||W||

Affine functions per mesh: 1 (constant), the three centred coordinate functions, and random combinations from ctx.rng
with |b| <= |a| R (R = radius of the mesh about c).  The residual is relative to ||rhs|| as in the statement; a constant
offset much larger than |a| R would multiply the (K 1 + 1/2 = 0) quadrature error by |b| / (|a| R), which the statement's
"1e-6 of the right-hand side" cannot absorb, hence the restriction on b.

Admissible shapes ("bounded aspect ratio"): smallest interior dihedral angle >= 64 degrees and smallest triangle angle >=
28 degrees (mesh_quality); a variant that violates this is regenerated without the stretch / perturbation step.  Measured
reason: on 4-element tetrahedra the residual at singular order 10 is 1e-7 for a 62 degree wedge, 8e-7 for 57 degrees
and 2.7e-5 for 50 degrees (the Duffy rules converge more slowly across sharp edges; this is quadrature, not a defect).

Cost: every identity needs about five Numba specialisations (most of the quick tier's time); the compute part is
single-threaded (numba.set_num_threads(VERIF_ORACLE_THREADS, default 1): more threads are much slower on a busy machine)
and is dominated by the pure-Python set-up of the Duffy rules, about 1 s per operator at singular order 10, 2.5 s at 12,
6 s at 14, independent of the mesh.  The budget (C01_ORACLE_BUDGET_S) is CPU time with the first mesh (compilation) not
charged.

Mesh families (counterexample keys name identity, dual space, family and the failed criterion):
    convex (tetrahedron, octahedron, cube(n), icosahedron), nonconvex (lshape), genus1 (torus_voxel),
    multi (union of two translated closed meshes; u may be a DIFFERENT affine function on each component, which is still
    harmonic in the union), each plain / perturbed / rigidly moved / relabelled / scaled / mildly stretched.
Non-trivial case (Appendix C): mesh non-convex or genus 1 or multi-component, and a != 0.

Stand-alone:  cd /verif && PYTHONPATH=/verif /venv/bin/python -m props.c01_oracle quick 0 [deep] [cal]
"""
import math
import os
import sys
import time

import numpy as np

from vlib import meshgen
from vlib.common import Ctx, Result

LADDER = [(4, 4), (6, 6), (8, 8), (10, 10), (12, 10), (14, 12), (16, 14)]
TARGET = 1e-6                         # the statement's bound ...
TARGET_RUNG = 4                       # ... is judged from (12,10) on: a mesh that has not reached it there climbs on
EXTEND_MAX_ELEMENTS = 120
# calibrated on the unchanged /repo tree: about 10 x the worst relative residual seen per rung over all mesh families /
# variants / seeds (worst seen: 2.1e-2, 4.2e-4, 3.0e-5, 1.4e-5, 2.9e-6, 2.5e-7, 5.0e-8; the `worst_<rung>` stats repeat
# the measurement on every run)
RUNG_BOUND = {(4, 4): 1.5e-1, (6, 6): 4e-3, (8, 8): 6e-4, (10, 10): 1e-4, (12, 10): 2e-5, (14, 12): 3e-6, (16, 14): 1e-6}
CONST_BOUND = dict(RUNG_BOUND)        # ||(1/2 M + K) 1|| / ||1/2 M 1||
NONINCR = 1.5                         # a rung may not be worse than 1.5 x the previous one ...
DECAY2 = 0.3                          # ... and two rungs up the residual must have shrunk to 30 % (observed <= 0.1) ...
FLOOR = 2e-7                          # ... unless it is already below this
CONST_W_TOL = 1e-10                   # ||W 1||_inf <= CONST_W_TOL * ||W||_inf  (exact in the curl-curl form)
NORMAL_TOL = 1e-12

FAMILY_NONTRIVIAL = {"nonconvex", "genus1", "multi"}


# ------------------------------------------------------------------------------------------------------------ meshes

def _stretch(V, f):
    return np.diag(f) @ V


def base_mesh(name):
    """(V, E, family, component id per vertex)."""
    if name.startswith("cube"):
        V, E = meshgen.cube(int(name[4:] or 1))
        fam = "convex"
    elif name == "lshape":
        V, E = meshgen.lshape()
        fam = "nonconvex"
    elif name == "lshape-alt":
        V, E = meshgen._voxel_surface([(0, 0, 0), (1, 0, 0), (0, 1, 0)], alt=True)
        fam = "nonconvex"
    elif name == "torus":
        V, E = meshgen.torus_voxel()
        fam = "genus1"
    elif name in ("tetrahedron", "octahedron", "icosahedron"):
        V, E = meshgen.CLOSED[name]()
        fam = "convex"
    elif name.startswith("union:"):
        parts = name[6:].split("+")
        meshes, comp, off = [], [], 0.0
        subs = [base_mesh(pn)[:2] for pn in parts]
        # consecutive components are separated by a gap of one (largest) component size
        gap = max(float(np.max(Vp.max(axis=1) - Vp.min(axis=1))) for Vp, _ in subs)
        for k, (Vp, Ep) in enumerate(subs):
            lo, hi = Vp.min(axis=1), Vp.max(axis=1)
            shift = np.array([off - lo[0], 0.3 * k - lo[1], -0.2 * k - lo[2]])
            meshes.append((Vp + shift[:, None], Ep))
            comp += [k] * Vp.shape[1]
            off += (hi[0] - lo[0]) + gap
        V, E = meshgen.union(meshes)
        return V, E, "multi", np.array(comp)
    else:
        raise ValueError(name)
    return np.asarray(V, float), np.asarray(E, np.uint32), fam, np.zeros(V.shape[1], dtype=int)


def min_edge(V, E):
    m = math.inf
    for j in range(E.shape[1]):
        p = [V[:, int(E[i, j])] for i in range(3)]
        for a, b in ((0, 1), (1, 2), (2, 0)):
            m = min(m, float(np.linalg.norm(p[a] - p[b])))
    return m


def max_edge(V, E):
    m = 0.0
    for j in range(E.shape[1]):
        p = [V[:, int(E[i, j])] for i in range(3)]
        for a, b in ((0, 1), (1, 2), (2, 0)):
            m = max(m, float(np.linalg.norm(p[a] - p[b])))
    return m


def mesh_quality(V, E):
    """(smallest interior dihedral angle between edge-adjacent faces, smallest triangle angle), in degrees."""
    edge = {}
    nrm = []
    min_tri = 180.0
    for j in range(E.shape[1]):
        t = [int(E[i, j]) for i in range(3)]
        p = [V[:, k] for k in t]
        n = np.cross(p[1] - p[0], p[2] - p[0])
        nrm.append(n / np.linalg.norm(n))
        for a in range(3):
            u, w = p[(a + 1) % 3] - p[a], p[(a + 2) % 3] - p[a]
            cosang = float(np.dot(u, w) / (np.linalg.norm(u) * np.linalg.norm(w)))
            min_tri = min(min_tri, math.degrees(math.acos(max(-1.0, min(1.0, cosang)))))
            edge.setdefault((min(t[a], t[(a + 1) % 3]), max(t[a], t[(a + 1) % 3])), []).append((j, t[(a + 2) % 3]))
    min_dih = 360.0
    for (a, b), lst in edge.items():
        if len(lst) != 2:
            continue
        (j1, o1), (j2, o2) = lst
        cosang = float(np.dot(nrm[j1], nrm[j2]))
        ang = math.degrees(math.acos(max(-1.0, min(1.0, cosang))))   # angle between outward normals
        # convex edge: the opposite vertex of face 2 lies below the plane of face 1
        convex = float(np.dot(nrm[j1], V[:, o2] - V[:, a])) <= 1e-14
        min_dih = min(min_dih, 180.0 - ang if convex else 180.0 + ang)
    return min_dih, min_tri


MIN_DIHEDRAL = 64.0     # degrees; the statement's "bounded aspect ratio": sharper wedges slow the Duffy rules down
MIN_TRI_ANGLE = 28.0    # (a stretched 4-element tetrahedron with a 50 degree wedge still has 2.7e-5 at singular order 10)


def make_mesh(name, variant, rng):
    """variant: subset of {"perturb", "rigid", "relabel", "scale", "stretch"} -> dict describing the mesh."""
    V, E, fam, comp = base_mesh(name)
    desc = [name]
    if "stretch" in variant:
        f = [1.0, rng.uniform(1.1, 1.3), rng.uniform(0.8, 0.9)]
        V = _stretch(V, f)
        desc.append("stretch(%.3f,%.3f,%.3f)" % tuple(f))
    if "perturb" in variant:
        amt = rng.uniform(0.05, 0.12) * min_edge(V, E)
        V = meshgen.perturb(V, amt, rng)
        desc.append("perturb(%.4f)" % amt)
    if "scale" in variant:
        s = math.exp(rng.uniform(math.log(0.05), math.log(20.0)))
        V = s * V
        desc.append("scale(%.4g)" % s)
    if "rigid" in variant:
        V, R, t = meshgen.rigid(V, rng)
        desc.append("rigid")
    if "relabel" in variant:
        # relabel permutes the vertices: carry the component ids along
        nv = V.shape[1]
        tag = np.vstack([V, comp[None, :].astype(float)])
        tag2, E = meshgen.relabel(tag, E, rng)
        V, comp = tag2[:3], np.rint(tag2[3]).astype(int)
        desc.append("relabel")
        assert V.shape[1] == nv
    dih, tri = mesh_quality(V, E)
    return dict(name=name, family=fam, V=np.ascontiguousarray(V), E=np.ascontiguousarray(E.astype(np.uint32)),
                comp=comp, desc=" ".join(desc), variant=sorted(variant), min_dihedral=dih, min_tri_angle=tri)


def admissible_mesh(name, variant, rng):
    """make_mesh, retried without the shape-changing steps until the quality thresholds hold."""
    variant = set(variant)
    for drop in (None, "stretch", "perturb"):
        if drop is not None:
            if drop not in variant:
                continue
            variant = variant - {drop}
        mesh = make_mesh(name, variant, rng)
        if mesh["min_dihedral"] >= MIN_DIHEDRAL and mesh["min_tri_angle"] >= MIN_TRI_ANGLE:
            return mesh
    return mesh


def check_closed_outward(V, E):
    """Independent sanity check of the input: closed 2-manifold edge count, positive signed volume per component."""
    from collections import Counter
    cnt = Counter()
    for j in range(E.shape[1]):
        t = [int(E[i, j]) for i in range(3)]
        for a, b in ((0, 1), (1, 2), (2, 0)):
            cnt[(t[a], t[b])] += 1
    for (a, b), c in cnt.items():
        if c != 1 or cnt.get((b, a), 0) != 1:
            return False
    c0 = V.mean(axis=1)
    vol = 0.0
    for j in range(E.shape[1]):
        p = [V[:, int(E[i, j])] - c0 for i in range(3)]
        vol += float(np.dot(p[0], np.cross(p[1], p[2]))) / 6.0
    return vol > 0


# ------------------------------------------------------------------------------------------------------- test functions

def affine_functions(mesh, rng, n_random):
    """List of (label, A (ncomp x 3), B (ncomp), is_const) ; u = A[comp].(x - c) + B[comp]."""
    V, comp = mesh["V"], mesh["comp"]
    ncomp = int(comp.max()) + 1
    c = V.mean(axis=1)
    R = float(np.max(np.linalg.norm(V - c[:, None], axis=0)))
    fs = [("const", np.zeros((ncomp, 3)), np.ones(ncomp))]
    for i in range(3):
        a = np.zeros(3)
        a[i] = 1.0 / R
        fs.append(("coord%d" % i, np.tile(a, (ncomp, 1)), np.zeros(ncomp)))
    for k in range(n_random):
        A = np.zeros((ncomp, 3))
        B = np.zeros(ncomp)
        for q in range(ncomp):
            a = np.array([rng.gauss(0, 1) for _ in range(3)])
            a /= np.linalg.norm(a) * R
            A[q] = a
            B[q] = rng.uniform(-1, 1)
        if k != 0:
            # only the first random function is an independent affine function on every component
            A[:], B[:] = A[0], B[0]
        fs.append(("rand%d" % k, A, B))
    return fs, c, R


def traces(grid, mesh, A, B, c, P1, D0):
    """P1 coefficient vector of u and DP0 coefficient vector of du/dn, through the spaces' own dof maps."""
    V, comp = mesh["V"], mesh["comp"]
    uv = np.einsum("ij,ji->i", A[comp], V - c[:, None]) + B[comp]
    g = np.zeros(P1.global_dof_count)
    l2g = P1.local2global
    for e in range(grid.number_of_elements):
        for i in range(3):
            g[l2g[e, i]] = uv[grid.elements[i, e]]
    normals = grid.normals
    ecomp = comp[grid.elements[0, :]]
    psi = np.zeros(D0.global_dof_count)
    for e in range(grid.number_of_elements):
        psi[D0.local2global[e, 0]] = float(np.dot(A[ecomp[e]], normals[e]))
    return g, psi


# ------------------------------------------------------------------------------------------------------------ assembly

def _params(api, reg, sing):
    import copy
    p = copy.deepcopy(api.GLOBAL_PARAMETERS)
    p.quadrature.regular = reg
    p.quadrature.singular = sing
    return p


class Assembled:
    """All matrices of one mesh at one rung for the requested identities."""

    def __init__(self, api, spaces, idents, reg, sing, use_global):
        from bempp_cl.api.operators.boundary import laplace, sparse
        P1, D0, D1 = spaces["p1"], spaces["dp0"], spaces.get("dp1")
        old = None
        if use_global:
            q = api.GLOBAL_PARAMETERS.quadrature
            old = (q.regular, q.singular)
            q.regular, q.singular = reg, sing
            p = None
        else:
            p = _params(api, reg, sing)
        def dense(op):
            return np.asarray(op.weak_form().to_dense())

        try:
            self.m = {}
            for ident in idents:
                if ident.startswith("I1/"):
                    D = {"dp0": D0, "p1": P1, "dp1": D1}[ident[3:]]
                    self.m[ident] = dict(
                        M=dense(sparse.identity(P1, D, D, parameters=p)),
                        K=dense(laplace.double_layer(P1, D, D, parameters=p)),
                        V=dense(laplace.single_layer(D0, D, D, parameters=p)))
                elif ident == "I2/p1":
                    self.m[ident] = dict(
                        W=dense(laplace.hypersingular(P1, P1, P1, parameters=p)),
                        Kt=dense(laplace.adjoint_double_layer(D0, P1, P1, parameters=p)),
                        Mt=dense(sparse.identity(D0, P1, P1, parameters=p)))
                else:
                    raise ValueError(ident)
        finally:
            if old is not None:
                q.regular, q.singular = old


def residuals(mats, ident, g, psi, is_const):
    m = mats.m[ident]
    if ident.startswith("I1/"):
        half = 0.5 * (m["M"] @ g)
        lhs = half + m["K"] @ g
        rhs = m["V"] @ psi
        scale = np.linalg.norm(half) if is_const else np.linalg.norm(rhs)
    else:
        lhs = m["W"] @ g
        rhs = 0.5 * (m["Mt"] @ psi) - m["Kt"] @ psi
        if is_const:
            scale = float(np.max(np.abs(m["W"]))) * np.linalg.norm(g)
        else:
            scale = np.linalg.norm(rhs)
    d = lhs - rhs
    return float(np.linalg.norm(d)) / float(scale), d, lhs, rhs


def singular_case_coverage(grid):
    """Which (test local edge, trial local edge) / shared-vertex cases of the Duffy remap the grid exercises."""
    ea, va = grid.edge_adjacency, grid.vertex_adjacency
    edge = set()
    for k in range(ea.shape[1]):
        edge.add((int(ea[2, k]), int(ea[3, k]), int(ea[4, k]), int(ea[5, k])))
    vert = set()
    for k in range(va.shape[1]):
        vert.add((int(va[2, k]), int(va[3, k])))
    return edge, vert


# -------------------------------------------------------------------------------------------------------------- oracle

def _plan(ctx, deep):
    """[(mesh name, variant set, top rung index, climb on until 1e-6)]; entries are run while the time budget permits."""
    rng = ctx.rng
    var_pool = [{"perturb"}, {"rigid"}, {"relabel"}, {"perturb", "rigid", "relabel"}, {"scale", "relabel"},
                {"stretch", "perturb"}, {"perturb", "relabel", "scale"}]
    if not ctx.thorough and not deep:
        # quick: a non-convex and a convex small mesh on the full ladder (climbing on until 1e-6), a genus-1 /
        # multi-component one and a fourth one up to (10,10) with the calibrated bound
        nontriv = rng.choice(["lshape", "lshape-alt"])
        second = rng.choice(["torus", "union:tetrahedron+octahedron", "union:cube1+tetrahedron"])
        convex = rng.choice(["tetrahedron", "octahedron", "cube1", "icosahedron"])
        third = rng.choice(["cube2", "union:lshape+icosahedron", "lshape", "cube1"])
        return [
            (nontriv, set(rng.choice(var_pool[:5])) | {"relabel"}, 4, True),
            (convex, set(rng.choice(var_pool)), 4, True),
            (second, set(rng.choice(var_pool[:4])), 3, False),
            (third, set(rng.choice(var_pool)), 3, False),
        ]
    names = ["tetrahedron", "octahedron", "cube1", "icosahedron", "lshape", "lshape-alt", "torus", "cube2",
             "union:tetrahedron+octahedron", "union:cube1+tetrahedron", "union:lshape+icosahedron", "cube3"]
    if deep:
        plan = []
        for nm in names + ["union:torus+cube1", "cube4"]:
            plan.append((nm, set(), 4, True))
            for v in rng.sample(var_pool, 4):
                plan.append((nm, set(v), 4, True))
        return plan
    # thorough: every base mesh once on the full ladder (climbing on until 1e-6) with a random variant (or none), then
    # further random variants up to (10,10) with the calibrated bound only; shuffled so that a budget cut is not
    # systematic, but a non-trivial mesh comes first
    full = [(nm, set(rng.choice(var_pool + [set(), set()])), 4, True) for nm in names]
    rng.shuffle(full)
    full.sort(key=lambda p_: 0 if p_[0] in ("lshape", "lshape-alt") else 1)
    more = [(nm, set(rng.choice(var_pool)), 3, False) for nm in rng.sample(names, 8)]
    return full + more


def oracle(ctx, deep=False, cal=False, only=None):
    import numba
    import bempp_cl.api as api

    res = Result()
    t_start = time.time()
    c_start = time.process_time()
    rng = ctx.rng
    old_threads = numba.get_num_threads()
    numba.set_num_threads(max(1, min(old_threads, int(os.environ.get("VERIF_ORACLE_THREADS", "1")))))
    budget = float(os.environ.get("C01_ORACLE_BUDGET_S", "0")) or (ctx.pick(45.0, 600.0) if not deep else 3000.0)
    # every identity costs about 5 Numba specialisations (the JIT is most of the quick tier's time): quick checks ONE of
    # the two identities, drawn from ctx.rng (C01_IDENTS overrides), thorough / deep both plus the extra dual spaces
    if os.environ.get("C01_IDENTS"):
        idents = os.environ["C01_IDENTS"].split(",")
    elif ctx.thorough or deep:
        idents = ["I1/dp0", "I2/p1"]
    else:
        idents = [rng.choice(["I1/dp0", "I2/p1"])]
    extra_idents = ["I1/p1", "I1/dp1"] if (ctx.thorough or deep) else []
    n_random = ctx.pick(2, 3) if not deep else 5
    worst = {}      # (ident, rung) -> worst residual (non-constant functions)
    worst_const = {}
    reached, climbed, final_worst = {}, {}, {}
    n_extra, max_extra = 0, (4 if not deep else 1000)
    jit_cpu = 0.0   # CPU time dominated by Numba compilation (the whole first mesh: grid, spaces, operators; later the
    #                 first rung of a mesh beyond 1 s): not charged to the budget
    edge_cov, vert_cov = set(), set()
    plan = _plan(ctx, deep)
    if only:
        plan = [p for p in plan if p[0] in only]
    if os.environ.get("C01_FORCE_TOP"):      # calibration aid: climb to this rung index on every mesh
        plan = [(n_, v_, int(os.environ["C01_FORCE_TOP"]), e_) for (n_, v_, t_, e_) in plan]
    if os.environ.get("C01_NO_EXTRA"):
        extra_idents = []
    done = 0
    try:
        for (name, variant, top, extend) in plan:
            if done >= 1 and time.process_time() - c_start - jit_cpu > budget:
                res.notes.append(f"CPU-time budget {budget:.0f}s (JIT excluded) reached after {done}/{len(plan)} meshes")
                break
            mesh = admissible_mesh(name, variant, rng)
            V, E = mesh["V"], mesh["E"]
            if not check_closed_outward(V, E):
                res.notes.append(f"generator produced a mesh that is not closed/outward: {mesh['desc']} (skipped)")
                continue
            grid = api.Grid(V, E)
            # side check: the code's normals are the right-handed unit normals (the statement's "outward oriented")
            nrm = grid.normals
            p0, p1, p2 = (V[:, E[i, :].astype(int)] for i in range(3))
            nu = np.cross((p1 - p0).T, (p2 - p0).T)
            nu /= np.linalg.norm(nu, axis=1)[:, None]
            if np.max(np.abs(nu - nrm)) > NORMAL_TOL:
                res.counterexample("grid-normals-not-right-handed-unit-normals",
                                   f"grid.normals differ from (v1-v0)x(v2-v0)/|.| by {np.max(np.abs(nu - nrm)):.2e}",
                                   mesh=mesh["desc"])
            spaces = dict(p1=api.function_space(grid, "P", 1), dp0=api.function_space(grid, "DP", 0))
            these = list(idents)
            # the extra dual spaces of identity 1 cost six more JIT specialisations and 6 more singular rule set-ups per
            # rung: thorough / deep only, on a few of the small meshes
            if extra_idents and grid.number_of_elements <= 30 and extend and n_extra < max_extra:
                spaces["dp1"] = api.function_space(grid, "DP", 1)
                these += extra_idents
                n_extra += 1
            ec, vc = singular_case_coverage(grid)
            edge_cov |= ec
            vert_cov |= vc
            fs, c, R = affine_functions(mesh, rng, n_random)
            tr = [(lab, A, B) + traces(grid, mesh, A, B, c, spaces["p1"], spaces["dp0"]) for (lab, A, B) in fs]
            per_rung = {ident: [] for ident in these}
            per_rung_const = {ident: [] for ident in these}
            const_fail = {}
            t_mesh, c_mesh = time.time(), time.process_time()
            ri = 0
            last = top
            while ri <= last:
                reg, sing = LADDER[ri]
                # alternate between an explicit parameter object and the global parameters (both routes are public API)
                c_rung = time.process_time()
                mats = Assembled(api, spaces, these, reg, sing, use_global=(ri % 2 == 1))
                if ri == 0 and done > 0:
                    jit_cpu += max(0.0, time.process_time() - c_rung - 1.0)
                for ident in these:
                    w, wdet = 0.0, None
                    for (lab, A, B, g, psi) in tr:
                        is_const = lab == "const"
                        r, d, lhs, rhs = residuals(mats, ident, g, psi, is_const)
                        nontriv = mesh["family"] in FAMILY_NONTRIVIAL and not is_const
                        res.case(("c01", ident, mesh["family"], name, tuple(mesh["variant"]), lab, reg, sing),
                                 nontrivial=nontriv,
                                 sample=dict(mesh=mesh["desc"], identity=ident, orders=[reg, sing], function=lab,
                                             relative_residual=r) if (ri == top and lab == "rand0") else None)
                        if is_const:
                            key = (ident, LADDER[ri])
                            worst_const[key] = max(worst_const.get(key, 0.0), r)
                            per_rung_const[ident].append(r)
                            bound = CONST_W_TOL if ident == "I2/p1" else CONST_BOUND[LADDER[ri]]
                            if r > bound:
                                const_fail[ident] = (reg, sing, r, bound, lab, A, B, d, lhs, rhs)   # highest rung wins
                            continue
                        if r > w:
                            w, wdet = r, (lab, A, B, d, lhs, rhs)
                    per_rung[ident].append((w, wdet))
                    key = (ident, LADDER[ri])
                    worst[key] = max(worst.get(key, 0.0), w)
                if cal:
                    ctx.log("cal", mesh["desc"], "dih=%.0f tri=%.0f" % (mesh["min_dihedral"], mesh["min_tri_angle"]),
                            grid.number_of_elements, LADDER[ri],
                            " ".join("%s=%.2e" % (i_, per_rung[i_][-1][0]) for i_ in these), "const",
                            " ".join("%.1e" % per_rung_const[i_][-1] for i_ in these),
                            "cpu %.1fs" % (time.process_time() - c_mesh))
                # "once the orders are raised": if the statement's 1e-6 is not reached at (12,10) keep climbing (the
                # extension rungs cost 2x / 4x the singular work of (12,10), so only on meshes of moderate size)
                if (ri == last and extend and ri >= TARGET_RUNG and ri + 1 < len(LADDER)
                        and grid.number_of_elements <= EXTEND_MAX_ELEMENTS
                        and TARGET < max(per_rung[i_][-1][0] for i_ in these) <= RUNG_BOUND[LADDER[ri]]):
                    # (a residual above the rung's calibrated bound is reported as it is: no point in climbing on)
                    last += 1
                ri += 1
            # criteria (one counterexample per identity and kind of failure: the highest failing rung is reported)
            for ident in these:
                seq = per_rung[ident]
                lad = [s_[0] for s_ in seq]
                nr = len(seq)
                ok_idx = [ri for ri in range(nr) if seq[ri][1] is not None]
                bad_bound = [ri for ri in ok_idx if seq[ri][0] > RUNG_BOUND[LADDER[ri]]]
                bad_incr = [ri for ri in ok_idx if ri >= 1 and seq[ri][0] > FLOOR and seq[ri][0] > NONINCR * seq[ri - 1][0]]
                bad_decay = [ri for ri in ok_idx if ri >= 2 and seq[ri][0] > FLOOR and seq[ri][0] > DECAY2 * seq[ri - 2][0]]
                # (a mesh within the size limit has climbed to the end of LADDER when the target is still missed)
                bad_top = (extend and nr - 1 >= TARGET_RUNG and seq[-1][1] is not None and seq[-1][0] > TARGET
                           and grid.number_of_elements <= EXTEND_MAX_ELEMENTS)
                for what, bad, bnd in (("rung-residual", bad_bound, lambda ri: RUNG_BOUND[LADDER[ri]]),
                                       ("ladder-increasing", bad_incr, lambda ri: NONINCR * seq[ri - 1][0]),
                                       ("ladder-not-decreasing", bad_decay, lambda ri: DECAY2 * seq[ri - 2][0]),
                                       ("top-rung-residual", [nr - 1] if bad_top else [], lambda ri: TARGET)):
                    if not bad:
                        continue
                    ri = bad[-1]
                    lab, A, B, d, lhs, rhs = seq[ri][1]
                    _report(res, mesh, ident, what, LADDER[ri][0], LADDER[ri][1], seq[ri][0], bnd(ri), lab, A, B, c, d,
                            lhs, rhs, ladder=lad, failing=[list(LADDER[i]) for i in bad])
                if ident in const_fail:
                    reg, sing, r, bound, lab, A, B, d, lhs, rhs = const_fail[ident]
                    _report(res, mesh, ident, "constants", reg, sing, r, bound, lab, A, B, c, d, lhs, rhs,
                            ladder=per_rung_const[ident])
                if len(seq) - 1 >= TARGET_RUNG and extend:
                    reached[ident] = reached.get(ident, 0) + (1 if seq[-1][0] <= TARGET else 0)
                    climbed[ident] = max(climbed.get(ident, 0), len(seq) - 1)
                    final_worst[ident] = max(final_worst.get(ident, 0.0), seq[-1][0])
            done += 1
            if done == 1:
                jit_cpu = time.process_time() - c_start
            ctx.log(f"C01 oracle: {mesh['desc']} ({grid.number_of_elements} el, {mesh['family']}, dihedral "
                    f"{mesh['min_dihedral']:.0f}) top {LADDER[len(per_rung[these[0]]) - 1]}: "
                    + " ".join("%s=%.1e" % (i_, per_rung[i_][-1][0]) for i_ in these)
                    + f"  [{time.time() - t_mesh:.1f}s wall, {time.process_time() - c_mesh:.1f}s cpu]")
    finally:
        numba.set_num_threads(old_threads)
    for (ident, rung), w in sorted(worst.items()):
        tag = f"{ident}_r{rung[0]}s{rung[1]}"
        res.stats[f"worst_{tag}"] = float("%.3e" % w)
        res.stats[f"margin_{tag}"] = float("%.3g" % (RUNG_BOUND[rung] / w)) if w > 0 else float("inf")
    for (ident, rung), w in sorted(worst_const.items()):
        res.stats[f"worst_const_{ident}_r{rung[0]}s{rung[1]}"] = float("%.3e" % w)
    for ident in reached:
        res.stats[f"meshes_reaching_1e-6_{ident}"] = reached[ident]
        res.stats[f"highest_rung_needed_{ident}"] = "r%ds%d" % LADDER[climbed[ident]]
        res.stats[f"worst_at_final_rung_{ident}"] = float("%.3e" % final_worst[ident])
        res.stats[f"margin_target_1e-6_{ident}"] = float("%.3g" % (TARGET / final_worst[ident])) if final_worst[ident] else float("inf")
    res.stats["meshes"] = done
    res.stats["edge_remap_cases_seen"] = len({(a, b) for (a, b, _, _) in edge_cov} | {(c_, d_) for (_, _, c_, d_) in edge_cov})
    res.stats["vertex_remap_cases_seen"] = len({a for (a, _) in vert_cov} | {b for (_, b) in vert_cov})
    res.stats["oracle_wall_s"] = round(time.time() - t_start, 1)
    res.stats["oracle_cpu_s"] = round(time.process_time() - c_start, 1)
    res.stats["of_which_jit_cpu_s"] = round(jit_cpu, 1)
    return res


_FAIL_TEXT = {
    "top-rung-residual": "residual at the top quadrature orders exceeds the bound",
    "rung-residual": "residual exceeds the calibrated bound of this rung",
    "ladder-not-decreasing": "residual does not shrink (to 30 % over two rungs) when the quadrature orders are raised",
    "ladder-increasing": "residual grows when the quadrature orders are raised",
    "constants": "constant function: (1/2 M + K) 1 = 0 resp. W 1 = 0 violated",
}
_IDENT_KEY = {"I1/dp0": "calderon1-halfM+K=V-p1-dp0-dual-dp0", "I1/p1": "calderon1-halfM+K=V-p1-dp0-dual-p1",
              "I1/dp1": "calderon1-halfM+K=V-p1-dp0-dual-dp1", "I2/p1": "calderon2-W=halfMt-Kt-p1-dp0-dual-p1"}


def _report(res, mesh, ident, what, reg, sing, r, bound, lab, A, B, c, d, lhs, rhs, ladder=None, failing=None):
    key = f"laplace-{_IDENT_KEY[ident]}-{mesh['family']}-{what}"
    if any(cx["key"] == key for cx in res.counterexamples) and len(res.counterexamples) > 40:
        return
    j = int(np.argmax(np.abs(d)))
    det = dict(mesh=mesh["desc"], family=mesh["family"], elements=int(mesh["E"].shape[1]), orders=[reg, sing],
               function=lab, a=np.round(A, 12).tolist(), b=np.round(B, 12).tolist(), centre=c.tolist(),
               relative_residual=r, bound=bound, worst_row=j, lhs_at_row=float(lhs[j]), rhs_at_row=float(rhs[j]))
    if ladder is not None:
        det["ladder"] = [float("%.3e" % x) for x in ladder]
    if failing is not None:
        det["failing_rungs"] = failing
    if mesh["E"].shape[1] <= 48:
        det["vertices"] = mesh["V"].tolist()
        det["elements"] = mesh["E"].tolist()
    res.counterexample(
        key,
        f"{ident} on {mesh['desc']} ({mesh['family']}), u={lab}, orders ({reg},{sing}): {_FAIL_TEXT[what]}: "
        f"{r:.3e} > {bound:.3e}", **det)


if __name__ == "__main__":
    tier = sys.argv[1] if len(sys.argv) > 1 else "quick"
    seed = int(sys.argv[2]) if len(sys.argv) > 2 else 0
    deep = "deep" in sys.argv[3:]
    cal = "cal" in sys.argv[3:]
    only = next((a[5:].split(",") for a in sys.argv[3:] if a.startswith("only=")), None)
    ctx = Ctx("C01", tier, seed)
    t = time.time()
    r = oracle(ctx, deep=deep, cal=cal, only=only)
    print("cases", r.evaluations, "nontrivial", len(r.nontrivial))
    for k_, v_ in r.stats.items():
        print("  stat", k_, v_)
    for n_ in r.notes:
        print("  note", n_)
    for s_ in r.samples[:3]:
        print("  sample", s_)
    for c_ in r.counterexamples:
        c2 = {k_: v_ for k_, v_ in c_.items() if k_ not in ("vertices", "elements")}
        print("COUNTEREXAMPLE", c2)
    print(f"wall {time.time() - t:.1f}s (incl. import), counterexamples {len(r.counterexamples)}")
    sys.exit(1 if r.counterexamples else 0)
