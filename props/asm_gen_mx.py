"""Tie B for the Maxwell assemblers (extends props/asm_gen.py; same configurations, same registries).

Traced (undecorated `py_func`, symbolic geometry / weights / multipliers / wavenumber / kernel values):
  maxwell_efield_regular_assembler, maxwell_mfield_regular_assembler      (same grid and two disjoint grids)
  maxwell_efield_singular, maxwell_mfield_singular
  maxwell_efield_potential, maxwell_mfield_potential, maxwell_efield_far_field, maxwell_mfield_far_field
with the REAL `get_piola_transform`, `get_edge_lengths`, `get_global_points`, `local2global`, and, under the same kernel
stub, the real `default_scalar_regular_kernel` / `default_scalar_singular_kernel` on the element-wise constant and
element-wise linear spaces (V0 / V1 of the decomposition).

* While tracing, the module global `_np` of numba_kernels is a proxy (`tracing`):
  - `linalg.norm` (only used by `get_edge_lengths`): the norm of a vector whose components are `V_a_c - V_b_c` (c = 0,1,2)
    is the atom `el_a_b` (`EDGE_ATOMS`; the numeric validation gives it the value sqrt of the sum of squares).  An edge
    length is thus named by the ORDERED vertex pair the source subtracts: a wrong pair or a wrong edge index is a different
    atom.  Any other argument is traced as `sqrt(sum of squares)`.
  - `sqrt` of `(x0-y0)² + (x1-y1)² + (x2-y2)²` for two REGISTERED points x, y is the atom `dst_x_y` (`DIST_ATOMS`), anything
    else is the uninterpreted function `sqrt`.
  A trace that still contains an uninterpreted function is rejected (GenError): the theorems would not mean anything.
* The Maxwell assemblers call the kernel evaluator with `None` normals; the stub `Gstub` returns the complex atom
  `Gcre_x_y + i Gcim_x_y` (x, y: ids of the registered points) and ignores normals, so the scalar assemblers traced
  with the same stub are directly comparable.  In this source tree all Maxwell kernels receive the SCALAR Helmholtz
  kernel and build the gradient themselves as `G * (ik d - 1) / d^2 * (x - y)`: there is no gradient-valued evaluator.
* The wavenumber is `kp_0 + i kp_1`.

Lean output (see `generate`):
  Gen/AsmTracesMaxwell<Pool>.lean   traced entries (re / im parts) with common-subexpression definitions; the traced values
                                    of `get_piola_transform` / `local2global` get their own definitions `pio* / pt*` and a
                                    lemma (rfl) identifying them with `Mx.piola` / `Mx.pt` of Lemmas/Maxwell.lean
  Gen/AsmMatchMaxwell<Group>N.lean  theorems between pairs `CP K` (Lemmas/CPair.lean); proof: `simp only` (unfold the traced
                                    definitions, fold piola / pt, split into components) then `mx_finish`
                                    (Lemmas/MaxwellTactic.lean: `generalize_atoms [piola, pt]; ring` per component)
"""
import contextlib
import os

import numpy as np

from vlib import symtrace as st, asmtrace as at
from vlib import tables as T
from vlib.common import LEAN, GenError
from props import asm_gen as ag

NQ, NE = ag.NQ, ag.NE
ELEMS, ELEMS_T, ELEMS_S = ag.ELEMS, ag.ELEMS_T, ag.ELEMS_S
EDGE_LOCAL = ((0, 1), (2, 0), (1, 2))   # vertex pairs subtracted by get_edge_lengths for local edge 0, 1, 2
EDGE_ATOMS = {}                          # atom name -> (tag, a, b): el<tag>_a_b = |V<tag>_a - V<tag>_b|


def _norm(x, ord=None, axis=None, keepdims=False):
    v = np.asarray(x, dtype=object).ravel()
    if ord is not None or axis is not None or keepdims:
        raise st.TraceError("numpy.linalg.norm called with options during tracing")
    pair = None
    for c, comp in enumerate(v):
        t = st.Sym.lift(comp).t
        ok = (t[0] == "sub" and t[1][0] == "var" and t[2][0] == "var")
        if ok:
            ma, mb = ag._VAR.match(t[1][1]), ag._VAR.match(t[2][1])
            ok = bool(ma and mb and ma.group(1) == mb.group(1) and ma.group(1).startswith("V"))
        if ok:
            ia, ib = ma.group(2).split("_")[1:], mb.group(2).split("_")[1:]
            ok = len(ia) == 2 and len(ib) == 2 and int(ia[1]) == c and int(ib[1]) == c
        if not ok:
            pair = None
            break
        this = (ma.group(1)[1:], int(ia[0]), int(ib[0]))
        if pair is not None and pair != this:
            pair = None
            break
        pair = this
    if pair is not None and len(v) == 3:
        name = f"el{pair[0]}_{pair[1]}_{pair[2]}"
        EDGE_ATOMS[name] = pair
        return st.Sym.var(name)
    s = 0
    for comp in v:
        s = s + comp * comp
    return st.Sym.lift(s).sqrt()


DIST_ATOMS = {}                          # atom name -> (x, y): dst_x_y = sqrt(|P_x - P_y|^2), P = registered points


def _make_sqrt(env):
    """`_np.sqrt` while tracing: sqrt of `(x0-y0)*(x0-y0) + (x1-y1)*(x1-y1) + (x2-y2)*(x2-y2)` with x, y two REGISTERED
    points (ids of env.preg) is the atom `dst_x_y`; anything else is traced as the uninterpreted function `sqrt`."""

    def one(v):
        s = st.Sym.lift(v)
        t = s.t
        try:
            (h1, (h2, m0, m1), m2) = t
            if (h1, h2) != ("add", "add"):
                raise ValueError
            xs, ys = [], []
            for m in (m0, m1, m2):
                if m[0] != "mul" or m[1] != m[2] or m[1][0] != "sub":
                    raise ValueError
                xs.append(st.show(m[1][1]))
                ys.append(st.show(m[1][2]))
            x, y = env.preg.ids.get(tuple(xs)), env.preg.ids.get(tuple(ys))
            if x is None or y is None:
                raise ValueError
        except (ValueError, TypeError):
            return s.sqrt()
        name = f"dst_{x}_{y}"
        DIST_ATOMS[name] = (x, y)
        return st.Sym.var(name)

    def sqrt(a):
        if isinstance(a, np.ndarray):
            out = np.empty(a.shape, dtype=object)
            for idx in np.ndindex(*a.shape):
                out[idx] = one(a[idx])
            return out
        return one(a)

    return sqrt


class _Proxy:
    def __init__(self, target, **over):
        self.__dict__["_t"], self.__dict__["_o"] = target, over

    def __getattr__(self, name):
        o = self.__dict__["_o"]
        return o[name] if name in o else getattr(self.__dict__["_t"], name)


@contextlib.contextmanager
def tracing(env):
    """py_funcs for the module-global dispatchers + a proxy for the module global `_np` whose linalg.norm and sqrt are
    symbolic (see the module docstring)."""
    nk = env.nk
    real = nk._np
    with at.pyfuncs(nk):
        nk._np = _Proxy(real, linalg=_Proxy(real.linalg, norm=_norm), sqrt=_make_sqrt(env))
        try:
            yield
        finally:
            nk._np = real


def rwg_l2g(elems):
    """local2global of the lowest-order edge space: local function i <-> local edge i (EDGE_LOCAL), global index in
    order of first appearance."""
    ids, out = {}, np.zeros((elems.shape[1], 3), dtype=np.int64)
    for e in range(elems.shape[1]):
        for i, (a, b) in enumerate(EDGE_LOCAL):
            key = tuple(sorted((int(elems[a, e]), int(elems[b, e]))))
            out[e, i] = ids.setdefault(key, len(ids))
    return out


class MxSpace:
    """RWG-like space data: 3 local functions per element; l2g either the edge numbering or element-wise (3e+i)."""

    def __init__(self, elems, role, glob=True):
        ne = elems.shape[1]
        self.nshape = 3
        self.l2g = rwg_l2g(elems) if glob else np.arange(3 * ne).reshape(ne, 3)
        self.ndofs = int(self.l2g.max()) + 1
        self.mult = at.atoms((ne, 3), ("mt" if role == "test" else "ms") + "_{0}_{1}")


class Gstub:
    """Complex kernel stub that ignores normals (the Maxwell assemblers pass None): G(x, y) = Gcre_x_y + i Gcim_x_y."""

    def __init__(self, env, name="Gc"):
        self.env, self.name, self.calls = env, name, 0

    def __call__(self, test_points, trial_points, test_normal, trial_normals, params):
        self.calls += 1
        c = self.env
        tp = np.asarray(test_points, dtype=object)
        yp = np.asarray(trial_points, dtype=object)
        n = yp.shape[1]
        out = np.empty(n, dtype=object)
        for j in range(n):
            x = c.preg.point(list(tp[:, j] if tp.ndim == 2 else tp))
            y = c.preg.point(list(yp[:, j]))
            out[j] = st.CSym(st.Sym.var(f"{self.name}re_{x}_{y}"), st.Sym.var(f"{self.name}im_{x}_{y}"))
        return out


def wavenumber():
    kp = np.empty(2, dtype=object)
    kp[0], kp[1] = st.Sym.var("kp_0"), st.Sym.var("kp_1")
    return kp


def _py(f):
    return getattr(f, "py_func", f)


def trace_mx_regular(env, fname, two_grids=False, glob=True, test_elems=(0, 2), trial_elems=(0, 1, 2)):
    nk = env.nk
    if two_grids:
        gT, gS, eT, eS = env.gt, env.gs, ELEMS_T, ELEMS_S
        test_elems, trial_elems = (0, 1), (0, 1)
    else:
        gT = gS = env.g
        eT = eS = ELEMS
    Tsp, Ssp = MxSpace(eT, "test", glob), MxSpace(eS, "trial", glob)
    result = at.zeros((Tsp.ndofs, Ssp.ndofs))
    with tracing(env):
        _py(getattr(nk, fname))(gT.data, gS.data, 3, 3, np.array(test_elems), np.array(trial_elems), Tsp.mult, Ssp.mult,
                                Tsp.l2g, Ssp.l2g, env.nmt, env.nms, env.qp, env.qw, Gstub(env), wavenumber(),
                                not two_grids, None, None, result)
    return result, Tsp, Ssp


def trace_scalar_regular(env, kind):
    """default_scalar_regular_kernel on the element-wise constant / linear space (unit multipliers are substituted in
    the theorems; the trace keeps symbolic ones) with the Maxwell stub."""
    nk = env.nk
    Tsp, Ssp = ag.Space(kind, ELEMS, "test"), ag.Space(kind, ELEMS, "trial")
    result = at.zeros((Tsp.ndofs, Ssp.ndofs))
    with tracing(env):
        _py(nk.default_scalar_regular_kernel)(env.g.data, env.g.data, Tsp.nshape, Ssp.nshape, np.array((0, 2)),
                                              np.array((0, 1, 2)), Tsp.mult, Ssp.mult, Tsp.l2g, Ssp.l2g, env.nmt, env.nms,
                                              env.qp, env.qw, Gstub(env), wavenumber(), True, env.shape(Tsp), env.shape(Ssp),
                                              result)
    return result


def trace_mx_singular(env, fname):
    nk = env.nk
    P = np.array(ag.SING_PAIRS)
    result = at.zeros((9 * len(ag.SING_PAIRS),))
    with tracing(env):
        _py(getattr(nk, fname))(env.g.data, env.stp, env.ssp, env.sw, P[:, 0], P[:, 1], P[:, 2], P[:, 3], P[:, 4], P[:, 5],
                                env.nmt, env.nms, 3, 3, env.shape(ag.Space("dp1", ELEMS, "test")),
                                env.shape(ag.Space("dp1", ELEMS, "trial")), Gstub(env), wavenumber(), result)
    return result


def trace_scalar_singular(env, kind):
    nk = env.nk
    Tsp, Ssp = ag.Space(kind, ELEMS, "test"), ag.Space(kind, ELEMS, "trial")
    P = np.array(ag.SING_PAIRS)
    result = at.zeros((Tsp.nshape * Ssp.nshape * len(ag.SING_PAIRS),))
    with tracing(env):
        _py(nk.default_scalar_singular_kernel)(env.g.data, env.stp, env.ssp, env.sw, P[:, 0], P[:, 1], P[:, 2], P[:, 3],
                                               P[:, 4], P[:, 5], env.nmt, env.nms, Tsp.nshape, Ssp.nshape, env.shape(Tsp),
                                               env.shape(Ssp), Gstub(env), wavenumber(), result)
    return result


def trace_mx_potential(env, fname, support=(0, 1)):
    """Maxwell potential / far field of a density on grid `s` (coefficients coef_{3e+j} of the element-wise edge space),
    evaluated at the regular quadrature points of grid `t` (3 x 4 complex)."""
    nk = env.nk
    pts = np.hstack([env.gt.data.local2global(e, env.qp) for e in range(2)])
    coef = at.atoms((6,), "coef_{0}")
    with tracing(env):
        out = _py(getattr(nk, fname))(np.dtype(object), np.dtype(object), 3, pts, coef, env.gs.data, env.qp, env.qw, 3, None,
                                      Gstub(env), wavenumber(), env.nms, np.array(support))
    return np.asarray(out, dtype=object)


def trace_all(env):
    tr = {}
    tr["mxe"], Tg, Sg = trace_mx_regular(env, "maxwell_efield_regular_assembler")
    tr["mxeloc"], _, _ = trace_mx_regular(env, "maxwell_efield_regular_assembler", glob=False)
    tr["mxmloc"], _, _ = trace_mx_regular(env, "maxwell_mfield_regular_assembler", glob=False)
    tr["gv0"] = trace_scalar_regular(env, "dp0")
    tr["gv1"] = trace_scalar_regular(env, "dp1")
    tr["mxes"] = trace_mx_singular(env, "maxwell_efield_singular").reshape(-1, 1)
    tr["mxms"] = trace_mx_singular(env, "maxwell_mfield_singular").reshape(-1, 1)
    tr["gv0s"] = trace_scalar_singular(env, "dp0").reshape(-1, 1)
    tr["gv1s"] = trace_scalar_singular(env, "dp1").reshape(-1, 1)
    tr["mxedis"], Tt, Ss = trace_mx_regular(env, "maxwell_efield_regular_assembler", two_grids=True)
    tr["mxmdis"], _, _ = trace_mx_regular(env, "maxwell_mfield_regular_assembler", two_grids=True)
    tr["mxepot"] = trace_mx_potential(env, "maxwell_efield_potential")
    tr["mxmpot"] = trace_mx_potential(env, "maxwell_mfield_potential")
    tr["mxefar"] = trace_mx_potential(env, "maxwell_efield_far_field")
    tr["mxmfar"] = trace_mx_potential(env, "maxwell_mfield_far_field")
    # densities supported on element 1 only (position 0 in the support list != element index 1), as for segment spaces
    tr["mxepotseg"] = trace_mx_potential(env, "maxwell_efield_potential", support=(1,))
    tr["mxmpotseg"] = trace_mx_potential(env, "maxwell_mfield_potential", support=(1,))
    return tr, dict(Tg=Tg, Sg=Sg, Tt=Tt, Ss=Ss)


def term_size(t):
    if t[0] in ("var", "const"):
        return 1
    if t[0] in ("add", "sub", "mul", "div"):
        return 1 + term_size(t[1]) + term_size(t[2])
    if t[0] in ("neg", "pow"):
        return 1 + term_size(t[1])
    return 1 + term_size(t[2])


CP_SIMP = ("CP.ext_iff', CP.zero_re, CP.zero_im, CP.ofK_re, CP.ofK_im, CP.add_re, CP.add_im, CP.sub_re, CP.sub_im, CP.neg_re, "
           "CP.neg_im, CP.mul_re, CP.mul_im, CP.div_re, CP.div_im, CP.divK_re, CP.divK_im, CP.ik_re, CP.ik_im, CP.sum3, CP.sum2")
NAT_SIMP = "Nat.reduceAdd, Nat.reduceMul, ↓reduceIte, Nat.reduceEqDiff"
# specification-level definitions (Lemmas/Maxwell.lean) that the proofs unfold; `piola` and `pt` are NOT unfolded: the
# traces are folded back to them (fold lemmas `pio*_eq`, `pt*_eq`, proved by rfl) and `ring` treats them as atoms
DEF_SIMP = ("efieldLocal, quadForm, tab9, efieldClosed, efieldClosedSing, regV1, regV0, singV1, singV0, gradFac, mfieldTerm, "
            "efieldPotTerm, mfieldPotTerm, efieldFarTerm, mfieldFarTerm, efieldRemainder, rwgVtx, rwgVal, rwgDiv, rwgDivIe, edgeLen, "
            "elems, elemsT, elemsS, vtxU, vtxV, dot3, cross3, triple, lam")
ZERO_SIMP = "mul_zero, zero_mul, add_zero, zero_add, sub_zero, zero_sub, neg_zero, zero_div"


class Pool:
    """Hash-consed terms of a group of traced families with common-subexpression elimination: every subterm that is used
    more than once (and is not tiny) becomes its own Lean definition, and every definition binds only the atoms it
    mentions.  This is only a presentation of the traced terms: unfolding the definitions gives the traced term back."""

    def __init__(self, prefix, min_size=6):
        self.prefix, self.min_size = prefix, min_size
        self.key2id, self.nodes, self.size, self.uses = {}, [], [], []
        self._memo = {}
        self.entries = {}
        self.forced = {}

    def intern(self, t):
        m = self._memo.get(id(t))
        if m is not None and m[0] is t:
            return m[1]
        k = t[0]
        if k in ("var", "const"):
            key = (k, t[1])
            kids = ()
        elif k in ("add", "sub", "mul", "div"):
            kids = (self.intern(t[1]), self.intern(t[2]))
            key = (k,) + kids
        elif k == "neg":
            kids = (self.intern(t[1]),)
            key = (k,) + kids
        elif k == "pow":
            kids = (self.intern(t[1]),)
            key = (k, kids[0], t[2])
        else:
            raise GenError(f"unexpected node {k} in a Maxwell trace")
        n = self.key2id.get(key)
        if n is None:
            n = len(self.nodes)
            self.key2id[key] = n
            self.nodes.append((key, kids))
            self.size.append(1 + sum(self.size[c] for c in kids))
            self.uses.append(0)
            for c in kids:
                self.uses[c] += 1
        self._memo[id(t)] = (t, n)
        return n

    def add_entry(self, name, t):
        n = self.intern(t)
        self.uses[n] += 1
        self.entries[name] = n

    def force(self, t, name, rhs):
        """Give the subterm `t` (if it occurs) the definition name `name`; `rhs` is the specification-level Lean term it
        is (definitionally) equal to: a fold lemma `name args = rhs` is emitted and used instead of unfolding."""
        before = len(self.nodes)
        n = self.intern(st.Sym.lift(t).t)
        if n >= before or self.uses[n] == 0 or not self.nodes[n][1]:
            return          # does not occur in this pool (nodes created by this call are never referenced)
        self.forced[n] = (name, rhs)

    def finish(self):
        self.named = {}
        for n, (key, kids) in enumerate(self.nodes):
            if n in self.forced:
                self.named[n] = self.forced[n][0]
            elif kids and self.uses[n] >= 2 and self.size[n] >= self.min_size:
                self.named[n] = f"{self.prefix}{len(self.named)}"
        self.fv, self.deps = {}, {}
        for n, (key, kids) in enumerate(self.nodes):      # children have smaller ids
            if key[0] == "var":
                m = ag._VAR.match(key[1])
                if not m:
                    raise GenError(f"unexpected atom {key[1]}")
                self.fv[n] = frozenset([m.group(1)])
            elif key[0] == "const":
                self.fv[n] = frozenset()
            else:
                self.fv[n] = frozenset().union(*[self.fv[c] for c in kids])
            d = set()
            for c in kids:
                if c in self.named:
                    d.add(c)
                d |= self.deps[c]
            self.deps[n] = frozenset(d)

    def ref(self, n):
        """Lean text of node n, named subterms as applications of their definitions."""
        if n in self.named:
            return "(" + " ".join([self.named[n]] + sorted(self.fv[n])) + ")"
        return self.body(n)

    def body(self, n):
        key, kids = self.nodes[n]
        k = key[0]
        if k == "var":
            return ag.lean_term(("var", key[1]))
        if k == "const":
            return st.to_lean(("const", key[1]))
        if k in ("add", "sub", "mul", "div"):
            return "(" + self.ref(kids[0]) + {"add": " + ", "sub": " - ", "mul": " * ", "div": " / "}[k] + self.ref(kids[1]) + ")"
        if k == "neg":
            return "(-" + self.ref(kids[0]) + ")"
        return "(" + self.ref(kids[0]) + " ^ " + str(key[2]) + ")"

    def lean_defs(self, ar):
        L = []
        for n in sorted(self.named):
            b = " ".join(f"({a} : {' → '.join(['Nat'] * ar[a] + ['K'])})" for a in sorted(self.fv[n]))
            L.append(f"def {self.named[n]} {{K : Type}} [Field K] {b} : K :=\n  {self.body(n)}")
            if n in self.forced:
                name, rhs = self.forced[n]
                L.append(f"theorem {name}_eq {{K : Type}} [Field K] {b} :\n    {name} {' '.join(sorted(self.fv[n]))} = {rhs} := rfl")
        return L

    def unfold_names(self, entry):
        """simp set that rewrites the entry into atoms and specification-level terms: definitions of the entry and of
        the common subterms it uses; for the forced (folded) subterms their fold lemma and nothing below them"""
        n = self.entries[entry]
        out, seen, todo = [], set(), [n]
        while todo:
            c = todo.pop()
            if c in seen:
                continue
            seen.add(c)
            if c in self.forced:
                out.append(self.named[c] + "_eq")
                continue
            if c in self.named:
                out.append(self.named[c])
            todo.extend(self.nodes[c][1])
        return sorted(out)


POOLS = {"Reg": ("mxe", "mxeloc", "gv0", "gv1"), "MReg": ("mxmloc",), "Sing": ("mxes", "mxms", "gv0s", "gv1s"),
         "TwoE": ("mxedis",), "TwoM": ("mxmdis",), "Pot": ("mxepot", "mxmpot", "mxefar", "mxmfar", "mxepotseg", "mxmpotseg")}


class Emitter:
    def __init__(self, entries, forced):
        self.entries = entries
        self.ar = ag.atom_arities(entries.values())
        self.B = ag.binders(self.ar)
        self.atoms_of_section = sorted(self.ar)
        self.groups = {}
        self.thms = []
        self.pool_of = {}
        self.pools = {}
        for pname, fams in POOLS.items():
            P = Pool("cs" + pname)
            for (fam, r, c), t in sorted(entries.items()):
                if fam[:-2] in fams:
                    P.add_entry(f"{fam}_{r}_{c}", t)
                    self.pool_of[f"{fam}_{r}_{c}"] = P
            for t, name, rhs in forced.get(pname, ()):
                P.force(t, name, rhs)
            P.finish()
            self.pools[pname] = P

    def app(self, fam, r, c, **subst):
        name = f"{fam}_{r}_{c}"
        P = self.pool_of[name]
        return " ".join([name] + [subst.get(a, a) for a in sorted(P.fv[P.entries[name]])])

    def cp(self, fam, r, c, **subst):
        return f"(⟨{self.app(fam + 're', r, c, **subst)}, {self.app(fam + 'im', r, c, **subst)}⟩ : CP K)"

    def unfold(self, fam, r, c):
        """names to pass to `simp only` to unfold both parts of a complex entry completely"""
        out = []
        for p in ("re", "im"):
            name = f"{fam}{p}_{r}_{c}"
            out.append(name)
            out += self.pool_of[name].unfold_names(name)
        return sorted(set(out))

    def is_zero(self, fam, r, c):
        return all(self.entries[(fam + p, r, c)] == ("const", 0) for p in ("re", "im"))

    def add(self, group, tn, stmt, proof, hyps=""):
        self.groups.setdefault(group, []).append(f"theorem {tn}{hyps} :\n    {stmt} := by\n{proof}")
        self.thms.append(f"BemppVerif.AsmMatch.{tn}")

    def write_traces(self, changed):
        mods = []
        for pname, P in self.pools.items():
            L = ["-- GENERATED by props/asm_gen_mx.py by tracing the Maxwell assembly functions of bempp_cl/core/numba_kernels.py -- do not edit",
                 "-- `cs*` definitions are common subterms of the traced terms (presentation only).",
                 "-- `pio*` / `pt*` definitions are the traced values of `get_piola_transform` / `local2global`; the `*_eq` lemmas",
                 "-- (rfl) identify them with the specification-level `piola` / `pt` of Lemmas/Maxwell.lean.",
                 "import BemppVerif.Lemmas.Maxwell",
                 "import BemppVerif.Gen.AsmMatchDefs",
                 "namespace BemppVerif.Gen.AsmTracesMx",
                 "open BemppVerif.Mx BemppVerif.AsmMatch",
                 "set_option linter.unusedVariables false",
                 ""]
            L += P.lean_defs(self.ar)
            for name, n in sorted(P.entries.items()):
                b = " ".join(f"({a} : {' → '.join(['Nat'] * self.ar[a] + ['K'])})" for a in sorted(P.fv[n]))
                L.append(f"def {name} {{K : Type}} [Field K] {b} : K :=\n  {P.ref(n)}")
            L += ["end BemppVerif.Gen.AsmTracesMx", ""]
            mod = f"AsmTracesMaxwell{pname}"
            changed.append(T.write_if_changed(os.path.join(LEAN, f"BemppVerif/Gen/{mod}.lean"), "\n".join(L)))
            mods.append(mod)
        return mods


UNIT = dict(mt="(fun _ _ => 1)", ms="(fun _ _ => 1)")
ONE = "(fun _ _ => 1)"


def _forced_terms(env):
    """(term, definition name, specification-level Lean term) for the values of `local2global` and
    `get_piola_transform` (real functions, run symbolically) that occur in the traces of each pool."""
    nk = env.nk
    out = {k: [] for k in POOLS}

    def grid_terms(pool, tag, grid, nelem, pts, uname, vname, cols, label):
        V, J, ie, el = "V" + tag, "J" + tag, "ie" + tag, "elems" + tag.upper()
        for e in range(nelem):
            gp = grid.data.local2global(e, pts)
            with tracing(env):
                pio = _py(nk.get_piola_transform)(grid.data, [e], pts)[0]
            for q in cols:
                for c in range(3):
                    out[pool].append((gp[c, q], f"pt{pool}{label}_{e}_{c}_{q}", f"pt {V} {J} {el} {e} {c} ({uname} {q}) ({vname} {q})"))
                    for i in range(3):
                        out[pool].append((pio[i, c, q], f"pio{pool}{label}_{e}_{i}_{c}_{q}",
                                          f"piola {J} {ie} {e} {i} {c} ({uname} {q}) ({vname} {q})"))

    for pool in ("Reg", "MReg"):
        grid_terms(pool, "", env.g, NE, env.qp, "qu", "qv", range(NQ), "")
    grid_terms("Sing", "", env.g, NE, env.stp, "stu", "stv", range(8), "t")
    grid_terms("Sing", "", env.g, NE, env.ssp, "ssu", "ssv", range(8), "s")
    for pool in ("TwoE", "TwoM", "Pot"):
        grid_terms(pool, "t", env.gt, 2, env.qp, "qu", "qv", range(NQ), "t")
        grid_terms(pool, "s", env.gs, 2, env.qp, "qu", "qv", range(NQ), "s")
    return out


def _denominators(t, acc):
    if t[0] in ("add", "sub", "mul", "div"):
        if t[0] == "div":
            acc.append(t[2])
        _denominators(t[1], acc)
        _denominators(t[2], acc)
    elif t[0] in ("neg", "pow"):
        _denominators(t[1], acc)
    return acc


def _complex_den_facts(terms, nz):
    """`have` lines proving that the |ik·P|² denominators (P a product of atoms) occurring in the terms are non-zero.
    `nz(atom_term)` gives the proof that the atom is non-zero."""
    seen, out = set(), []
    for t in terms:
        for d in _denominators(t, []):
            key = st.show(d)
            if key in seen or not (d[0] == "add" and d[1][0] == "mul" and d[1][1] == d[1][2]):
                continue
            seen.add(key)
            a = d[1][1]
            fac = []
            while a[0] == "mul":
                fac.append(a[2])
                a = a[1]
            if a != ("sub", ("const", 0), ("var", "kp_1")) or not fac or any(f[0] != "var" for f in fac):
                continue
            fac.reverse()
            P = " * ".join(ag.lean_term(f) for f in fac)
            prod = None
            for f in fac:
                prod = nz(f) if prod is None else f"(mul_ne_zero {prod} {nz(f)})"
            n = len(out)
            out.append(f"  have hden{n} : {ag.lean_term(d)} ≠ 0 := by\n"
                       f"    have e : {ag.lean_term(d)} = ({P}) * ({P}) * (kp 0 * kp 0 + kp 1 * kp 1) := by ring\n"
                       f"    rw [e]; exact mul_ne_zero (mul_ne_zero {prod} {prod}) hk")
    return out


def generate(env=None):
    try:
        env = env or ag.Env()
        tr, sp = trace_all(env)
        forced = _forced_terms(env)
    except (st.TraceError, AssertionError, AttributeError, TypeError, IndexError, ValueError, KeyError) as e:
        raise GenError(f"Maxwell assembler tracing failed: {type(e).__name__}: {e}")
    entries = {}
    for fam, arr in tr.items():
        for r in range(arr.shape[0]):
            for c in range(arr.shape[1]):
                re_, im_ = st.parts(arr[r, c])
                entries[(fam + "re", r, c)] = re_
                entries[(fam + "im", r, c)] = im_
    for t in entries.values():
        if any(v.startswith("@") for v in st.free_vars(t)):
            raise GenError("a Maxwell trace contains an uninterpreted function application (norm / sqrt pattern not recognised)")
    em = Emitter(entries, forced)
    for name, n in (("coef", 1), ("kp", 1), ("mt", 2), ("ms", 2), ("Gcre", 2), ("Gcim", 2), ("dst", 2)):
        if em.ar.get(name) != n:
            raise GenError(f"atom {name} missing from the Maxwell traces or used with arity {em.ar.get(name)}")
    changed = []
    trace_mods = em.write_traces(changed)

    def simp_ring(defs, pre=""):
        return f"{pre}  simp only [{CP_SIMP}, {NAT_SIMP}, {DEF_SIMP}, {', '.join(defs)}, {ZERO_SIMP}]\n  mx_finish"

    def csum(terms, zero="0"):
        return " +\n        ".join(terms) if terms else zero

    G = lambda x, y: f"⟨Gcre {x} {y}, Gcim {x} {y}⟩"
    PHI = "(fun m p => lam m (qu p) (qv p))"
    test_elems, trial_elems = (0, 2), (0, 1, 2)
    adj = lambda a, b: bool(set(ELEMS[:, a]) & set(ELEMS[:, b]))
    KK = "(kp 0) (kp 1)"

    def Wreg(tau, sig):
        return f"(fun p q => qw q * ie {sig} * ie {tau} * qw p)"

    def Greg(tau, sig):
        return f"(fun p q => ⟨Gcre ({tau * NQ} + p) ({sig * NQ} + q), Gcim ({tau * NQ} + p) ({sig * NQ} + q)⟩)"

    # ---- closed forms of the single-layer traces with the Maxwell stub (V0, V1 of the decomposition)
    for tau in test_elems:
        for sig in trial_elems:
            if adj(tau, sig):
                continue
            em.add("MaxwellScalarReg", f"mx_scalar_regular_closed_form_v0_{tau}_{sig}",
                   f"{em.cp('gv0', tau, sig, **UNIT)}\n      = regV0 {Wreg(tau, sig)} {Greg(tau, sig)}",
                   simp_ring(em.unfold("gv0", tau, sig)))
            for m in range(3):
                for n in range(3):
                    a, b = 3 * tau + m, 3 * sig + n
                    em.add("MaxwellScalarReg", f"mx_scalar_regular_closed_form_v1_{a}_{b}",
                           f"{em.cp('gv1', a, b, **UNIT)}\n      = regV1 {Wreg(tau, sig)} {Greg(tau, sig)} {PHI} {PHI} {m} {n}",
                           simp_ring(em.unfold("gv1", a, b)))

    def sing_data(pr):
        tau, sig, toff, soff, woff, npts = pr
        W = f"(fun q => sw ({woff} + q) * (ie {tau} * ie {sig}))"
        A, B = 100 + 8 * tau + toff, 200 + 8 * sig + soff
        Gs = f"(fun q => ⟨Gcre ({A} + q) ({B} + q), Gcim ({A} + q) ({B} + q)⟩)"
        ft = f"(fun m q => lam m (stu ({toff} + q)) (stv ({toff} + q)))"
        fs = f"(fun m q => lam m (ssu ({soff} + q)) (ssv ({soff} + q)))"
        return W, Gs, ft, fs

    for k, pr in enumerate(ag.SING_PAIRS):
        W, Gs, ft, fs = sing_data(pr)
        em.add("MaxwellScalarSing", f"mx_scalar_singular_closed_form_v0_{k}",
               f"{em.cp('gv0s', k, 0)}\n      = singV0 {W} {Gs}", simp_ring(em.unfold("gv0s", k, 0)))
        for m in range(3):
            for n in range(3):
                slot = 9 * k + 3 * m + n
                em.add("MaxwellScalarSing", f"mx_scalar_singular_closed_form_v1_{k}_{m}_{n}",
                       f"{em.cp('gv1s', slot, 0)}\n      = singV1 {W} {Gs} {ft} {fs} {m} {n}", simp_ring(em.unfold("gv1s", slot, 0)))

    # ---- (a) C06: electric field, regular: closed form of every local block, then the decomposition
    for tau in test_elems:
        for sig in trial_elems:
            for i in range(3):
                for j in range(3):
                    a, b = 3 * tau + i, 3 * sig + j
                    tab = " ".join(em.cp("gv1", 3 * tau + m, 3 * sig + n, **UNIT) for m in range(3) for n in range(3))
                    dec = (f"{em.cp('mxeloc', a, b)}\n      = efieldLocal {KK} (rwgVtx mt elems el J ie {tau} {i}) "
                           f"(rwgVtx ms elems el J ie {sig} {j})\n          (rwgDiv mt elems el ie {tau} {i}) (rwgDiv ms elems el ie {sig} {j})\n"
                           f"          (tab9 {tab})\n          {em.cp('gv0', tau, sig, **UNIT)}")
                    if adj(tau, sig):   # skipped pair: every trace involved is zero
                        used = em.unfold("mxeloc", a, b) + em.unfold("gv0", tau, sig)
                        for m in range(3):
                            for n in range(3):
                                used += em.unfold("gv1", 3 * tau + m, 3 * sig + n)
                        em.add("MaxwellEfieldRegular", f"mx_efield_regular_decomposition_{a}_{b}", dec, simp_ring(sorted(set(used))))
                        continue
                    psit = f"(fun p c => rwgVal mt elems el J ie {tau} {i} c (qu p) (qv p))"
                    psis = f"(fun q c => rwgVal ms elems el J ie {sig} {j} c (qu q) (qv q))"
                    em.add("MaxwellEfieldClosed", f"mx_efield_regular_closed_form_{a}_{b}",
                           f"{em.cp('mxeloc', a, b)}\n      = efieldClosed {KK} {Wreg(tau, sig)} {Greg(tau, sig)} {psit} {psis}\n"
                           f"          (rwgDiv mt elems el ie {tau} {i}) (rwgDiv ms elems el ie {sig} {j})",
                           simp_ring(em.unfold("mxeloc", a, b)))
                    rws = [f"mx_efield_regular_closed_form_{a}_{b}"]
                    rws += [f"mx_scalar_regular_closed_form_v1_{3 * tau + m}_{3 * sig + n}" for m in range(3) for n in range(3)]
                    rws += [f"mx_scalar_regular_closed_form_v0_{tau}_{sig}"]
                    em.add("MaxwellEfieldRegular", f"mx_efield_regular_decomposition_{a}_{b}", dec,
                           f"  rw [{', '.join(rws)}]\n"
                           "  exact efield_decomposition _ _ _ _ _ _ _ _ _ _ _ _ (fun p c => rwgVal_interp _ _ _ _ _ _ _ _ _ _)\n"
                           "    (fun q c => rwgVal_interp _ _ _ _ _ _ _ _ _ _)")
    # ---- (a') the assembled matrix (edge numbering, shared dofs) is the scatter of the local blocks
    Tg, Sg = sp["Tg"], sp["Sg"]
    for r in range(Tg.ndofs):
        for c in range(Sg.ndofs):
            terms, used = [], em.unfold("mxe", r, c)
            for tau in test_elems:
                for sig in trial_elems:
                    for i in range(3):
                        for j in range(3):
                            if Tg.l2g[tau, i] == r and Sg.l2g[sig, j] == c and not em.is_zero("mxeloc", 3 * tau + i, 3 * sig + j):
                                terms.append(em.cp("mxeloc", 3 * tau + i, 3 * sig + j))
                                used += em.unfold("mxeloc", 3 * tau + i, 3 * sig + j)
            em.add("MaxwellEfieldScatter", f"mx_efield_regular_scatter_{r}_{c}",
                   f"{em.cp('mxe', r, c)}\n      = {csum(terms)}", simp_ring(sorted(set(used))))
    # ---- (a'') electric field, singular local integrals
    for k, pr in enumerate(ag.SING_PAIRS):
        tau, sig, toff, soff, woff, npts = pr
        W, Gs, ft, fs = sing_data(pr)
        for i in range(3):
            for j in range(3):
                slot = 9 * k + 3 * i + j
                facts = _complex_den_facts([entries[("mxesre", slot, 0)], entries[("mxesim", slot, 0)]],
                                           lambda f: f"(hie {f[1].split('_')[1]})")
                psit = f"(fun q c => rwgVal {ONE} elems el J ie {tau} {i} c (stu ({toff} + q)) (stv ({toff} + q)))"
                psis = f"(fun q c => rwgVal {ONE} elems el J ie {sig} {j} c (ssu ({soff} + q)) (ssv ({soff} + q)))"
                pre = ("  have hk' : (0 - kp 1) * (0 - kp 1) + kp 0 * kp 0 ≠ 0 := by\n"
                       "    have e : (0 - kp 1) * (0 - kp 1) + kp 0 * kp 0 = kp 0 * kp 0 + kp 1 * kp 1 := by ring\n"
                       "    rw [e]; exact hk\n"
                       "  have hk'' : -kp 1 * -kp 1 + kp 0 * kp 0 ≠ 0 := by\n"
                       "    have e : -kp 1 * -kp 1 + kp 0 * kp 0 = kp 0 * kp 0 + kp 1 * kp 1 := by ring\n"
                       "    rw [e]; exact hk\n"
                       + "\n".join(facts) + ("\n" if facts else "")
                       + f"  have hi1 := hie {tau}\n  have hi2 := hie {sig}\n")
                hy = " (hie : ∀ e, ie e ≠ 0) (hk : kp 0 * kp 0 + kp 1 * kp 1 ≠ 0)"
                em.add("MaxwellEfieldSingular", f"mx_efield_singular_closed_form_{k}_{i}_{j}",
                       f"{em.cp('mxes', slot, 0)}\n      = efieldClosedSing {KK} {W} {Gs} {psit} {psis}\n"
                       f"          (rwgDiv {ONE} elems el ie {tau} {i}) (rwgDiv {ONE} elems el ie {sig} {j})",
                       f"{pre}  simp only [{CP_SIMP}, {NAT_SIMP}, {DEF_SIMP}, {', '.join(em.unfold('mxes', slot, 0))}]\n"
                       f"  mx_finish_field", hyps=hy)
                tab = " ".join(em.cp("gv1s", 9 * k + 3 * m + n, 0) for m in range(3) for n in range(3))
                rws = [f"mx_efield_singular_closed_form_{k}_{i}_{j} (hie := hie) (hk := hk)"]
                rws += [f"mx_scalar_singular_closed_form_v1_{k}_{m}_{n}" for m in range(3) for n in range(3)]
                rws += [f"mx_scalar_singular_closed_form_v0_{k}"]
                em.add("MaxwellEfieldSingular", f"mx_efield_singular_decomposition_{k}_{i}_{j}",
                       f"{em.cp('mxes', slot, 0)}\n      = efieldLocal {KK} (rwgVtx {ONE} elems el J ie {tau} {i}) "
                       f"(rwgVtx {ONE} elems el J ie {sig} {j})\n          (rwgDiv {ONE} elems el ie {tau} {i}) (rwgDiv {ONE} elems el ie {sig} {j})\n"
                       f"          (tab9 {tab})\n          {em.cp('gv0s', k, 0)}",
                       f"  rw [{', '.join(rws)}]\n"
                       "  exact efield_decomposition_sing _ _ _ _ _ _ _ _ _ _ _ _ (fun q c => rwgVal_interp _ _ _ _ _ _ _ _ _ _)\n"
                       "    (fun q c => rwgVal_interp _ _ _ _ _ _ _ _ _ _)", hyps=hy)
    # ---- (b) C06: complex symmetry of the regular local blocks (same edge space on both sides: ms := mt)
    prs = [(2 * NQ + p_, 0 * NQ + q_) for p_ in range(NQ) for q_ in range(NQ)]
    for fam, tag, hyps, rw in (
            ("mxeloc", "efield", " (hre : ∀ x y, Gcre x y = Gcre y x) (him : ∀ x y, Gcim x y = Gcim y x)", ("hre", "him")),
            ("mxmloc", "mfield", " (hre : ∀ x y, Gcre x y = Gcre y x) (him : ∀ x y, Gcim x y = Gcim y x) (hd : ∀ x y, dst x y = dst y x)",
             ("hre", "him", "hd"))):
        for i in range(3):
            for j in range(3):
                a, b = i, 6 + j
                used = em.unfold(fam, a, b) + em.unfold(fam, b, a)
                rws = [f"{h} {x} {y}" for h in rw for (x, y) in prs]
                em.add("MaxwellSymmetric", f"mx_{tag}_regular_symmetric_{i}_{j}",
                       f"{em.cp(fam, a, b, ms='mt')}\n      = {em.cp(fam, b, a, ms='mt')}",
                       f"  simp only [CP.mk.injEq, {', '.join(sorted(set(used)) + rws)}]\n  mx_finish", hyps=hyps)
    # ---- magnetic field, regular local blocks: closed form
    for tau in test_elems:
        for sig in trial_elems:
            for i in range(3):
                for j in range(3):
                    a, b = 3 * tau + i, 3 * sig + j
                    terms = []
                    if not adj(tau, sig):
                        for p_ in range(NQ):
                            for q_ in range(NQ):
                                x, y = tau * NQ + p_, sig * NQ + q_
                                terms.append(
                                    f"mfieldTerm {KK} (qw {p_} * qw {q_} * ie {tau} * ie {sig}) "
                                    f"(fun c => pt V J elems {tau} c (qu {p_}) (qv {p_})) (fun c => pt V J elems {sig} c (qu {q_}) (qv {q_}))\n"
                                    f"          (fun c => rwgVal mt elems el J ie {tau} {i} c (qu {p_}) (qv {p_})) "
                                    f"(fun c => rwgVal ms elems el J ie {sig} {j} c (qu {q_}) (qv {q_})) {G(x, y)} (dst {x} {y})")
                    em.add("MaxwellMfieldRegular", f"mx_mfield_regular_closed_form_{a}_{b}",
                           f"{em.cp('mxmloc', a, b)}\n      = {csum(terms)}", simp_ring(em.unfold("mxmloc", a, b)))
    # ---- singular local integrals, magnetic field: closed form
    for k, pr in enumerate(ag.SING_PAIRS):
        tau, sig, toff, soff, woff, npts = pr
        for i in range(3):
            for j in range(3):
                slot = 9 * k + 3 * i + j
                terms = []
                for q_ in range(npts):
                    x, y = 100 + 8 * tau + toff + q_, 200 + 8 * sig + soff + q_
                    tu, tv, su, sv = f"(stu {toff + q_})", f"(stv {toff + q_})", f"(ssu {soff + q_})", f"(ssv {soff + q_})"
                    terms.append(
                        f"mfieldTerm {KK} (sw {woff + q_} * (ie {tau} * ie {sig})) "
                        f"(fun c => pt V J elems {tau} c {tu} {tv}) (fun c => pt V J elems {sig} c {su} {sv})\n"
                        f"          (fun c => rwgVal {ONE} elems el J ie {tau} {i} c {tu} {tv}) "
                        f"(fun c => rwgVal {ONE} elems el J ie {sig} {j} c {su} {sv}) {G(x, y)} (dst {x} {y})")
                em.add("MaxwellMfieldSingular", f"mx_mfield_singular_closed_form_{k}_{i}_{j}",
                       f"{em.cp('mxms', slot, 0)}\n      = {csum(terms)}", simp_ring(em.unfold("mxms", slot, 0)))
    # ---- (c) C07: boundary assembler on two disjoint grids vs Galerkin-tested traced potential
    Tt, Ss = sp["Tt"], sp["Ss"]
    DENS = "(fun e i => coef (3 * e + i))"
    for r in range(Tt.ndofs):
        for c in range(Ss.ndofs):
            cols = [(sig, j) for sig in range(2) for j in range(3) if Ss.l2g[sig, j] == c]
            colf = "(fun a => " + " ".join(f"if a = {3 * sig + j} then ms {sig} {j} else" for sig, j in cols) + " 0)"
            rows = [(tau, i) for tau in range(2) for i in range(3) if Tt.l2g[tau, i] == r]
            for fam, pot, tag in (("mxmdis", "mxmpot", "mfield"), ("mxedis", "mxepot", "efield")):
                tested, used = [], em.unfold(fam, r, c)
                for tau, i in rows:
                    for p_ in range(NQ):
                        for d in range(3):
                            tested.append(f"CP.ofK (qw {p_} * iet {tau} * rwgVal mt elemsT elt Jt iet {tau} {i} {d} (qu {p_}) (qv {p_})) * "
                                          + em.cp(pot, d, tau * NQ + p_, coef=colf))
                            used += em.unfold(pot, d, tau * NQ + p_)
                if tag == "mfield":
                    em.add("MaxwellTwoMfield", f"mx_two_mfield_is_minus_tested_potential_{r}_{c}",
                           f"{em.cp(fam, r, c)}\n      = -({csum(tested, '(0 : CP K)')})", simp_ring(sorted(set(used))))
                    continue
                rem = []
                for tau, i in rows:
                    for sig, j in cols:
                        for p_ in range(NQ):
                            for q_ in range(NQ):
                                x, y = 10 + tau * NQ + p_, 20 + sig * NQ + q_
                                rem.append(
                                    f"efieldRemainder {KK} {G(x, y)} (dst {x} {y}) (qw {p_} * iet {tau}) (qw {q_}) (ies {sig})\n"
                                    f"          (fun c => pt Vt Jt elemsT {tau} c (qu {p_}) (qv {p_})) (fun c => pt Vs Js elemsS {sig} c (qu {q_}) (qv {q_}))\n"
                                    f"          (fun c => rwgVal mt elemsT elt Jt iet {tau} {i} c (qu {p_}) (qv {p_})) "
                                    f"(rwgDiv mt elemsT elt iet {tau} {i}) (rwgDiv ms elemsS els ies {sig} {j}) (rwgDivIe ms elemsS els {sig} {j})")
                em.add("MaxwellTwoEfield", f"mx_two_efield_is_minus_tested_potential_minus_remainder_{r}_{c}",
                       f"{em.cp(fam, r, c)}\n      = -({csum(tested, '(0 : CP K)')})\n        - ({csum(rem, '(0 : CP K)')})",
                       simp_ring(sorted(set(used))))
    # ---- (d) C08: potentials and far fields = closed-form kernel sums over the library's own quadrature points
    for d in range(3):
        for x in range(4):
            taux, px = divmod(x, NQ)
            X = f"(fun c => pt Vt Jt elemsT {taux} c (qu {px}) (qv {px}))"
            te, tm, fe, fm = [], [], [], []
            te_s, tm_s = [], []
            for sig in range(2):
                for q_ in range(NQ):
                    y = 20 + sig * NQ + q_
                    Y = f"(fun c => pt Vs Js elemsS {sig} c (qu {q_}) (qv {q_}))"
                    F = ("(fun c => qw {q} * ies {s} * (" + " + ".join(
                        f"rwgVal {DENS} elemsS els Js ies {{s}} {j} c (qu {{q}}) (qv {{q}})" for j in range(3)) + "))").format(q=q_, s=sig)
                    Dv = f"(qw {q_} * (" + " + ".join(f"rwgDivIe {DENS} elemsS els {sig} {j}" for j in range(3)) + "))"
                    te.append(f"efieldPotTerm {KK} {G(10 + x, y)} (dst {10 + x} {y}) {X} {Y} {F} {Dv} {d}")
                    tm.append(f"mfieldPotTerm {KK} {G(10 + x, y)} (dst {10 + x} {y}) {X} {Y} {F} {d}")
                    fe.append(f"efieldFarTerm {KK} {G(10 + x, y)} {X} {F} {Dv} {d}")
                    fm.append(f"mfieldFarTerm {KK} {G(10 + x, y)} {X} {F} {d}")
                    if sig == 1:
                        te_s.append(te[-1])
                        tm_s.append(tm[-1])
            for fam, name, terms in (("mxepot", "mx_potential_efield_closed_form", te),
                                     ("mxmpot", "mx_potential_mfield_closed_form", tm),
                                     ("mxefar", "mx_potential_efield_far_field_closed_form", fe),
                                     ("mxmfar", "mx_potential_mfield_far_field_closed_form", fm),
                                     ("mxepotseg", "mx_potential_efield_segment_closed_form", te_s),
                                     ("mxmpotseg", "mx_potential_mfield_segment_closed_form", tm_s)):
                em.add("MaxwellPotential", f"{name}_{d}_{x}", f"{em.cp(fam, d, x)}\n      = {csum(terms)}",
                       simp_ring(em.unfold(fam, d, x)))
    imports = write_groups(em, trace_mods, changed)
    info = dict(entries=len(entries), theorems=len(em.thms), changed=changed, atoms=sorted(em.ar),
                groups={g: len(v) for g, v in sorted(em.groups.items())}, edge_atoms=sorted(EDGE_ATOMS),
                cse_defs={k: len(P.named) for k, P in em.pools.items()})
    return info, em.thms, imports


# groups whose proofs cite theorems of other groups
GROUP_DEPS = {"MaxwellEfieldRegular": ("MaxwellEfieldClosed", "MaxwellScalarReg"), "MaxwellEfieldSingular": ("MaxwellScalarSing",)}
# trace modules (pools) each group needs: a change of one assembler only rebuilds the groups that mention it
GROUP_POOLS = {"MaxwellScalarReg": ("Reg",), "MaxwellScalarSing": ("Sing",), "MaxwellEfieldClosed": ("Reg",),
               "MaxwellEfieldRegular": ("Reg",), "MaxwellEfieldScatter": ("Reg",), "MaxwellEfieldSingular": ("Sing",),
               "MaxwellSymmetric": ("Reg", "MReg"), "MaxwellMfieldRegular": ("MReg",), "MaxwellMfieldSingular": ("Sing",),
               "MaxwellTwoEfield": ("TwoE", "Pot"), "MaxwellTwoMfield": ("TwoM", "Pot"), "MaxwellPotential": ("Pot",)}
GROUP_SIZE = {"MaxwellTwoEfield": 5, "MaxwellTwoMfield": 9, "MaxwellPotential": 12, "MaxwellMfieldRegular": 9,
              "MaxwellMfieldSingular": 9, "MaxwellSymmetric": 9,
              "MaxwellEfieldSingular": 18, "MaxwellEfieldClosed": 14}
GROUP_HEARTBEATS = {"MaxwellTwoEfield": 1600000, "MaxwellTwoMfield": 1600000}


def write_groups(em, trace_mods, changed, max_per_file=30):
    imports, files, chunks_of = [], {}, {}
    section = f"section\nvariable {{K : Type}} [Field K] {em.B}\n"
    for grp, items in sorted(em.groups.items()):
        n = GROUP_SIZE.get(grp, max_per_file)
        chunks_of[grp] = [items[i:i + n] for i in range(0, len(items), n)]
        files[grp] = [f"AsmMatch{grp}" + (str(k + 1) if len(chunks_of[grp]) > 1 else "") for k in range(len(chunks_of[grp]))]
    for grp in sorted(em.groups):
        for mod, chunk in zip(files[grp], chunks_of[grp]):
            body = ["-- GENERATED by props/asm_gen_mx.py -- do not edit."]
            body += [f"import BemppVerif.Gen.AsmTracesMaxwell{p}" for p in GROUP_POOLS[grp]]
            body += [f"import BemppVerif.Gen.{m}" for g in GROUP_DEPS.get(grp, ()) for m in files.get(g, ())]
            body += ["import BemppVerif.Lemmas.MaxwellTactic",
                     "namespace BemppVerif.AsmMatch", "open BemppVerif BemppVerif.Mx BemppVerif.Gen.AsmTracesMx",
                     "set_option linter.unusedVariables false", "set_option linter.unusedSimpArgs false"]
            if grp in GROUP_HEARTBEATS:
                body.append(f"set_option maxHeartbeats {GROUP_HEARTBEATS[grp]}")
            body += ["", section] + chunk + ["end", "end BemppVerif.AsmMatch", ""]
            changed.append(T.write_if_changed(os.path.join(LEAN, f"BemppVerif/Gen/{mod}.lean"), "\n".join(body)))
            imports.append(f"import BemppVerif.Gen.{mod}")
    # files of an earlier chunking / grouping are not part of the library any more
    keep = {m.split(".")[-1] + ".lean" for m in imports} | {f"AsmTracesMaxwell{p}.lean" for p in POOLS}
    gen_dir = os.path.join(LEAN, "BemppVerif/Gen")
    for fn in os.listdir(gen_dir):
        if (fn.startswith("AsmMatchMaxwell") or fn.startswith("AsmTracesMaxwell")) and fn.endswith(".lean") and fn not in keep:
            os.unlink(os.path.join(gen_dir, fn))
    return imports


if __name__ == "__main__":
    info, thms, imports = generate()
    info.pop("changed")
    print(info)
    print(imports)
