"""C15 / C14 — correspondence between Model/Blocked.lean and the real discrete blocked operators.

The model (``matvecBlocked``, ``matmatBlocked``, ``genMatvec``, ``toDense``, ``ctorDims``) mirrors the offset loops of
``BlockedDiscreteOperator._matvec/_matmat/to_dense/__init__`` and ``GeneralizedDiscreteBlockedOperator._matmat/to_dense``
(bempp_cl/api/assembly/blocked_operator.py).  Here the real classes are fed with small dyadic matrices (every product
and sum is exact in binary64), the same data goes to the native driver, and the answers are compared EXACTLY.  The
theorems ``blocked_matvec_eq_dense`` / ``blocked_matmat_eq_dense`` / ``generalized_matmat_eq_dense`` then say that what
the loops compute is the product with ``to_dense()`` for every block layout.

``add(line, fn)`` registers one driver request with the function that checks its answer.
"""
from fractions import Fraction as F


def _sc(z):
    z = complex(z)

    def r(x):
        fr = F(float(x))
        return f"{fr.numerator}/{fr.denominator}" if fr.denominator != 1 else str(fr.numerator)
    return r(z.real) if z.imag == 0 else r(z.real) + "," + r(z.imag)


def _vec(v):
    return " ".join([str(len(v))] + [_sc(x) for x in v])


def _mat(M):
    return " ".join([str(M.shape[0]), str(M.shape[1])] + [_sc(x) for x in M.ravel()])


def _parse_vecs(ans, count=None):
    """'ok [k] VEC*' -> list of complex lists, or None"""
    t = ans.split()
    if not t or t[0] != "ok":
        return None
    i = 1
    if count is None:
        count = int(t[i])
        i += 1
    out = []

    def sc(s):
        if "," in s:
            a, b = s.split(",")
            return complex(float(F(a)), float(F(b)))
        return complex(float(F(s)), 0.0)
    for _ in range(count):
        n = int(t[i])
        i += 1
        out.append([sc(s) for s in t[i:i + n]])
        i += n
    return out


def _rand_mat(np, rng, r, c, cplx):
    # entries k/2 with |k| <= 6: sums of <= 16 products of two such numbers with vector entries k/4 are exact in binary64
    M = np.array([[rng.randrange(-6, 7) / 2 for _ in range(c)] for _ in range(r)], dtype=float).reshape(r, c)
    if cplx:
        M = M + 1j * np.array([[rng.randrange(-6, 7) / 2 for _ in range(c)] for _ in range(r)], dtype=float).reshape(r, c)
    return M


def _rand_vec(np, rng, n, cplx):
    v = np.array([rng.randrange(-8, 9) / 4 for _ in range(n)], dtype=float)
    if cplx:
        v = v + 1j * np.array([rng.randrange(-8, 9) / 4 for _ in range(n)], dtype=float)
    return v


def _status(exc):
    return "value-error" if isinstance(exc, ValueError) else "other-error:" + type(exc).__name__


def _against_dense(np, res, op, cls, mode, x, y, st, desc):
    """The property itself on the real code (no model involved): the product of a discrete blocked operator with a vector /
    matrix equals to_dense() @ x — exactly, on this dyadic data.  lu() solves with to_dense(), gmres()/cg() and
    operator * function use the product: where the two differ the solvers do not solve the same system."""
    if st != "ok":
        return
    try:
        D = np.asarray(op.to_dense())
    except Exception:  # noqa: BLE001
        return
    want = D @ x
    got = np.asarray(y).reshape(want.shape) if np.asarray(y).size == want.size else None
    if got is None or (want.size and np.max(np.abs(got - want)) != 0):
        res.counterexample(f"blocked-discrete-product-differs-from-to-dense:{cls}:{'2d' if np.ndim(x) == 2 else '1d'}",
                           f"{cls}: {mode}(x) differs from to_dense() @ x on exactly representable data "
                           f"(max difference {float(np.max(np.abs(got - want))) if got is not None else 'shape'})",
                           mode=mode, x=[str(v) for v in np.asarray(x).ravel()], **desc)


def add_requests(ctx, res, add):
    import numpy as np
    import scipy.sparse as sps
    from bempp_cl.api.assembly.blocked_operator import BlockedDiscreteOperator, GeneralizedDiscreteBlockedOperator
    from bempp_cl.api.assembly.discrete_boundary_operator import (
        DenseDiscreteBoundaryOperator, SparseDiscreteBoundaryOperator)

    rng = ctx.rng

    def wrap(M, kind):
        if kind == "sparse":
            return SparseDiscreteBoundaryOperator(sps.csc_matrix(M))
        return DenseDiscreteBoundaryOperator(M)

    def exact_eq(model_cols, impl):
        impl = np.asarray(impl)
        if impl.ndim == 1:
            impl = impl.reshape(-1, 1)
        if len(model_cols) != impl.shape[1]:
            return False
        for k, col in enumerate(model_cols):
            if len(col) != impl.shape[0]:
                return False
            if len(col) and np.max(np.abs(np.array(col, dtype=complex) - impl[:, k])) != 0:
                return False
        return True

    # ---- 1. BlockedDiscreteOperator: _matvec, _matmat, to_dense -------------------------------------------------
    nb = ctx.pick(60, 400)
    for ci in range(nb):
        m, n = rng.randrange(1, 4), rng.randrange(1, 4)
        rows = [rng.randrange(1, 5) for _ in range(m)]
        cols = [rng.randrange(1, 5) for _ in range(n)]
        if ci % 7 == 3:  # degenerate sizes
            rows[rng.randrange(m)] = 0
        if ci % 11 == 5:
            cols[rng.randrange(n)] = 0
        # None entries, keeping one operator in every row and column (a random transversal stays filled)
        keep = set()
        for i in range(m):
            keep.add((i, rng.randrange(n)))
        for j in range(n):
            keep.add((rng.randrange(m), j))
        kinds, mats, ops = [], [], []
        for i in range(m):
            krow, mrow, orow = [], [], []
            for j in range(n):
                none = (i, j) not in keep and rng.random() < 0.25
                cplx = rng.random() < 0.3
                kind = "none" if none else rng.choice(["dense", "dense", "sparse"])
                M = np.zeros((rows[i], cols[j])) if none else _rand_mat(np, rng, rows[i], cols[j], cplx)
                krow.append(kind + ("-c" if cplx and not none else ""))
                mrow.append(M)
                orow.append(None if none else wrap(M, kind))
            kinds.append(krow)
            mats.append(mrow)
            ops.append(orow)
        desc = dict(rows=rows, cols=cols, kinds=kinds)
        try:
            B = BlockedDiscreteOperator(ops)
        except Exception as e:  # noqa: BLE001
            res.disagree("blocked discrete operator: constructor raised on a well-formed block array",
                         impl=_status(e), **desc)
            continue
        head = f"{m} {n} " + " ".join(map(str, rows + cols)) + " " + " ".join(_mat(M) for r_ in mats for M in r_)
        xc = rng.random() < 0.5
        x = _rand_vec(np, rng, sum(cols), xc)
        mode = rng.choice(["matvec", "matvec", "matmul", "dot"])
        try:
            y = B.matvec(x) if mode == "matvec" else (B @ x if mode == "matmul" else B.dot(x))
            st = "ok"
        except Exception as e:  # noqa: BLE001
            y, st = None, _status(e)

        def chk_mv(ans, y=y, st=st, desc=desc, x=x, mode=mode):
            mv = _parse_vecs(ans, 1)
            if st != "ok" or mv is None:
                if st == "ok" or not ans.startswith("err") or ans.split()[1] != st:
                    res.disagree("blocked _matvec: status", impl=st, model=ans[:60], mode=mode, x=[str(v) for v in x], **desc)
                return
            if not exact_eq(mv, y):
                res.disagree("blocked _matvec: values", impl=[str(v) for v in np.asarray(y).ravel()], model=ans[:200],
                             mode=mode, x=[str(v) for v in x], **desc)
        add("blk mv " + head + " " + _vec(x), chk_mv)
        _against_dense(np, res, B, "BlockedDiscreteOperator", mode, x, y, st, desc)
        res.case(("blk-mv", m, n, tuple(rows), tuple(cols), xc), nontrivial=(m > 1 or n > 1) and len(set(rows + cols)) > 1,
                 sample=dict(kind="BlockedDiscreteOperator matvec", **desc))

        k = rng.randrange(1, 4)
        X = np.stack([_rand_vec(np, rng, sum(cols), xc or rng.random() < 0.3) for _ in range(k)], axis=1)
        mode2 = rng.choice(["matmat", "matmul", "matvec2d"])
        try:
            Y = B.matmat(X) if mode2 == "matmat" else (B @ X if mode2 == "matmul" else B._matvec(X))
            st2 = "ok"
        except Exception as e:  # noqa: BLE001
            Y, st2 = None, _status(e)

        def chk_mm(ans, Y=Y, st2=st2, desc=desc, X=X, mode2=mode2):
            mv = _parse_vecs(ans)
            if st2 != "ok" or mv is None:
                if st2 == "ok" or not ans.startswith("err") or ans.split()[1] != st2:
                    res.disagree("blocked _matmat: status", impl=st2, model=ans[:60], mode=mode2, **desc)
                return
            if not exact_eq(mv, Y):
                res.disagree("blocked _matmat: values", impl=[str(v) for v in np.asarray(Y).ravel()], model=ans[:200],
                             mode=mode2, X=[[str(v) for v in r_] for r_ in X], **desc)
        add("blk mm " + head + f" {k} " + " ".join(_vec(X[:, q]) for q in range(k)), chk_mm)
        _against_dense(np, res, B, "BlockedDiscreteOperator", mode2, X, Y, st2, desc)
        res.case(("blk-mm", m, n, tuple(rows), tuple(cols), k), nontrivial=(m > 1 or n > 1) and len(set(rows + cols)) > 1)

        try:
            D = np.asarray(B.to_dense())
            st3 = "ok"
        except Exception as e:  # noqa: BLE001
            D, st3 = None, _status(e)

        def chk_dense(ans, D=D, st3=st3, desc=desc, mats=mats):
            t = ans.split()
            if st3 != "ok" or t[0] != "ok":
                res.disagree("blocked to_dense: status", impl=st3, model=ans[:60], **desc)
                return
            r_, c_ = int(t[1]), int(t[2])
            cols_ = _parse_vecs("ok 1 " + str(r_ * c_) + " " + " ".join(t[3:]))[0]
            Mm = np.array(cols_, dtype=complex).reshape(r_, c_)
            if Mm.shape != D.shape or (Mm.size and np.max(np.abs(Mm - D)) != 0):
                # hstack of blocks without rows has no column count in the list-of-rows model: only sizes with rows compare
                if D.shape[0] == Mm.shape[0] and D.shape[0] == 0:
                    return
                res.disagree("blocked to_dense: values", impl=[str(v) for v in D.ravel()], model=ans[:200], **desc)
        add("blk dense " + f"{m} {n} " + " ".join(_mat(M) for r_ in mats for M in r_), chk_dense)

    # ---- 2. constructor dimension bookkeeping (incl. malformed arrays) -------------------------------------------
    for ci in range(ctx.pick(60, 300)):
        m, n = rng.randrange(1, 4), rng.randrange(1, 4)
        rows = [rng.randrange(1, 4) for _ in range(m)]
        cols = [rng.randrange(1, 4) for _ in range(n)]
        shapes, ops = [], []
        for i in range(m):
            srow, orow = [], []
            for j in range(n):
                if rng.random() < 0.3:
                    srow.append(None)
                    orow.append(None)
                    continue
                r_, c_ = rows[i], cols[j]
                if rng.random() < 0.08:
                    r_ += rng.choice([-1, 1])
                if rng.random() < 0.08:
                    c_ += rng.choice([-1, 1])
                r_, c_ = max(r_, 0), max(c_, 0)
                srow.append((r_, c_))
                orow.append(DenseDiscreteBoundaryOperator(np.ones((r_, c_))))
            shapes.append(srow)
            ops.append(orow)
        try:
            B = BlockedDiscreteOperator(ops)
            impl = "ok " + " ".join([str(m)] + [str(int(v)) for v in B.row_dimensions] + [str(n)] +
                                    [str(int(v)) for v in B.column_dimensions])
            if B.shape != (int(sum(B.row_dimensions)), int(sum(B.column_dimensions))):
                res.disagree("blocked ctor: shape is not (sum rows, sum cols)", shape=list(B.shape), shapes=str(shapes))
        except Exception as e:  # noqa: BLE001
            impl = "err " + _status(e)

        def chk_ctor(ans, impl=impl, shapes=shapes):
            if ans.strip() != impl:
                res.disagree("blocked ctor: dimensions / ValueError", impl=impl, model=ans[:80], shapes=str(shapes))
        add(f"blk ctor {m} {n} " + " ".join("-" if s is None else f"{s[0]} {s[1]}" for r_ in shapes for s in r_), chk_ctor)
        res.case(("blk-ctor", str(shapes)), nontrivial=any(s is None for r_ in shapes for s in r_) or impl.startswith("err"))

    # ---- 3. GeneralizedDiscreteBlockedOperator: rows with different column partitions ---------------------------
    for ci in range(ctx.pick(40, 300)):
        m = rng.randrange(1, 4)
        width = rng.randrange(1, 8)
        blocks, ops, layout = [], [], []
        for i in range(m):
            r_ = rng.randrange(1, 4)
            # random composition of `width` into 1..3 parts (parts may be 0 rarely)
            parts, left = [], width
            nparts = rng.randrange(1, 4)
            for p in range(nparts - 1):
                c_ = rng.randrange(0 if rng.random() < 0.1 else 1, left + 1) if left > 0 else 0
                c_ = min(c_, left)
                parts.append(c_)
                left -= c_
            parts.append(left)
            brow, orow = [], []
            for c_ in parts:
                M = _rand_mat(np, rng, r_, c_, rng.random() < 0.3)
                brow.append(M)
                orow.append(wrap(M, rng.choice(["dense", "sparse"])))
            blocks.append(brow)
            ops.append(orow)
            layout.append((r_, parts))
        try:
            G = GeneralizedDiscreteBlockedOperator(ops)
        except Exception as e:  # noqa: BLE001
            res.disagree("generalized blocked discrete operator: constructor raised on a well-formed block array",
                         impl=_status(e), layout=str(layout))
            continue
        k = rng.randrange(1, 4)
        X = np.stack([_rand_vec(np, rng, width, rng.random() < 0.5) for _ in range(k)], axis=1)
        mode = rng.choice(["matmat", "matvec"]) if k == 1 else "matmat"
        try:
            Y = G.matmat(X) if mode == "matmat" else G.matvec(X[:, 0])
            st = "ok"
        except Exception as e:  # noqa: BLE001
            Y, st = None, _status(e)
        try:
            D = np.asarray(G.to_dense())
        except Exception as e:  # noqa: BLE001
            D = None

        def chk_gen(ans, Y=Y, st=st, layout=layout, X=X, D=D, mode=mode):
            mv = _parse_vecs(ans)
            if st != "ok" or mv is None:
                if st == "ok" or not ans.startswith("err") or ans.split()[1] != st:
                    res.disagree("generalized _matmat: status", impl=st, model=ans[:60], layout=str(layout))
                return
            if not exact_eq(mv, Y):
                res.disagree("generalized _matmat: values", impl=[str(v) for v in np.asarray(Y).ravel()], model=ans[:200],
                             layout=str(layout), X=[[str(v) for v in r_] for r_ in X], mode=mode)
            elif D is None or D.shape != (sum(l[0] for l in layout), X.shape[0]) or np.max(np.abs(D @ X - np.asarray(Y).reshape(D.shape[0], -1))) != 0:
                res.disagree("generalized to_dense() @ X differs from _matmat(X)", layout=str(layout))
        _against_dense(np, res, G, "GeneralizedDiscreteBlockedOperator", mode, X if mode == "matmat" else X[:, 0], Y, st,
                       dict(layout=str(layout)))
        add(f"blk gen {m} " + " ".join(f"{len(brow)} " + " ".join(_mat(M) for M in brow) for brow in blocks) +
            f" {k} " + " ".join(_vec(X[:, q]) for q in range(k)), chk_gen)
        res.case(("blk-gen", str(layout), k), nontrivial=len({tuple(l[1]) for l in layout}) > 1 or
                 any(len(l[1]) > 1 and len(set(l[1])) > 1 for l in layout),
                 sample=dict(kind="GeneralizedDiscreteBlockedOperator matmat", layout=str(layout)))


THEOREMS = ["BemppVerif.C15." + t for t in (
    "blocked_matvec_eq_dense", "blocked_matmat_eq_dense", "blocked_matmat_is_columnwise_matvec",
    "generalized_matmat_eq_dense", "blocked_ctor_dims_sound", "blocked_matvec_eq_dense_of_index")]
LEAN_MODULE = "BemppVerif.Props.C15Blocked"


def run(ctx, res):
    """stand-alone use (C14): collect the requests, run the driver, check the answers"""
    from vlib.common import run_driver
    reqs, checks = [], []

    def add(line, fn):
        reqs.append(line)
        checks.append(fn)
    add_requests(ctx, res, add)
    for a, c in zip(run_driver(reqs), checks):
        c(a)
    res.count("driver_requests_blocked", len(reqs))
