"""C11 — grid topology and geometry data are complete and consistent."""
import itertools
import math
from fractions import Fraction as F

import numpy as np

from vlib.common import Result, run_driver, build_driver, GenError
from vlib import meshgen as mg
from props import c11_gen

PID = "C11"
LEAN_MODULES = ["BemppVerif.Props.C11", "BemppVerif.Props.C11Geom"]
N = "BemppVerif.C11."
THEOREMS = [N + t for t in [
    # (i) edges
    "edges_nodup", "edges_complete", "edges_sorted", "element_edges_length", "element_edges_correct",
    "element_edges_distinct", "edge_local_covers",
    # (ii) adjacency
    "shared_count_is_common_vertices", "edge_adjacency_sound", "edge_adjacency_complete", "edge_adjacency_no_duplicates",
    "vertex_adjacency_sound", "vertex_adjacency_complete", "vertex_adjacency_no_duplicates",
    # (iii) neighbours / boundary
    "edge_neighbors_correct", "edge_neighbors_length", "edge_neighbors_nodup", "vertex_neighbors_correct", "element_neighbors_correct",
    "element_neighbors_consistent", "edge_boundary_flag_exact", "vertex_boundary_flag_exact",
    # (iv) refinement, union, segments
    "refine_child_normal", "refine_children_vertices", "refine_children_nested", "refine_domain_indices",
    "bary_child_normal", "bary_children_vertices", "bary_domain_indices",
    "union_swapped_flips_normal", "union_elements", "normalize_array_order_preserving", "normalize_array_range",
    "union_domain_blocks_separated", "segments_preserve",
    # (v) geometry
    "lagrange_identity", "integration_element_sq_nonneg", "normal_unit_right_handed", "normal_orthogonal",
    "jac_inv_trans_left_inverse", "jac_inv_trans_in_tangent_plane", "centroid_def", "diameter_is_circumdiameter",
    "volume_translation_invariant",
]]
PARTIAL = {}
TRUSTED = [
    "Tie A translator props/c11_gen.py (ast extraction of _EDGE_LOCAL, the refine child triples, the 18 barycentric "
    "assignments, the union swap permutation)",
    "hand model lean/BemppVerif/Model/{Topo,Geom}.lean tied by exact differential comparison through the native driver "
    "(integers exact; coordinates as exact rationals of the binary64 inputs, float results within 1e-11 relative)",
    "canonicalisation that is part of the tie: adjacency columns and neighbour rows are sorted before comparison (the CSR "
    "product's order is unspecified); grid_from_segments is compared up to the vertex relabelling chosen by set()",
    "square roots (unit normals, volumes, integration elements, diameters) and IEEE rounding are not modelled: the model "
    "carries normal direction, det(J^T J) and the squared diameter; normal_unit_right_handed is stated for any s with "
    "s*s = |a x b|^2, s > 0",
    "SciPy CSR products and NumPy linear algebra inside Grid.__init__ are exercised, not verified",
]
ASSUMPTIONS = [
    "NonDegenerate: every element has three distinct vertex indices (Grid raises LinAlgError/ValueError otherwise; "
    "checked by the oracle) and a non-zero area (geometric degeneracy is outside the property: guard)",
    "vertex indices < number of vertices; at least one element",
]
RULE = ("a grid is non-trivial when it has at least two elements, at least one edge-adjacent pair and at least one of: a "
        "boundary edge, a vertex-only contact, a non-manifold edge; distinct by (number of vertices, element array)")

TOL = 1e-11  # relative tolerance float implementation vs exact rational model (measured margins go to stats)


def generate(ctx):
    return c11_gen.generate()


# ------------------------------------------------------------------------------------------------
# grid generators


def _api():
    import bempp_cl.api as api
    from bempp_cl.api.grid import grid as gridmod
    return api, gridmod


def _exact_normal_sq(V, t):
    p = [[F(float(V[k, i])) for k in range(3)] for i in t]
    a = [p[1][k] - p[0][k] for k in range(3)]
    b = [p[2][k] - p[0][k] for k in range(3)]
    n = [a[1] * b[2] - a[2] * b[1], a[2] * b[0] - a[0] * b[2], a[0] * b[1] - a[1] * b[0]]
    return n[0] * n[0] + n[1] * n[1] + n[2] * n[2], a, b


def _well_shaped(V, E):
    """every element has distinct indices and |a x b|^2 >= 1e-4 |a|^2 |b|^2 (keeps the float error of the
    implementation far below TOL)."""
    for j in range(E.shape[1]):
        t = [int(x) for x in E[:, j]]
        if len(set(t)) != 3:
            return False
        nn, a, b = _exact_normal_sq(V, t)
        aa = sum(x * x for x in a)
        bb = sum(x * x for x in b)
        if nn == 0 or nn * 10**4 < aa * bb:
            return False
    return True


def _dyadic(V, bits=6):
    return np.round(np.asarray(V, float) * 2**bits) / 2**bits


def soup(rng, nv=None, ne=None):
    """random soup: may contain non-manifold edges, vertex-only contacts, several components, isolated vertices and
    two elements with the same vertex set"""
    for _ in range(200):
        nv_ = nv or rng.randrange(3, 10)
        ne_ = ne or rng.randrange(1, 11)
        V = np.array([[rng.randrange(-8, 9) / 4 for _ in range(nv_)] for _ in range(3)], float)
        E = []
        for _ in range(ne_):
            if E and rng.random() < 0.08:
                t = list(rng.choice(E))
                rng.shuffle(t)  # same vertex set, other local order / orientation
            elif E and rng.random() < 0.35:
                base = rng.choice(E)
                a, b = rng.sample(base, 2)
                c = rng.randrange(nv_)
                t = [a, b, c]
                rng.shuffle(t)
            else:
                t = rng.sample(range(nv_), 3)
            E.append(t)
        E = np.array(E, dtype=np.int64).T
        if _well_shaped(V, E):
            return V, E
    return mg.tetrahedron()


def book(pages, rng=None):
    """`pages` triangles around one common edge (non-manifold for pages >= 3) plus a vertex-only contact"""
    V = [[0, 0, 0], [0, 0, 1]]
    E = []
    for p in range(pages):
        ang = 2 * math.pi * p / pages + 0.3
        V.append([round(math.cos(ang) * 16) / 16, round(math.sin(ang) * 16) / 16, 0.5])
        E.append([0, 1, 2 + p] if p % 2 == 0 else [1, 0, 2 + p])
    V.append([2, 2, 2])
    V.append([2, 3, 2])
    E.append([2, len(V) - 2, len(V) - 1])
    return np.array(V, float).T, np.array(E, dtype=np.int64).T


def cube_open():
    V, E = mg.cube(2)
    keep = [j for j in range(E.shape[1]) if not all(V[2, int(E[i, j])] == 1.0 for i in range(3))]
    return V, E[:, keep]


def base_grids(ctx):
    """named (V, E) pairs: closed, open, non-manifold, multi-component"""
    rng = ctx.rng
    out = [
        ("tetrahedron", *mg.tetrahedron()), ("octahedron", *mg.octahedron()), ("cube1", *mg.cube(1)),
        ("cube2flip", *mg.cube(2, flip_diag=True)), ("icosahedron", *mg.icosahedron()), ("lshape", *mg.lshape()),
        ("torus", *mg.torus_voxel()), ("screen2x2", *mg.screen(2, 2)), ("screen3x2", *mg.screen(3, 2, 0.2, rng)),
        ("cube-open", *cube_open()), ("book3", *book(3)), ("book5", *book(5)),
        ("two-components", *mg.union([mg.tetrahedron(), (mg.octahedron()[0] + 5.0, mg.octahedron()[1])])),
    ]
    if ctx.thorough:
        out += [("cube4", *mg.cube(4)), ("screen5x4", *mg.screen(5, 4, 0.1, rng)), ("cube3", *mg.cube(3))]
    res = []
    for name, V, E in out:
        V = _dyadic(mg.perturb(np.asarray(V, float), 0.05, rng), 8)
        if not _well_shaped(V, E):
            V = _dyadic(V, 8)
        res.append((name, V, np.asarray(E, np.int64)))
    return res


def variants(name, V, E, rng):
    """relabelled / re-typed copies of a grid (same surface)"""
    yield name, V, E
    V2, E2 = mg.relabel(V, E, rng)
    yield name + "/relabel", V2, E2
    # isolated vertices appended
    V3 = np.hstack([V, np.array([[9.0, 8.0], [7.0, 6.0], [5.0, 4.0]])])
    yield name + "/isolated", V3, E


_DTYPES = [("uint32", "float64", "C"), ("int64", "float64", "F"), ("int32", "float32", "C"), ("uint64", "float64", "F")]


def make_grid(api, V, E, D=None, style=0):
    et, vt, order = _DTYPES[style % len(_DTYPES)]
    Vv = np.array(V, dtype=vt, order=order)
    Ee = np.array(E, dtype=et, order=order)
    Dd = None if D is None else np.array(D, dtype="int64" if style % 2 else "uint32")
    return api.Grid(Vv, Ee, Dd)


def try_grid(res, api, name, V, E, D=None, style=0):
    """Grid(...) on an input inside the property's quantifier; an exception is a disagreement with the model"""
    try:
        return make_grid(api, V, E, D, style)
    except Exception as e:  # noqa
        res.disagree("implementation raises on a grid the model accepts", grid=name, error=repr(e)[:200],
                     nv=int(np.asarray(V).shape[1]), elements=np.asarray(E).astype(int).T.tolist())
        return None


def _key(V, E):
    return f"{V.shape[1]}:" + ",".join(str(int(x)) for x in np.asarray(E).T.flatten())


def _is_nontrivial(E):
    ne = E.shape[1]
    if ne < 2:
        return False
    sets = [set(int(x) for x in E[:, j]) for j in range(ne)]
    edge_adj = vert_adj = False
    for i in range(ne):
        for j in range(i + 1, ne):
            c = len(sets[i] & sets[j])
            edge_adj |= c == 2
            vert_adj |= c == 1
    cnt = {}
    for s in sets:
        for p in itertools.combinations(sorted(s), 2):
            cnt[p] = cnt.get(p, 0) + 1
    return edge_adj and (vert_adj or any(c == 1 for c in cnt.values()) or any(c > 2 for c in cnt.values()))


# ------------------------------------------------------------------------------------------------
# correspondence


def _grid_tokens(V, E):
    return f"{V.shape[1]} {E.shape[1]} " + " ".join(str(int(x)) for x in np.asarray(E).T.flatten())


def _rat(x):
    fr = F(float(x))
    return f"{fr.numerator}/{fr.denominator}" if fr.denominator != 1 else str(fr.numerator)


def _vert_tokens(V):
    return " ".join(_rat(x) for x in np.asarray(V, float).T.flatten())


def _rows(tokens):
    it = iter(tokens)
    rows = []
    for n in it:
        rows.append(sorted(next(it) for _ in range(n)))
    return rows


def _indexlist_rows(il):
    ind = [int(x) for x in il.indices]
    ptr = [int(x) for x in il.indexptr]
    return [sorted(ind[ptr[i]:ptr[i + 1]]) for i in range(len(ptr) - 1)]


def real_tables(g):
    """every topology table of the real Grid, canonicalised (sorted where the code's order is unspecified)"""
    t = {}
    t["edges"] = [int(x) for x in g.edges.T.flatten()]
    t["element_edges"] = [int(x) for x in g.element_edges.T.flatten()]
    t["edge_adjacency"] = sorted(tuple(int(x) for x in c) for c in g.edge_adjacency.T)
    t["vertex_adjacency"] = sorted(tuple(int(x) for x in c) for c in g.vertex_adjacency.T)
    t["edge_neighbors"] = [sorted(int(x) for x in r) for r in g.edge_neighbors]
    t["vertex_neighbors"] = _indexlist_rows(g.vertex_neighbors)
    t["element_neighbors"] = _indexlist_rows(g.element_neighbors)
    t["edge_on_boundary"] = [int(bool(x)) for x in g.edge_on_boundary]
    t["vertex_on_boundary"] = [int(bool(x)) for x in g.vertex_on_boundary]
    return t


TABLES = ["edges", "element_edges", "edge_adjacency", "vertex_adjacency", "edge_neighbors", "vertex_neighbors",
          "element_neighbors", "edge_on_boundary", "vertex_on_boundary", "refine_elems", "bary_elems", "bary_new"]


def parse_all(ans):
    """answer of `topo all` -> dict of canonicalised tables"""
    if not ans.startswith("ok "):
        return None
    parts = [[int(x) for x in p.split()] for p in ans[3:].split("|")]
    if len(parts) != len(TABLES):
        return None
    m = dict(zip(TABLES, parts))
    ea = m["edge_adjacency"]
    m["edge_adjacency"] = sorted(tuple(ea[i:i + 6]) for i in range(0, len(ea), 6))
    va = m["vertex_adjacency"]
    m["vertex_adjacency"] = sorted(tuple(va[i:i + 4]) for i in range(0, len(va), 4))
    for k in ("edge_neighbors", "vertex_neighbors", "element_neighbors"):
        m[k] = _rows(m[k])
    return m


class Batch:
    """collects driver requests and their answer handlers"""

    def __init__(self, res):
        self.res = res
        self.lines = []
        self.handlers = []

    def add(self, line, handler):
        self.lines.append(line)
        self.handlers.append(handler)

    def run(self):
        if not self.lines:
            return
        answers = run_driver(self.lines)
        for a, h in zip(answers, self.handlers):
            h(a)
        self.res.count("driver_requests", len(self.lines))
        self.lines, self.handlers = [], []


def _close(res, what, name, impl, model, scale=None, tol=TOL):
    """compare float array `impl` with list of Fractions `model` groupwise; record the margin"""
    impl = np.asarray(impl, float).flatten()
    if len(impl) != len(model):
        res.disagree(what + " shape", grid=name, impl=len(impl), model=len(model))
        return False
    mf = np.array([float(x) for x in model])
    sc = max(1e-300, float(np.max(np.abs(mf))) if scale is None else scale)
    err = float(np.max(np.abs(impl - mf))) / sc if len(mf) else 0.0
    if not np.all(np.isfinite(impl)):
        err = float("inf")
    res.stats["max_rel_err_" + what] = max(res.stats.get("max_rel_err_" + what, 0.0), err)
    if err > tol:
        res.disagree(what + " value", grid=name, rel_err=err)
        return False
    return True


def check_topology(b, name, g, V, E, with_children=True):
    """queue the comparison of every table of the real grid g (built from V, E) with the model"""
    res = b.res
    real = real_tables(g)
    if with_children:
        try:
            r = g.refine()
            bg = g.barycentric_refinement
        except Exception as e:  # noqa
            res.disagree("refine / barycentric_refinement raises on a grid the model refines", grid=name,
                         error=repr(e)[:200], nv=int(V.shape[1]), elements=np.asarray(E).astype(int).T.tolist())
            with_children = False
    if with_children:
        real["refine_elems"] = [int(x) for x in r.elements.T.flatten()]
        real["bary_elems"] = [int(x) for x in bg.elements.T.flatten()]
        real["_refine_nv"] = r.number_of_vertices
        real["_bary_nv"] = bg.number_of_vertices
    Ecopy = np.array(E, dtype=np.int64)

    def h(ans, real=real, name=name, with_children=with_children):
        m = parse_all(ans)
        if m is None:
            res.disagree("model rejects a grid the implementation accepts", grid=name, model=ans[:60],
                         elements=Ecopy.T.tolist())
            return
        for k in TABLES:
            if k not in real:
                continue
            if real[k] != m[k]:
                res.disagree("table " + k, grid=name, nv=int(V.shape[1]), elements=Ecopy.T.tolist(),
                             impl=str(real[k])[:300], model=str(m[k])[:300])
        if with_children:
            if real["_refine_nv"] != V.shape[1] + len(m["edges"]) // 2:
                res.disagree("refine vertex count", grid=name)
            if real["_bary_nv"] != V.shape[1] + len(m["bary_new"]) // 2:
                res.disagree("barycentric vertex count", grid=name)
    b.add("topo all " + _grid_tokens(V, E), h)
    res.case(_key(V, E), nontrivial=_is_nontrivial(np.asarray(E)),
             sample=dict(grid=name, nv=int(V.shape[1]), ne=int(E.shape[1])))


def check_child_domains(b, name, g, D):
    """domain indices of refine() / barycentric_refinement against the model's np.repeat"""
    res = b.res
    try:
        rd = [int(x) for x in g.refine().domain_indices]
        bd = [int(x) for x in g.barycentric_refinement.domain_indices]
    except Exception:  # noqa  (reported by check_topology)
        return

    def h(ans):
        parts = ans[3:].split("|") if ans.startswith("ok ") else []
        if len(parts) != 2:
            res.disagree("childdoms status", grid=name, model=ans[:60])
            return
        if [int(x) for x in parts[0].split()] != rd:
            res.disagree("refine domain indices", grid=name, impl=rd[:40], model=parts[0][:120])
        if [int(x) for x in parts[1].split()] != bd:
            res.disagree("barycentric domain indices", grid=name, impl=bd[:40], model=parts[1][:120])
    b.add("childdoms " + " ".join(str(int(x)) for x in D), h)


def check_geometry(b, name, g, V, E):
    res = b.res
    ne = E.shape[1]
    gt = _grid_tokens(V, E)
    vt = _vert_tokens(g.vertices)  # what the Grid stores (after dtype conversion)

    def h(ans):
        if not ans.startswith("ok "):
            res.disagree("geom status", grid=name, model=ans[:60])
            return
        vals = [F(x) for x in ans[3:].split()]
        if len(vals) != 20 * ne:
            res.disagree("geom length", grid=name)
            return
        for e in range(ne):
            r = vals[20 * e:20 * e + 20]
            a, bb, n, ie2, dsq, ce, j0, j1 = r[0:3], r[3:6], r[6:9], r[9], r[10], r[11:14], r[14:17], r[17:20]
            nn = n[0] * n[0] + n[1] * n[1] + n[2] * n[2]
            nrm = math.sqrt(nn)
            J = g.jacobians[e]
            ok = _close(res, "jacobian", name, J.T.flatten(), a + bb)
            ok &= _close(res, "normal", name, g.normals[e], [x / F(nrm) for x in n], scale=1.0)
            ok &= _close(res, "volume", name, [g.volumes[e]], [F(nrm) / 2])
            ok &= _close(res, "integration_element", name, [g.integration_elements[e]], [F(math.sqrt(ie2))])
            ok &= _close(res, "diameter", name, [g.diameters[e]], [F(math.sqrt(dsq))])
            ok &= _close(res, "centroid", name, g.centroids[e], ce, scale=max(1.0, max(abs(float(x)) for x in ce)))
            ok &= _close(res, "jac_inv_trans", name, g.jacobian_inverse_transposed[e].T.flatten(), j0 + j1, tol=1e-9)
            if not ok:
                return
    b.add("geom " + gt + " " + vt, h)

    try:
        r = g.refine()
        bg = g.barycentric_refinement
    except Exception:  # noqa  (reported by check_topology)
        return

    def h2(ans, r=r):
        if not ans.startswith("ok "):
            res.disagree("refineverts status", grid=name, model=ans[:60])
            return
        vals = [F(x) for x in ans[3:].split()]
        _close(res, "refine_vertices", name, r.vertices.T.flatten(), vals, scale=max(1.0, float(np.max(np.abs(V)))))
    b.add("refineverts " + gt + " " + vt, h2)

    def h3(ans, bg=bg):
        if not ans.startswith("ok "):
            res.disagree("baryverts status", grid=name, model=ans[:60])
            return
        vals = [F(x) for x in ans[3:].split()]
        _close(res, "bary_vertices", name, bg.vertices.T.flatten(), vals, scale=max(1.0, float(np.max(np.abs(V)))))
    b.add("baryverts " + gt + " " + vt, h3)


def check_union(b, api, gridmod, name, parts, rng):
    """parts: list of (V, E, D)"""
    res = b.res
    grids = [try_grid(res, api, name, V, E, D, style=rng.randrange(4)) for V, E, D in parts]
    if any(g is None for g in grids):
        return None
    mode = rng.randrange(3)  # 0: normalize, 1: no normalize, 2: given
    sw = [rng.random() < 0.4 for _ in parts]
    given = [rng.randrange(0, 9) for _ in parts]
    kw = dict(swapped_normals=sw if rng.random() < 0.8 else None)
    if kw["swapped_normals"] is None:
        sw = [False] * len(parts)
    if mode == 2:
        kw["domain_indices"] = given
    else:
        kw["normalize_domain_indices"] = mode == 0
    try:
        u = gridmod.union(grids, **kw)
    except Exception as e:  # noqa
        res.disagree("union raised", grid=name, error=repr(e)[:200])
        return None
    line = f"union {1 if mode == 0 else 0} {1 if mode == 2 else 0} {len(parts)}"
    for (V, E, D), s, dg in zip(parts, sw, given):
        line += f" {V.shape[1]} {E.shape[1]} {int(s)} {dg} " + " ".join(str(int(x)) for x in np.asarray(E).T.flatten())
        line += " " + " ".join(str(int(x)) for x in D)
    realE = [int(x) for x in u.elements.T.flatten()]
    realD = [int(x) for x in u.domain_indices]

    def h(ans):
        t = ans.split()
        if t[0] != "ok":
            res.disagree("union status", grid=name, model=ans[:60])
            return
        nv, ne = int(t[1]), int(t[2])
        me = [int(x) for x in t[3:3 + 3 * ne]]
        md = [int(x) for x in t[3 + 3 * ne:]]
        if nv != u.number_of_vertices or me != realE:
            res.disagree("union elements", grid=name, mode=mode, swapped=sw, impl=realE[:60], model=me[:60])
        if md != realD:
            res.disagree("union domain indices", grid=name, mode=mode, doms=[list(map(int, p[2])) for p in parts],
                         impl=realD[:60], model=md[:60])
        Vcat = np.hstack([g.vertices for g in grids])
        if not np.array_equal(Vcat, u.vertices):
            res.disagree("union vertices are not the concatenation", grid=name)
    b.add(line, h)
    res.case(("union", name, mode, tuple(sw)), nontrivial=len(parts) > 1 and any(sw),
             sample=dict(grid=name, kind="union", mode=mode, swapped=sw))
    return u


def check_segments(b, api, gridmod, name, V, E, D, segs):
    res = b.res
    # coordinates must identify vertices: make them pairwise distinct
    cols = {tuple(V[:, i]) for i in range(V.shape[1])}
    if len(cols) != V.shape[1]:
        V = V + np.arange(V.shape[1])[None, :] * np.array([[16.0], [0.0], [0.0]])
    g = try_grid(res, api, name, V, E, D)
    if g is None:
        return None
    keep = [j for j in range(E.shape[1]) if int(D[j]) in segs]
    if not keep:
        return None
    try:
        s = gridmod.grid_from_segments(g, list(segs))
    except Exception as e:  # noqa
        res.disagree("grid_from_segments raised", grid=name, error=repr(e)[:200])
        return None
    old_of = {tuple(g.vertices[:, i]): i for i in range(g.number_of_vertices)}
    try:
        relabel = [old_of[tuple(s.vertices[:, k])] for k in range(s.number_of_vertices)]
    except KeyError:
        res.disagree("grid_from_segments: a new vertex is not an old vertex", grid=name)
        return None
    real_old_elems = [relabel[int(x)] for x in s.elements.T.flatten()]
    realD = [int(x) for x in s.domain_indices]
    line = "segments " + _grid_tokens(V, E) + " " + " ".join(str(int(x)) for x in D) + f" {len(segs)} " + \
        " ".join(str(int(x)) for x in segs)

    def h(ans):
        t = ans.split()
        if t[0] != "ok":
            res.disagree("segments status", grid=name, model=ans[:60])
            return
        k = int(t[1])
        oldE = [int(x) for x in t[2:2 + 3 * k]]
        p = 2 + 3 * k
        nvn = int(t[p])
        vidx = [int(x) for x in t[p + 1:p + 1 + nvn]]
        p = p + 1 + nvn
        newE = [int(x) for x in t[p:p + 3 * k]]
        md = [int(x) for x in t[p + 3 * k:]]
        if oldE != real_old_elems:
            res.disagree("segments elements (old numbering)", grid=name, impl=real_old_elems[:60], model=oldE[:60])
        if sorted(relabel) != vidx:
            res.disagree("segments vertex set", grid=name, impl=sorted(relabel), model=vidx)
        if [vidx[x] for x in newE] != oldE:
            res.disagree("segments model relabelling inconsistent", grid=name)
        if md != realD:
            res.disagree("segments domain indices", grid=name, impl=realD, model=md)
    b.add(line, h)
    res.case(("segments", _key(V, E), tuple(sorted(segs))), nontrivial=len(keep) < E.shape[1],
             sample=dict(grid=name, kind="segments", segments=sorted(segs), kept=len(keep)))
    return s


def _sweep_bases(ctx):
    bases = [("tetrahedron", *mg.tetrahedron()), ("octahedron", *mg.octahedron()), ("screen2x2", *mg.screen(2, 2)),
             ("book4", *book(4))]
    if ctx.thorough:
        bases += [("cube1", *mg.cube(1)), ("screen3x2", *mg.screen(3, 2))]
    return bases


def correspondence(ctx):
    res = Result()
    api, gridmod = _api()
    build_driver()
    rng = ctx.rng
    b = Batch(res)
    # corpus of past disagreements first (none recorded yet)
    # 1. named meshes and their variants: all tables, children, geometry
    for name, V, E in base_grids(ctx):
        for style, (vn, V2, E2) in enumerate(variants(name, V, E, rng)):
            D = [rng.choice((0, 1, 2, 7)) for _ in range(E2.shape[1])]
            g = try_grid(res, api, vn, V2, E2, D, style=style)
            if g is None:
                continue
            check_topology(b, vn, g, V2, E2)
            check_child_domains(b, vn, g, D)
            if E2.shape[1] <= 60 or ctx.thorough:
                check_geometry(b, vn, g, V2, E2)
            res.count("named_grids")
    b.run()
    # 2. random soups
    for k in range(ctx.pick(150, 6000)):
        V, E = soup(rng)
        g = try_grid(res, api, f"soup{k}", V, E, style=k)
        if g is None:
            continue
        check_topology(b, f"soup{k}", g, V, E)
        if k % 5 == 0:
            check_geometry(b, f"soup{k}", g, V, E)
        res.count("soups")
    b.run()
    # 3. exhaustive sweep over all sub-complexes of small base meshes
    for name, V, E in _sweep_bases(ctx):
        E = np.asarray(E, np.int64)
        for sub in mg.subcomplexes(E):
            Es = E[:, list(sub)]
            g = try_grid(res, api, f"{name}{list(sub)}", V, Es)
            if g is None:
                continue
            check_topology(b, f"{name}{list(sub)}", g, V, Es, with_children=len(sub) <= 4 or ctx.thorough)
            res.count("subcomplexes")
        b.run()
    # 4. union and grid_from_segments; the resulting real grids are themselves compared table by table
    for k in range(ctx.pick(40, 600)):
        parts = []
        for _ in range(rng.randrange(1, 4)):
            V, E = soup(rng) if rng.random() < 0.7 else rng.choice(base_grids_cache(ctx))[1:]
            D = [rng.choice((0, 1, 2, 5, 9)) for _ in range(E.shape[1])]
            parts.append((V, E, D))
        u = check_union(b, api, gridmod, f"union{k}", parts, rng)
        if u is not None and k % 4 == 0:
            check_topology(b, f"union{k}/result", u, u.vertices, u.elements.astype(np.int64), with_children=False)
        V, E, D = parts[0]
        labels = sorted(set(D))
        segs = [x for x in labels if rng.random() < 0.6] or [labels[0]]
        if rng.random() < 0.3:
            segs.append(77)
        s = check_segments(b, api, gridmod, f"segments{k}", V, E, D, segs)
        if s is not None and k % 4 == 0:
            check_topology(b, f"segments{k}/result", s, s.vertices, s.elements.astype(np.int64), with_children=False)
    b.run()
    # 5. index-degenerate elements: the model rejects them, the implementation must raise
    for t in ([0, 0, 1], [0, 1, 0], [1, 0, 0], [2, 2, 2]):
        V = np.array([[0, 0, 0], [1, 0, 0], [0, 1, 0], [0, 0, 1.0]]).T
        E = np.array([t, [1, 2, 3]], dtype=np.int64).T
        try:
            make_grid(api, V, E)
            raised = False
        except Exception:  # noqa
            raised = True

        def h(ans, raised=raised, t=t):
            if (ans.strip() == "err degenerate") != raised:
                res.disagree("degenerate element", element=t, impl_raises=raised, model=ans[:40])
        b.add("topo all " + _grid_tokens(V, E), h)
        res.case(("degenerate", tuple(t)))
    b.run()
    return res


_BASE_CACHE = {}


def base_grids_cache(ctx):
    if "b" not in _BASE_CACHE:
        _BASE_CACHE["b"] = [x for x in base_grids(ctx) if x[2].shape[1] <= 30]
    return _BASE_CACHE["b"]


# ------------------------------------------------------------------------------------------------
# oracle: the property itself, by brute force on the real Grid (independent of the Lean model)


def _fr(V):
    return [[F(float(V[k, i])) for k in range(3)] for i in range(V.shape[1])]


def _sub(p, q):
    return [p[k] - q[k] for k in range(3)]


def _cross(a, b):
    return [a[1] * b[2] - a[2] * b[1], a[2] * b[0] - a[0] * b[2], a[0] * b[1] - a[1] * b[0]]


def _dot(a, b):
    return a[0] * b[0] + a[1] * b[1] + a[2] * b[2]


def _fl(v):
    return np.array([float(x) for x in v])


class Margin:
    def __init__(self, res):
        self.res = res

    def ok(self, name, err, tol):
        k = "oracle_margin_" + name
        self.res.stats[k] = max(self.res.stats.get(k, 0.0), float(err))
        return err <= tol


def oracle_topology(res, name, g, gridmod, inp):
    """definitional checks of every topology clause; returns False on the first counterexample"""
    E = np.asarray(g.elements).astype(np.int64)
    ne, nv = E.shape[1], g.number_of_vertices
    EL = [[int(a), int(b)] for a, b in np.asarray(gridmod._EDGE_LOCAL)]
    sets = [frozenset(int(x) for x in E[:, j]) for j in range(ne)]

    def bad(key, what, **kw):
        res.counterexample(key, f"{what} [grid {name}]", grid=name, input=inp, **kw)
        return False

    # edges: each undirected edge exactly once
    edges = [tuple(int(x) for x in c) for c in np.asarray(g.edges).T]
    want = set()
    for s in sets:
        want |= {tuple(p) for p in itertools.combinations(sorted(s), 2)}
    if len(set(edges)) != len(edges) or any(a >= b for a, b in edges):
        return bad("edges-duplicate", "an undirected edge is listed twice or not as an ascending pair", edges=edges[:40])
    if set(edges) != want:
        return bad("edges-incomplete", "the edge list is not the set of element vertex pairs",
                   missing=sorted(want - set(edges))[:10], extra=sorted(set(edges) - want)[:10])
    if g.number_of_edges != len(edges):
        return bad("edges-count", "number_of_edges wrong")
    ee = np.asarray(g.element_edges)
    if ee.shape != (3, ne):
        return bad("element-edges-shape", "element_edges has the wrong shape")
    if sorted({(a, b) for a, b in map(sorted, EL)}) != [(0, 1), (0, 2), (1, 2)]:
        return bad("edge-local-table", "_EDGE_LOCAL does not list the three vertex pairs", table=EL)
    for j in range(ne):
        for l in range(3):
            a, c = int(E[EL[l][0], j]), int(E[EL[l][1], j])
            idx = int(ee[l, j])
            if not (0 <= idx < len(edges)) or edges[idx] != (min(a, c), max(a, c)):
                return bad("element-edges-wrong", f"element_edges[{l},{j}] does not index the edge of local edge {l}",
                           element=j, local=l)
    # neighbours
    en = [sorted(int(x) for x in r) for r in g.edge_neighbors]
    if len(en) != len(edges):
        return bad("edge-neighbors-length", "edge_neighbors has the wrong length")
    for k, (a, c) in enumerate(edges):
        w = [j for j in range(ne) if a in sets[j] and c in sets[j]]
        if en[k] != w:
            return bad("edge-neighbors-wrong", f"edge_neighbors[{k}] != elements containing the edge", impl=en[k], want=w)
    vn = _indexlist_rows(g.vertex_neighbors)
    if len(vn) != nv:
        return bad("vertex-neighbors-length", "vertex_neighbors has the wrong length")
    for v in range(nv):
        w = [j for j in range(ne) if v in sets[j]]
        if vn[v] != w:
            return bad("vertex-neighbors-wrong", f"vertex_neighbors[{v}] != elements containing the vertex", impl=vn[v], want=w)
    eln = _indexlist_rows(g.element_neighbors)
    if len(eln) != ne:
        return bad("element-neighbors-length", "element_neighbors has the wrong length")
    common = [[len(sets[i] & sets[j]) for j in range(ne)] for i in range(ne)]
    for i in range(ne):
        w = [j for j in range(ne) if common[i][j] > 0]
        if eln[i] != w:
            return bad("element-neighbors-wrong", f"element_neighbors[{i}] != elements sharing a vertex (incl. itself)",
                       impl=eln[i], want=w)
    # adjacency
    for kind, arr, cnt, rows in (("edge", g.edge_adjacency, 2, 6), ("vertex", g.vertex_adjacency, 1, 4)):
        arr = np.asarray(arr)
        if arr.shape[0] != rows:
            return bad(f"{kind}-adjacency-shape", f"{kind}_adjacency has {arr.shape[0]} rows")
        cols = [tuple(int(x) for x in c) for c in arr.T]
        pairs = [(c[0], c[1]) for c in cols]
        w = {(i, j) for i in range(ne) for j in range(ne) if i != j and common[i][j] == cnt}
        if len(set(pairs)) != len(pairs):
            return bad(f"{kind}-adjacency-duplicate", f"{kind}_adjacency lists an ordered pair twice")
        if set(pairs) != w:
            return bad(f"{kind}-adjacency-pairs", f"{kind}_adjacency is not the set of ordered pairs of distinct elements "
                       f"sharing exactly {cnt} vertices", missing=sorted(w - set(pairs))[:10],
                       extra=sorted(set(pairs) - w)[:10])
        for c in cols:
            e0, e1 = c[0], c[1]
            loc = c[2:]
            if any(not (0 <= x < 3) for x in loc):
                return bad(f"{kind}-adjacency-local-range", f"{kind}_adjacency local index outside 0..2", column=c)
            if kind == "edge":
                i0, i1, j0, j1 = loc
                good = i0 != i1 and j0 != j1 and E[i0, e0] == E[j0, e1] and E[i1, e0] == E[j1, e1]
            else:
                i0, j0 = loc
                good = E[i0, e0] == E[j0, e1]
            if not good:
                return bad(f"{kind}-adjacency-local-index", f"{kind}_adjacency column {c}: the local indices do not name "
                           "the shared vertices", column=c)
    # boundary flags
    eob = [bool(x) for x in g.edge_on_boundary]
    vob = [bool(x) for x in g.vertex_on_boundary]
    if len(eob) != len(edges) or len(vob) != nv:
        return bad("boundary-length", "boundary flag arrays have the wrong length")
    for k in range(len(edges)):
        if eob[k] != (len(en[k]) == 1):
            return bad("edge-boundary-flag", f"edge_on_boundary[{k}] = {eob[k]} but the edge has {len(en[k])} neighbours",
                       edge=k)
    wv = [False] * nv
    for k, (a, c) in enumerate(edges):
        if len(en[k]) == 1:
            wv[a] = wv[c] = True
    if vob != wv:
        v = next(i for i in range(nv) if vob[i] != wv[i])
        return bad("vertex-boundary-flag", f"vertex_on_boundary[{v}] = {vob[v]} but the vertex is "
                   f"{'on' if wv[v] else 'not on'} a boundary edge", vertex=v)
    return True


def oracle_geometry(res, name, g, inp, M):
    """definitions of the geometric quantities (exact rational reference, roots in binary64)"""
    E = np.asarray(g.elements).astype(np.int64)
    P = _fr(g.vertices)

    def bad(key, what, **kw):
        res.counterexample(key, f"{what} [grid {name}]", grid=name, input=inp, **kw)
        return False
    for j in range(E.shape[1]):
        p0, p1, p2 = (P[int(E[k, j])] for k in range(3))
        a, b = _sub(p1, p0), _sub(p2, p0)
        n = _cross(a, b)
        nn = _dot(n, n)
        if nn == 0:
            continue
        nrm = math.sqrt(nn)
        L = max(math.sqrt(_dot(a, a)), math.sqrt(_dot(b, b)))
        nf = np.asarray(g.normals[j], float)
        if not M.ok("normal_unit", abs(float(np.linalg.norm(nf)) - 1.0), 1e-12):
            return bad("normal-not-unit", f"normal of element {j} is not a unit vector", element=j)
        if not M.ok("normal_direction", float(np.max(np.abs(nf - _fl(n) / nrm))), 1e-12):
            return bad("normal-not-right-handed", f"normal of element {j} is not (v1-v0)x(v2-v0)/|.|", element=j,
                       impl=nf.tolist(), want=(_fl(n) / nrm).tolist())
        if not M.ok("volume", abs(float(g.volumes[j]) - nrm / 2) / (nrm / 2), 1e-12):
            return bad("volume-wrong", f"volume of element {j} is not |a x b|/2", element=j)
        q = float(_dot(a, a) * _dot(b, b) / nn)  # >= 1; det(J^T J) = |a|^2|b|^2 - (a.b)^2 cancels by this factor
        if not M.ok("integration_element_over_cond", abs(float(g.integration_elements[j]) - nrm) / nrm / q, 1e-13):
            return bad("integration-element-wrong", f"integration element of element {j} is not |a x b|", element=j)
        c = _sub(a, b)
        circ = math.sqrt(_dot(a, a) * _dot(b, b) * _dot(c, c) / nn)  # |a||b||c| / (2 area) = 2R
        if not M.ok("diameter", abs(float(g.diameters[j]) - circ) / circ, 1e-12):
            return bad("diameter-wrong", f"diameter of element {j} is not the circumdiameter", element=j,
                       impl=float(g.diameters[j]), want=circ)
        ce = [(p0[k] + p1[k] + p2[k]) / 3 for k in range(3)]
        sc = max(1.0, max(abs(float(x)) for x in p0 + p1 + p2))
        if not M.ok("centroid", float(np.max(np.abs(np.asarray(g.centroids[j]) - _fl(ce)))) / sc, 1e-12):
            return bad("centroid-wrong", f"centroid of element {j} is not the vertex mean", element=j)
        J = np.asarray(g.jacobians[j], float)
        if J.shape != (3, 2) or not M.ok("jacobian", float(np.max(np.abs(J - np.array([_fl(a), _fl(b)]).T))) / L, 1e-12):
            return bad("jacobian-wrong", f"Jacobian of element {j} is not [v1-v0, v2-v0]", element=j)
        aa, ab, bb = _dot(a, a), _dot(a, b), _dot(b, b)
        det = aa * bb - ab * ab
        ref = np.array([_fl([(bb * a[k] - ab * b[k]) / det for k in range(3)]),
                        _fl([(aa * b[k] - ab * a[k]) / det for k in range(3)])]).T
        jit = np.asarray(g.jacobian_inverse_transposed[j], float)
        cond = float(aa + bb) ** 2 / float(det)  # bound on the condition number of J^T J (squared singular ratio)
        if jit.shape != (3, 2) or not M.ok("jac_inv_trans", float(np.max(np.abs(jit - ref))) / float(np.max(np.abs(ref)))
                                           / cond, 1e-12):
            return bad("jac-inv-trans-wrong", f"jacobian_inverse_transposed of element {j} is not J (J^T J)^-1", element=j)
    return True


def _areas_normals(g):
    E = np.asarray(g.elements).astype(np.int64)
    V = np.asarray(g.vertices, float)
    a = V[:, E[1]] - V[:, E[0]]
    b = V[:, E[2]] - V[:, E[0]]
    n = np.cross(a.T, b.T)
    return 0.5 * np.linalg.norm(n, axis=1), n


def _inside(p, tri, tol):
    """p in the closed triangle tri (3 points), by barycentric coordinates"""
    A = np.array([tri[1] - tri[0], tri[2] - tri[0]]).T
    lam, *_ = np.linalg.lstsq(A, p - tri[0], rcond=None)
    r = np.linalg.norm(A @ lam - (p - tri[0]))
    sc = max(1.0, float(np.max(np.abs(tri))))
    return r <= tol * sc and lam[0] >= -tol and lam[1] >= -tol and lam[0] + lam[1] <= 1 + tol


def oracle_children(res, name, g, inp, M):
    """refine / barycentric refinement: area, orientation, domain indices, nesting, Euler characteristic"""
    def bad(key, what, **kw):
        res.counterexample(key, f"{what} [grid {name}]", grid=name, input=inp, **kw)
        return False
    area, nrm = _areas_normals(g)
    V = np.asarray(g.vertices, float)
    E = np.asarray(g.elements).astype(np.int64)
    children = []
    for kind, k, make in (("refine", 4, lambda: g.refine()), ("barycentric", 6, lambda: g.barycentric_refinement)):
        try:
            children.append((kind, make(), k))
        except Exception as e:  # noqa
            return bad(f"{kind}-raises", f"{kind} raises {type(e).__name__} on a valid grid", error=repr(e)[:200])
    for kind, child, k in children:
        if child.number_of_elements != k * g.number_of_elements:
            return bad(f"{kind}-count", f"{kind}: {child.number_of_elements} children for {g.number_of_elements} elements")
        if not np.array_equal(np.asarray(child.domain_indices), np.repeat(np.asarray(g.domain_indices), k)):
            return bad(f"{kind}-domain-indices", f"{kind}: children do not inherit the parent's domain index")
        ca, cn = _areas_normals(child)
        cV = np.asarray(child.vertices, float)
        cE = np.asarray(child.elements).astype(np.int64)
        for j in range(g.number_of_elements):
            sl = slice(k * j, k * j + k)
            if not M.ok(f"{kind}_area", abs(float(np.sum(ca[sl])) - area[j]) / area[j], 1e-12):
                return bad(f"{kind}-area", f"{kind}: children of element {j} do not add up to its area", element=j)
            if not M.ok(f"{kind}_child_area", float(np.max(np.abs(ca[sl] - area[j] / k))) / area[j], 1e-12):
                return bad(f"{kind}-child-area", f"{kind}: a child of element {j} does not have 1/{k} of its area", element=j)
            nd = cn[sl] / (2 * ca[sl])[:, None] - (nrm[j] / (2 * area[j]))[None, :]
            if not M.ok(f"{kind}_orientation", float(np.max(np.abs(nd))), 1e-11):
                return bad(f"{kind}-orientation", f"{kind}: a child of element {j} has a different normal", element=j)
            tri = V[:, E[:, j]].T
            for c in range(k * j, k * j + k):
                for r in range(3):
                    if not _inside(cV[:, cE[r, c]], tri, 1e-12):
                        return bad(f"{kind}-nesting", f"{kind}: child {c} of element {j} has a vertex outside its parent",
                                   element=j, child=c)
        # conforming subdivision: one new vertex per edge (and per element for the barycentric refinement), all used
        want_nv = g.number_of_vertices + g.number_of_edges + (g.number_of_elements if k == 6 else 0)
        used = len(set(int(x) for x in cE.flatten()))
        iso = g.number_of_vertices - len(set(int(x) for x in E.flatten()))
        if child.number_of_vertices != want_nv or used != want_nv - iso:
            return bad(f"{kind}-conforming", f"{kind}: {child.number_of_vertices} vertices ({used} used) instead of one new "
                       f"vertex per edge{' and element' if k == 6 else ''} ({want_nv}, {want_nv - iso} used)")
    return True


def oracle_union_segments(res, name, parts, api, gridmod, rng, M):
    def bad(key, what, **kw):
        res.counterexample(key, f"{what} [grid {name}]", grid=name,
                           input=dict(parts=[dict(vertices=np.asarray(V).T.tolist(), elements=np.asarray(E).T.tolist(),
                                                  domain_indices=list(map(int, D))) for V, E, D in parts]), **kw)
        return False
    try:
        grids = [make_grid(api, V, E, D) for V, E, D in parts]
    except Exception as e:  # noqa
        return bad("grid-construction-raises", f"Grid(...) raises {type(e).__name__} on a valid triangle soup")
    for mode in range(3):
        sw = [rng.random() < 0.5 for _ in parts]
        given = [rng.randrange(0, 9) for _ in parts]
        kw = dict(swapped_normals=sw)
        if mode == 2:
            kw["domain_indices"] = given
        else:
            kw["normalize_domain_indices"] = mode == 0
        try:
            u = gridmod.union(grids, **kw)
        except Exception as e:  # noqa
            return bad("union-raises", f"union raises {type(e).__name__}", mode=mode, error=repr(e)[:200])
        ua, un = _areas_normals(u)
        uE = np.asarray(u.elements).astype(np.int64)
        uD = [int(x) for x in u.domain_indices]
        uV = np.asarray(u.vertices)
        if u.number_of_elements != sum(g.number_of_elements for g in grids) or \
                u.number_of_vertices != sum(g.number_of_vertices for g in grids):
            return bad("union-counts", "union: wrong number of elements or vertices")
        eo = 0
        seen_labels = set()
        for gi, g in enumerate(grids):
            ga, gn = _areas_normals(g)
            gE = np.asarray(g.elements).astype(np.int64)
            gV = np.asarray(g.vertices)
            for j in range(g.number_of_elements):
                rows = [0, 2, 1] if sw[gi] else [0, 1, 2]
                for r in range(3):
                    if not np.array_equal(uV[:, uE[r, eo + j]], gV[:, gE[rows[r], j]]):
                        return bad("union-geometry", f"union: element {j} of grid {gi} does not keep its vertices "
                                   f"(swapped={sw[gi]})", grid_index=gi, element=j)
                sgn = -1.0 if sw[gi] else 1.0
                if not M.ok("union_normal", float(np.max(np.abs(un[eo + j] - sgn * gn[j]))) / (2 * ga[j]), 1e-12):
                    return bad("union-orientation", f"union: orientation of element {j} of grid {gi} is wrong "
                               f"(swapped={sw[gi]})", grid_index=gi, element=j)
            blockD = uD[eo:eo + g.number_of_elements]
            oldD = [int(x) for x in g.domain_indices]
            if mode == 2:
                if blockD != [given[gi]] * len(blockD):
                    return bad("union-domain-given", "union: the given domain index is not attached", grid_index=gi)
            else:
                # same partition, same order, disjoint from the other grids
                for x in range(len(oldD)):
                    for y in range(len(oldD)):
                        if (oldD[x] < oldD[y]) != (blockD[x] < blockD[y]):
                            return bad("union-domain-partition", "union: domain indices of a grid are not relabelled "
                                       "monotonically", grid_index=gi, old=oldD, new=blockD, mode=mode)
                if set(blockD) & seen_labels:
                    return bad("union-domain-overlap", "union: two grids share a domain index", grid_index=gi, mode=mode)
                seen_labels |= set(blockD)
            eo += g.number_of_elements
        if mode == 0 and sorted(set(uD)) != list(range(len(set(uD)))):
            return bad("union-domain-normalized", "union: normalised domain indices are not 0..N-1", labels=sorted(set(uD)))
        res.case(("oracle-union", name, mode), nontrivial=len(parts) > 1)
    # segments
    V, E, D = parts[0]
    g = grids[0]
    labels = sorted(set(int(x) for x in D))
    for _ in range(2):
        segs = [x for x in labels if rng.random() < 0.5] or [labels[-1]]
        try:
            s = gridmod.grid_from_segments(g, segs)
        except Exception as e:  # noqa
            return bad("segments-raises", f"grid_from_segments raises {type(e).__name__}", segments=segs, error=repr(e)[:200])
        keep = [j for j in range(g.number_of_elements) if int(g.domain_indices[j]) in segs]
        if s.number_of_elements != len(keep):
            return bad("segments-count", "grid_from_segments: wrong number of elements", segments=segs)
        sE = np.asarray(s.elements).astype(np.int64)
        gE = np.asarray(g.elements).astype(np.int64)
        for k, j in enumerate(keep):
            for r in range(3):
                if not np.array_equal(np.asarray(s.vertices)[:, sE[r, k]], np.asarray(g.vertices)[:, gE[r, j]]):
                    return bad("segments-geometry", f"grid_from_segments: element {k} is not old element {j}", segments=segs)
            if int(s.domain_indices[k]) != int(g.domain_indices[j]):
                return bad("segments-domain-index", "grid_from_segments: domain index not preserved", segments=segs)
        used = set(int(x) for x in gE[:, keep].flatten())
        if s.number_of_vertices != len(used) or len(set(int(x) for x in sE.flatten())) != len(used):
            return bad("segments-vertices", "grid_from_segments: vertex set is not the set of used vertices", segments=segs)
        res.case(("oracle-segments", name, tuple(segs)), nontrivial=len(keep) < g.number_of_elements)
    return True


def _inp(V, E, D=None):
    d = dict(vertices=np.asarray(V, float).T.tolist(), elements=np.asarray(E).astype(int).T.tolist())
    if D is not None:
        d["domain_indices"] = [int(x) for x in D]
    return d


def oracle_small_segments(res, api, gridmod):
    """strips of n x 1 quads (two triangles each, one domain per quad), vertices numbered row by row: every single quad and
    every pair of quads is extracted and compared corner by corner with the elements it came from"""
    for n in (8, 11):
        V = np.array([[float(i), 0.0, 0.0] for i in range(n + 1)] + [[float(i), 1.0 + 0.1 * i, 0.05 * i * i] for i in range(n + 1)]).T
        E, D = [], []
        for i in range(n):
            E += [[i, i + 1, n + 2 + i], [i, n + 2 + i, n + 1 + i]]
            D += [i + 1, i + 1]
        E = np.array(E, dtype=np.uint32).T
        g = api.Grid(V, E, np.array(D, dtype=np.uint32))
        gE = np.asarray(g.elements).astype(np.int64)
        seglists = [[d] for d in range(1, n + 1)] + [[d, d + 3] for d in range(1, n - 2)]
        for segs in seglists:
            name = f"strip{n}x1"
            try:
                sgrid = gridmod.grid_from_segments(g, segs)
            except Exception as e:  # noqa
                res.counterexample("segments-raises", f"grid_from_segments raises {type(e).__name__} [grid {name}]",
                                   grid=name, segments=segs, error=repr(e)[:200])
                return
            keep = [j for j in range(g.number_of_elements) if int(g.domain_indices[j]) in segs]
            sE = np.asarray(sgrid.elements).astype(np.int64)
            res.case(("oracle-small-segments", n, tuple(segs)), nontrivial=True)
            ok = sgrid.number_of_elements == len(keep)
            for k, j in enumerate(keep if ok else []):
                for r in range(3):
                    if not np.array_equal(np.asarray(sgrid.vertices)[:, sE[r, k]], np.asarray(g.vertices)[:, gE[r, j]]):
                        ok = False
            if not ok:
                res.counterexample("segments-geometry", f"grid_from_segments({segs}) of the {n}x1 strip: an element of the "
                                   "extracted grid does not have the corners of the element it came from [grid " + name + "]",
                                   grid=name, segments=segs, vertices=V.T.tolist(), elements=E.T.tolist(), domain_indices=D,
                                   extracted_elements=sE.T.tolist(), extracted_vertices=np.asarray(sgrid.vertices).T.tolist())
                return


def oracle(ctx, deep=False):
    res = Result()
    api, gridmod = _api()
    rng = ctx.rng
    M = Margin(res)
    deep = deep or ctx.thorough
    cases = []
    for name, V, E in base_grids(ctx):
        for vn, V2, E2 in variants(name, V, E, rng):
            cases.append((vn, V2, E2, True))
    for k in range(150 if deep else 40):
        V, E = soup(rng)
        cases.append((f"soup{k}", V, E, k % 2 == 0))
    for name, V, E in _sweep_bases(ctx)[: (None if deep else 2)]:
        E = np.asarray(E, np.int64)
        for sub in mg.subcomplexes(E):
            cases.append((f"{name}{list(sub)}", V, E[:, list(sub)], len(sub) <= 3))
    for style, (name, V, E, children) in enumerate(cases):
        D = [rng.choice((0, 1, 2, 5)) for _ in range(E.shape[1])]
        inp = _inp(V, E, D)
        try:
            g = make_grid(api, V, E, D, style=style)
        except Exception as e:  # noqa
            res.counterexample("grid-construction-raises", f"Grid(...) raises {type(e).__name__} on a valid triangle soup "
                               f"[grid {name}]", grid=name, input=inp, error=repr(e)[:200])
            continue
        ok = oracle_topology(res, name, g, gridmod, inp)
        ok = ok and oracle_geometry(res, name, g, inp, M)
        if ok and children and E.shape[1] <= 100:
            oracle_children(res, name, g, inp, M)
        res.case(("oracle", _key(V, E)), nontrivial=_is_nontrivial(np.asarray(E)))
    for k in range(60 if deep else 12):
        parts = []
        for _ in range(rng.randrange(1, 4)):
            V, E = soup(rng) if rng.random() < 0.7 else rng.choice(base_grids_cache(ctx))[1:]
            parts.append((V, E, [rng.choice((0, 1, 3, 4, 9)) for _ in range(E.shape[1])]))
        oracle_union_segments(res, f"union{k}", parts, api, gridmod, rng, M)
    # grid_from_segments on SMALL segments of a LARGER grid: the vertex indices of the segment exceed the size of the hash
    # table of Python's set(), so the iteration order of set(vertex indices) is not the sorted order (seeded change C11-c:
    # vertex array built in sorted order, vertex map numbered in set order)
    oracle_small_segments(res, api, gridmod)
    # Grid must reject index-degenerate elements (this is what makes NonDegenerate an assumption, not a gap)
    for t in ([0, 0, 1], [0, 1, 0], [1, 0, 0]):
        V = np.array([[0, 0, 0], [1, 0, 0], [0, 1, 0], [0, 0, 1.0]]).T
        E = np.array([t, [1, 2, 3]], dtype=np.int64).T
        try:
            make_grid(api, V, E)
            res.notes.append(f"Grid accepts the index-degenerate element {t} (outside the property's quantifier)")
        except Exception:  # noqa
            pass
        res.case(("oracle-degenerate", tuple(t)))
    return res


def search(ctx, broken):
    return oracle(ctx, deep=True)


LEVEL_TEXT = ("Lean 4 theorems for ALL grids (any number of vertices/elements, by induction over the element loop): the edge "
              "list has no duplicates and is exactly the set of sorted vertex pairs; element_edges indexes the right edge; "
              "edge/vertex adjacency list exactly the ordered pairs of distinct elements with two/one common vertices, once "
              "each, with local indices that name equal global vertices (j0<j1); neighbour tables and boundary flags are the "
              "definitional sets; refine/barycentric children have 1/4 resp. 1/6 of the parent's normal direction, vertices "
              "that are parent vertices / edge midpoints / barycentre, inherited domain index; union/segments preserve "
              "elements; Lagrange identity, J^T jit = I, unit right-handed normal.  The hand model is compared exactly with "
              "bempp_cl.api.Grid on named meshes, random soups and all sub-complexes of small meshes.")
LEVEL_NOTE = ("model-level proof tied by differential comparison; square roots / IEEE rounding not modelled; union's cross-grid "
              "domain indices are theorems about the model's normalize_array; index-degenerate elements are rejected by Grid (assumption).")
TECHNIQUE = "Lean 4 proof (induction over the element loop, grind/ring) + ast constant extraction + differential correspondence"
