"""C06 — Hypersingular and Maxwell operators equal their single-layer decompositions."""
from vlib.common import Result
from props import shared

PID = "C06"
LEAN_MODULES = ['BemppVerif.Props.C06', 'BemppVerif.Gen.AsmMatch']
LEAN_MODULES += shared.CTOR_MODULES
N = "BemppVerif.C06."
THEOREMS = []
PARTIAL = {N + "curl_sum_zero": "generated theorems are about the traces of the real assemblers at one generic configuration (2-point "
           "rules, three elements, symbolic geometry / weights / multipliers / wavenumber / kernel values); the lift to all sizes "
           "is by the identical loop structure (dense_refines_spec).  Maxwell: proved are the closed forms of the traced electric- "
           "and magnetic-field local integrals (regular and singular), the decomposition E = -ik sum_c R_c' V1 R_c - (1/ik) D' V0 D "
           "of every traced local block (V0, V1 = traces of the real scalar assemblers under the same kernel stub), the scatter of "
           "the blocks into the edge-numbered matrix and the complex symmetry of the regular E and M blocks.  Oracle-only remain: "
           "the symmetry of the full E / M matrices up to singular-quadrature error, the sparse maps R_c, D as matrices on real "
           "grids (the theorems use their local form), edge lengths as numbers (an edge length is an atom named by the vertex "
           "pair the source subtracts; its value is only compared numerically), floating-point rounding"}
TRUSTED = [
    "Tie B: assembler tracing (vlib/asmtrace.py, props/asm_gen.py, props/asm_gen_mx.py) and kernel tracing (props/kernels_gen.py): "
    "the generated theorems are about terms recorded while running the undecorated source of the real functions; "
    "numpy.linalg.norm / numpy.sqrt of registered vertex / point differences are recorded as atoms el_a_b / dst_x_y",
    "hand model Model/Asm.lean tied to the source by the generated AsmMatch theorems (symbolic, one generic configuration)",
    "classical analysis that is used but not formalised is named in PARTIAL",
    shared.CTOR_TRUSTED,
]
ASSUMPTIONS = []
RULE = 'correspondence: compiled assemblers (scalar, hypersingular, Maxwell E/M regular + singular) vs their traces at random numeric configurations (Tie B validation, 1e-13 relative); oracle: props/c06_oracle.py'
LEVEL_TEXT = ('Lean 4 theorems generated from the traces of the real assemblers: every entry of the traced Laplace hypersingular regular '
              'assembler and every singular local integral equals curl_i.curl_j x the single-layer entry on the element-wise constant '
              'space; the modified Helmholtz and Helmholtz (complex k, real and imaginary part) hypersingular entries equal '
              'curl.curl V0 -/+ k^2 (n.n) V1; plus: surface curls sum to zero on every element, jac_inv_trans gives the surface gradient. '
              'Maxwell (complex k, complex kernel stub, as pairs over any field): every traced local block of '
              'maxwell_efield_regular_assembler and every local integral of maxwell_efield_singular equals '
              '-ik sum_c R_c^T V1 R_c - (1/ik) D^T V0 D with V0 / V1 the TRACES of default_scalar_regular_kernel / '
              'default_scalar_singular_kernel on the element-wise constant / linear spaces under the same stub (R_c: vertex values of '
              'multiplier x edge length x Piola-mapped function, D: 2 x multiplier x edge length / integration element); the '
              'edge-numbered traced matrix is the scatter of the local blocks; with a symmetric kernel stub (and symmetric distance) '
              'the regular E and M blocks of (tau,sigma) are the transposes of those of (sigma,tau); the traced M blocks (regular and '
              'singular) equal W (x-y).(psi_t x psi_s) G (ik d - 1)/d^2.')
LEVEL_NOTE = ('partial: symmetry of E/M beyond the regular part (singular-quadrature error) and the assembled sparse maps are oracle-only. '
              'The singular E-field statement needs ie != 0 and kr^2+ki^2 != 0; the regular ones need no hypothesis. '
              'Trusted: Lean kernel, tracers, generated statements (RHS assembled by props/asm_gen.py / props/asm_gen_mx.py from the stated formula).')
TECHNIQUE = 'Lean 4 proof (ring identities between traces of the real assemblers) + numerical oracle'


def generate(ctx):
    info = dict(kernels=shared.gen_kernels()[0], asm=shared.gen_asm()[0])
    THEOREMS[:] = ([N + t for t in ("refGrad_sum_zero", "curl_sum_zero", "hyp_local_annihilates_constants", "curl_product_symmetric",
                                    "jac_inv_trans_is_surface_gradient", "cpToComplex_injective", "cpToComplex_ofK",
                                    "cpToComplex_add", "cpToComplex_sub", "cpToComplex_neg", "cpToComplex_mul", "cpToComplex_div",
                                    "cpToComplex_divK", "cpToComplex_ik")]
                   + shared.MX_LEMMAS
                   + shared.asm_theorems("hyp_regular", "hyp_singular", "hyp_modified", "hyp_helmholtz")
                   + shared.mx_theorems("C06"))
    info.update(shared.gen_ctors()[0])
    THEOREMS.extend(shared.ctor_theorems('laplace_boundary', 'helmholtz_boundary', 'modified_boundary', 'maxwell_boundary')
                    + [t for t in shared.CTOR_SPEC if t.split('.')[-1] in ('hypersingular_uses_single_layer_kernel', 'maxwell_kernel_and_dimension')])
    return info


def correspondence(ctx):
    return shared.trace_validation(ctx, PID)


def oracle(ctx, deep=False):
    f = shared.load_oracle(PID)
    if f is None:
        r = Result()
        r.notes.append("props/c06_oracle.py not present: no numerical oracle run")
        return r
    return f(ctx, deep)


def search(ctx, broken):
    return oracle(ctx, deep=True)
