"""C06 — Hypersingular and Maxwell operators equal their single-layer decompositions."""
from vlib.common import Result
from props import shared

PID = "C06"
LEAN_MODULES = ['BemppVerif.Props.C06', 'BemppVerif.Gen.AsmMatch']
LEAN_MODULES += shared.CTOR_MODULES
N = "BemppVerif.C06."
THEOREMS = []
PARTIAL = {N + "curl_sum_zero": "the Maxwell electric-field decomposition and the complex symmetry of E and M (up to "
           "singular-quadrature error) are oracle-only; the hypersingular decompositions (Laplace regular+singular, modified "
           "Helmholtz and Helmholtz regular) are generated theorems about the traces of the real assemblers at one generic "
           "configuration, the lift to all sizes is by the identical loop structure (dense_refines_spec)"}
TRUSTED = [
    "Tie B: assembler tracing (vlib/asmtrace.py, props/asm_gen.py) and kernel tracing (props/kernels_gen.py): the generated "
    "theorems are about terms recorded while running the undecorated source of the real functions",
    "hand model Model/Asm.lean tied to the source by the generated AsmMatch theorems (symbolic, one generic configuration)",
    "classical analysis that is used but not formalised is named in PARTIAL",
    shared.CTOR_TRUSTED,
]
ASSUMPTIONS = []
RULE = 'correspondence: compiled assemblers vs their traces at random numeric configurations (Tie B validation); oracle: props/c06_oracle.py'
LEVEL_TEXT = 'Lean 4 theorems generated from the traces of the real assemblers: every entry of the traced Laplace hypersingular regular assembler and every singular local integral equals curl_i.curl_j x the single-layer entry on the element-wise constant space; the modified Helmholtz and Helmholtz (complex k, real and imaginary part) hypersingular entries equal curl.curl V0 -/+ k^2 (n.n) V1; plus: surface curls sum to zero on every element (constants annihilated), jac_inv_trans gives the surface gradient.'
LEVEL_NOTE = 'partial: Maxwell E/M statements oracle-only. Trusted: Lean kernel, tracers, generated statements (RHS assembled by props/asm_gen.py from the stated formula).'
TECHNIQUE = 'Lean 4 proof (ring identities between traces of the real assemblers) + numerical oracle'


def generate(ctx):
    info = dict(kernels=shared.gen_kernels()[0], asm=shared.gen_asm()[0])
    THEOREMS[:] = ([N + t for t in ("refGrad_sum_zero", "curl_sum_zero", "hyp_local_annihilates_constants", "curl_product_symmetric",
                                    "jac_inv_trans_is_surface_gradient")]
                   + shared.asm_theorems("hyp_regular", "hyp_singular", "hyp_modified", "hyp_helmholtz"))
    info.update(shared.gen_ctors()[0])
    THEOREMS.extend(shared.ctor_theorems('laplace_boundary', 'helmholtz_boundary', 'modified_boundary', 'maxwell_boundary')
                    + [t for t in shared.CTOR_SPEC if t.split('.')[-1] in ('hypersingular_uses_single_layer_kernel', 'maxwell_kernel_and_dimension')])
    return info


def correspondence(ctx):
    return shared.trace_validation(ctx, PID)


def oracle(ctx, deep=False):
    f = shared.load_oracle(PID)
    if f is None:
        r = Result()
        r.notes.append("props/c06_oracle.py not present: no numerical oracle run")
        return r
    return f(ctx, deep)


def search(ctx, broken):
    return oracle(ctx, deep=True)
