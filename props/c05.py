"""C05 — Helmholtz-family operators are consistent with Laplace and with each other (partial)."""
from vlib.common import Result
from props import shared

PID = "C05"
LEAN_MODULES = ['BemppVerif.Props.C05', 'BemppVerif.Props.C12']
LEAN_MODULES += shared.CTOR_MODULES
N = "BemppVerif.C05."
THEOREMS = []
PARTIAL = {N + "sl_small_k_kernel_bound": "kernel-level bound; the lift to matrix entries (non-negative weights, rules exact for "
           "|phi_a||phi_b|) is not formalised (oracle)",
           N + "dl_small_k_factor_bound_partial": "the double-layer factor bound is proved with constant 3, the property states "
           "constant 1 (needs the exact series sum); the constant 1 is checked by the oracle only",
           N + "sl_kernel_symmetric": "complex symmetry of V, W and K' = K^T hold for the regular part and the coincident rule "
           "(swap-invariant, C12); the edge/vertex-adjacent rules are not swap-invariant: 'up to singular-quadrature error' "
           "is oracle-only"}
TRUSTED = [
    "Tie B: assembler tracing (vlib/asmtrace.py, props/asm_gen.py) and kernel tracing (props/kernels_gen.py): the generated "
    "theorems are about terms recorded while running the undecorated source of the real functions",
    "hand model Model/Asm.lean tied to the source by the generated AsmMatch theorems (symbolic, one generic configuration)",
    "classical analysis that is used but not formalised is named in PARTIAL",
    shared.CTOR_TRUSTED,
]
ASSUMPTIONS = []
RULE = 'correspondence: compiled Numba kernels vs their traces at random points and wavenumbers + dispatch of the API constructors for Re k = 0; oracle: props/c05_oracle.py'
LEVEL_TEXT = 'Lean 4 theorems about the canonical kernels, which every traced Numba kernel equals (regenerated each run): k -> -conj(k) conjugates the kernels, wavenumber i w gives the modified Helmholtz kernels, the single layer kernel is symmetric, the adjoint double layer kernel is the double layer kernel with points exchanged, and |e^{ikr}/(4 pi r) - 1/(4 pi r) - ik/(4 pi)| <= |k|^2 r/(4 pi) for |k| r <= 1 (complex k).'
LEVEL_NOTE = 'partial: matrix-level lifts and singular-quadrature statements are oracle-only. Trusted: Lean kernel, kernel tracer.'
TECHNIQUE = 'Lean 4 proof (ring_nf on traced kernels, Mathlib complex exponential bound) + numerical oracle'


def generate(ctx):
    info = dict(kernels=shared.gen_kernels()[0], asm=shared.gen_asm()[0])
    THEOREMS[:] = ([N + t for t in ("helmholtz_conj_symmetry", "imag_wavenumber_is_modified", "sl_kernel_symmetric",
                                    "adl_is_dl_transposed", "sl_small_k_kernel_bound", "regular_part_transposed",
                                    "regular_part_scales_with_kernel", "dl_small_k_factor_bound_partial")]
                   + shared.KERNEL_FACTS["helmholtz"] + shared.KERNEL_FACTS["modified"] + shared.KERNEL_FACTS["laplace"]
                   + ["BemppVerif.C12.coincident_rule_swap_invariant"])
    info.update(shared.gen_ctors()[0])
    THEOREMS.extend(shared.ctor_theorems('helmholtz_boundary', 'modified_boundary', 'helmholtz_potential', 'modified_potential', 'laplace_boundary', 'laplace_potential')
                    + [t for t in shared.CTOR_SPEC if t.split('.')[-1] in ('helmholtz_imag_is_modified', 'helmholtz_keeps_complex_wavenumber', 'singular_part_and_dtype')])
    return info


def correspondence(ctx):
    return shared.trace_validation(ctx, PID)


def oracle(ctx, deep=False):
    f = shared.load_oracle(PID)
    if f is None:
        r = Result()
        r.notes.append("props/c05_oracle.py not present: no numerical oracle run")
        return r
    return f(ctx, deep)


def search(ctx, broken):
    return oracle(ctx, deep=True)
