"""C04 oracle - operators on a subspace are congruence transforms of those on a larger space (real bempp_cl code).

Which map.  `space.py:362-392` defines two sparse matrices: `map_to_localised_space` (rows = nshape * position of the
element *in the support*) and `map_to_full_grid` (rows = nshape * element index + local index over ALL grid elements).
For a whole-grid space they coincide; for a restricted space only `T = S.map_to_full_grid` maps into the element-wise
space on the FULL grid, so the statement checked is

  (a) congruence       A_S = T_test^T  A_full  T_dom                    to 1e-12 ||A_S||_F
        A_full = the same operator on the full-grid element-wise space with the same shapeset and the same normal
        multipliers: DP0 for P0-type, DP1 for DP1/P1 (`api.function_space(grid, "DP", k, swapped_normals=...)`), and for
        RWG/SNC a space built with the public `SpaceBuilder` exactly like `make_localised_space` but over all elements
        and keeping the identifier (the Maxwell operators test `identifier == "rwg0"/"snc0"`).  Test and trial spaces
        are drawn independently: kind (DP0 / DP1 / P1 / RWG / SNC), whole grid / `segments` / `support_elements`, all
        four `include_boundary_dofs` x `truncate_at_segment_edge` combinations.
  (a') the same with `map_to_localised_space` and A on `S.localised_space` (sub-block of A_full) for a part of the cases.
  (b) sub-blocks       the columns of T are the ones the space kind promises (built here from the connectivity only):
        DP0/DP1: unit columns of the support elements (so A_S is exactly - bitwise, counted in the stats - the
        sub-block of A_full); P1: hat functions of the vertices of the closed segment (include_boundary_dofs) or of its
        interior vertices, cut to the segment iff truncate_at_segment_edge; RWG/SNC: one function per edge with two
        supported neighbours, plus (include_boundary_dofs) per edge with one, extended to the outside neighbour iff not
        truncate_at_segment_edge; columns are compared as a set, RWG/SNC up to the sign of a column.  Together with (a)
        this says: A_S = T_exp^T A_full T_exp, i.e. the sub-block of the whole-grid matrix whenever nothing is truncated.
  (c) nested spaces    || P_t^T A_fine P_d - A_coarse ||_F / ||A_coarse||_F -> 0 as the (regular, singular) orders are
        raised, for `grid.refine()` (one level; thorough: two) and `grid.barycentric_refinement`, same space kind on both
        grids.  P is built here from geometry: every fine element is located in its coarse parent by its centroid, the
        coarse basis functions (barycentric coordinates; l/(2|T|) (x - p) for RWG/SNC) are evaluated at the fine dof
        nodes (vertices / centroid / normal flux through the fine edge).  Ladder (reg, sing) = (3,3) -> (6,6) with
        reference (9,8); with D(o) = ||P_t^T A_fine(o) P_d - A_coarse(o)|| / ||A_coarse(ref)|| and the quadrature-error
        estimates e_c = ||A_coarse(hi) - A_coarse(ref)||, e_f = ||P_t^T (A_fine(hi) - A_fine(ref)) P_d|| (same
        normalisation) it is required (floor 1e-10) that
            D(hi) <= SLACK_R (e_c + e_f)   (SLACK_R = 10),   D(hi) <= CAP_R (= 6e-3, calibrated for the grids of this
            module),   D(hi) <= DECAY_R D(lo)   (DECAY_R = 0.3).
        Sparse operators are integrated exactly: P^T A_fine P = A_coarse to 1e-11.

CALIBRATION (this tree, thorough tier, 21 operator x shapeset-pair specialisations, seeds 0 and 1; quick tier seeds
0-3): (a) 672 cases per seed, worst 6.1e-16 (tolerance 1e-12); (a') 240 cases, worst 5.7e-16; all DP sub-blocks bitwise
equal; (b) 1344 column checks per seed (and 2304 further random variants off-line) without a mismatch; (c) 49 cases per
seed, one and two levels: D(3,3) <= 7.7e-2, D(6,6) <= 6.4e-4, D(6,6)/D(3,3) <= 0.085, D(6,6)/(e_c + e_f) <= 0.97;
prolongation consistent to 9e-16.  Seeded defects give D(6,6)/D(3,3) ~ 1 with D ~ 0.1-0.4.

Non-triviality rule (Appendix C): the support is a proper subset with an interface, or test and trial spaces differ.
"""
import os
import sys
import time

import numpy as np

from vlib import meshgen
from vlib.common import Ctx, Result
from props.c03_oracle import EDGE_LOCAL, catalogue, dense, mkspace, params, rel

TOL_CONG = 1e-12
TOL_T = 1e-13
SLACK_R = 10.0
DECAY_R = 0.3
CAP_R = 6e-3
FLOOR_R = 1e-10
RUNG_LO, RUNG_HI, RUNG_REF = (3, 3), (6, 6), (9, 8)


def _api():
    import bempp_cl.api as api

    return api


def par(reg, sing):
    return params(reg, sing)


# ----------------------------------------------------------------------------------------------------------------------
# full-grid element-wise spaces
# ----------------------------------------------------------------------------------------------------------------------

def full_space(api, S, swapped):
    """element-wise space over ALL elements with the shapeset and the normal multipliers of S."""
    grid = S.grid
    sh = S.shapeset.identifier
    kw = {} if not swapped else dict(swapped_normals=list(swapped))
    if sh == "p0_discontinuous":
        return api.function_space(grid, "DP", 0, **kw)
    if sh == "p1_discontinuous":
        return api.function_space(grid, "DP", 1, **kw)
    from bempp_cl.api.space.space import SpaceBuilder, invert_local2global

    ne, ns = grid.number_of_elements, S.number_of_shape_functions
    l2g = np.arange(ns * ne, dtype="uint32").reshape(ne, ns)
    mult = np.ones((ne, ns), dtype="float64")
    b = (SpaceBuilder(grid).set_codomain_dimension(S.codomain_dimension).set_support(np.ones(ne, dtype=bool))
         .set_normal_multipliers(np.array(S.normal_multipliers)).set_order(S.order).set_shapeset(sh)
         .set_is_localised(True).set_identifier(S.identifier).set_local2global(l2g)
         .set_global2local(invert_local2global(l2g, mult)).set_local_multipliers(mult)
         .set_numba_evaluator(S.numba_evaluate))
    if S.has_surface_gradient:
        b = b.set_numba_surface_gradient(S.numba_surface_gradient)
    if S.has_surface_curl:
        b = b.set_numba_surface_curl(S.numba_surface_curl)
    return b.build()


# ----------------------------------------------------------------------------------------------------------------------
# what the columns of T should be (from the connectivity only)
# ----------------------------------------------------------------------------------------------------------------------

def _topology(E):
    ne = E.shape[1]
    edge_nb = {}
    vert_nb = {}
    for e in range(ne):
        for j, (a, b) in enumerate(EDGE_LOCAL):
            key = tuple(sorted((int(E[a, e]), int(E[b, e]))))
            edge_nb.setdefault(key, []).append((e, j))
        for i in range(3):
            vert_nb.setdefault(int(E[i, e]), []).append((e, i))
    vert_on_bnd = set()
    for key, lst in edge_nb.items():
        if len(lst) == 1:
            vert_on_bnd.update(key)
    return edge_nb, vert_nb, vert_on_bnd


def expected_columns(E, kind, support, include, truncate):
    """set of columns, each a sorted tuple of (row, value); rows index nshape * element + local.  For RWG/SNC the
    overall sign of a column is normalised (first entry positive)."""
    ne = E.shape[1]
    support = np.asarray(support, bool)
    edge_nb, vert_nb, vert_on_bnd = _topology(E)
    cols = []
    if kind == "DP0":
        return {((int(e), 1.0),) for e in np.flatnonzero(support)}
    if kind == "DP1":
        return {((3 * int(e) + i, 1.0),) for e in np.flatnonzero(support) for i in range(3)}
    if kind == "P1":
        for v, lst in vert_nb.items():
            ins = [(e, i) for e, i in lst if support[e]]
            if not ins:
                continue
            interior = len(ins) == len(lst) and v not in vert_on_bnd
            if not (include or interior):
                continue
            use = ins if (truncate or interior or not include) else lst
            cols.append(tuple(sorted((3 * e + i, 1.0) for e, i in use)))
        return set(cols)
    # RWG / SNC
    for key, lst in edge_nb.items():
        ins = [(e, j) for e, j in lst if support[e]]
        if len(ins) == 2 or (len(ins) == 1 and include):
            use = ins if (truncate or len(ins) == 2) else lst
            use = sorted(use)
            col = [(3 * use[0][0] + use[0][1], 1.0)]
            if len(use) == 2:
                col.append((3 * use[1][0] + use[1][1], -1.0))
            cols.append(tuple(sorted(col)))
    return set(cols)


def actual_columns(S, signed):
    T = S.map_to_full_grid.tocsc()
    cols = []
    for d in range(T.shape[1]):
        rows = T.indices[T.indptr[d]:T.indptr[d + 1]]
        vals = T.data[T.indptr[d]:T.indptr[d + 1]]
        ent = sorted((int(r), float(v)) for r, v in zip(rows, vals) if v != 0)
        if signed and ent and ent[0][1] < 0:
            ent = [(r, -v) for r, v in ent]
        cols.append(tuple(ent))
    return cols


# ----------------------------------------------------------------------------------------------------------------------
# prolongation from geometry
# ----------------------------------------------------------------------------------------------------------------------

def _bary(P3, x):
    """barycentric coordinates of x in the triangle with corner columns P3 (3x3) and distance from its plane."""
    a, b, c = P3[:, 0], P3[:, 1], P3[:, 2]
    n = np.cross(b - a, c - a)
    nn = np.dot(n, n)
    l1 = np.dot(np.cross(x - a, c - a), n) / nn
    l2 = np.dot(np.cross(b - a, x - a), n) / nn
    dist = abs(np.dot(x - a, n)) / np.sqrt(nn)
    return np.array([1 - l1 - l2, l1, l2]), dist


def parents(coarse, fine):
    Vc, Ec = coarse.vertices, coarse.elements
    Vf, Ef = fine.vertices, fine.elements
    out = np.zeros(Ef.shape[1], int)
    worst = 0.0
    for f in range(Ef.shape[1]):
        x = Vf[:, Ef[:, f]].mean(axis=1)
        best, bv = -1, np.inf
        for c in range(Ec.shape[1]):
            lam, dist = _bary(Vc[:, Ec[:, c]], x)
            viol = max(0.0, -lam.min()) + dist
            if viol < bv:
                best, bv = c, viol
        out[f] = best
        worst = max(worst, bv)
    if worst > 1e-9:
        raise RuntimeError(f"fine element not inside any coarse element (violation {worst:.2e})")
    return out


def prolongation(coarse_space, fine_space, par_of):
    """P (fine dofs x coarse dofs): coarse basis function = sum_f P[f, c] fine basis function."""
    gc, gf = coarse_space.grid, fine_space.grid
    Vc, Ec, Vf, Ef = gc.vertices, gc.elements, gf.vertices, gf.elements
    sh = coarse_space.shapeset.identifier
    P = np.zeros((fine_space.global_dof_count, coarse_space.global_dof_count))
    seen = np.zeros(P.shape, bool)
    l2gc, mc = coarse_space.local2global, coarse_space.local_multipliers
    l2gf, mf = fine_space.local2global, fine_space.local_multipliers
    incons = 0.0
    for f in np.flatnonzero(fine_space.support):
        c = int(par_of[f])
        Cc = Vc[:, Ec[:, c]]
        Cf = Vf[:, Ef[:, f]]
        for j in range(l2gf.shape[1]):
            if mf[f, j] == 0:
                continue
            d = int(l2gf[f, j])
            if sh == "p0_discontinuous":
                vals = np.array([1.0])
            elif sh == "p1_discontinuous":
                vals, _ = _bary(Cc, Cf[:, j])
            else:
                a, b = EDGE_LOCAL[j]
                opp = 3 - a - b
                x = 0.5 * (Cf[:, a] + Cf[:, b])
                t = Cf[:, b] - Cf[:, a]
                t = t / np.linalg.norm(t)
                nu = (x - Cf[:, opp]) - np.dot(x - Cf[:, opp], t) * t
                nu = nu / np.linalg.norm(nu)
                area2 = np.linalg.norm(np.cross(Cc[:, 1] - Cc[:, 0], Cc[:, 2] - Cc[:, 0]))
                vals = np.zeros(3)
                for i, (p, q) in enumerate(EDGE_LOCAL):
                    li = np.linalg.norm(Cc[:, p] - Cc[:, q])
                    vals[i] = li / area2 * np.dot(x - Cc[:, 3 - p - q], nu)
                vals = vals / float(mf[f, j])  # functional of the fine dof seen from this element
            for i in range(l2gc.shape[1]):
                if mc[c, i] == 0:
                    continue
                D = int(l2gc[c, i])
                v = float(mc[c, i]) * float(vals[i])
                if seen[d, D]:
                    incons = max(incons, abs(P[d, D] - v))
                else:
                    P[d, D] = v
                    seen[d, D] = True
    return P, incons


# ----------------------------------------------------------------------------------------------------------------------
# variants
# ----------------------------------------------------------------------------------------------------------------------

def _patch(E, rng, size):
    ne = E.shape[1]
    sets = [set(int(v) for v in E[:, j]) for j in range(ne)]
    cur = [rng.randrange(ne)]
    while len(cur) < size:
        cand = [e for e in range(ne) if e not in cur and any(len(sets[e] & sets[c]) == 2 for c in cur)]
        if not cand:
            cand = [e for e in range(ne) if e not in cur]
        cur.append(rng.choice(cand))
    return sorted(cur)


def draw_variant(rng, shapeset, E, D, force_mode=None):
    kind = {"p0": "DP0", "p1": rng.choice(["P1", "P1", "DP1"]), "rwg": "RWG", "snc": "SNC"}[shapeset]
    labels = sorted(set(int(x) for x in D))
    mode = force_mode or rng.choice(["whole", "segments", "segments", "support", "support"])
    if mode == "segments" and len(labels) < 2:
        mode = "support"
    opts = {}
    ne = E.shape[1]
    if mode == "segments":
        opts["segments"] = sorted(rng.sample(labels, rng.randrange(1, len(labels))))
        support = np.array([int(x) in opts["segments"] for x in D])
    elif mode == "support":
        if rng.random() < 0.5:
            els = _patch(E, rng, rng.randrange(max(2, ne // 3), max(3, (2 * ne) // 3)))
        else:
            els = sorted(rng.sample(range(ne), rng.randrange(2, ne)))
        opts["support_elements"] = np.array(els, dtype=np.uint32)
        support = np.zeros(ne, bool)
        support[els] = True
    else:
        support = np.ones(ne, bool)
    include, truncate = False, True
    if kind in ("P1", "RWG", "SNC"):
        include, truncate = rng.choice([True, False]), rng.choice([True, False])
        opts["include_boundary_dofs"] = include
        opts["truncate_at_segment_edge"] = truncate
    return dict(kind=kind, mode=mode, opts=opts, support=support, include=include, truncate=truncate)


def describe(v):
    o = {k: (val.tolist() if hasattr(val, "tolist") else val) for k, val in v["opts"].items()}
    return f"{v['kind']}:{v['mode']}:{o}"


def vtag(v):
    s = v["kind"].lower() + "-" + v["mode"]
    if v["kind"] in ("P1", "RWG", "SNC"):
        s += "-incl" + str(int(v["include"])) + "-trunc" + str(int(v["truncate"]))
    return s


# ----------------------------------------------------------------------------------------------------------------------
# grids
# ----------------------------------------------------------------------------------------------------------------------

def congruence_grids(rng, thorough):
    out = []
    V, E = meshgen.cube(1)
    D = np.array([0, 0, 1, 1, 2, 2, 5, 5, 1, 2, 0, 5], dtype=np.uint32)
    out.append(dict(name="cube12-4domains", V=meshgen.perturb(V, 0.1, rng), E=E, D=D))
    V, E = meshgen.screen(3, 2, wobble=0.1, rng=rng)
    D = np.array([0 if j < 4 else (3 if j < 8 else 1) for j in range(E.shape[1])], dtype=np.uint32)
    out.append(dict(name="screen12-3domains", V=meshgen.perturb(V, 0.04, rng), E=E, D=D))
    if thorough:
        V, E = meshgen.lshape()
        D = meshgen.random_domains(E.shape[1], rng, labels=(0, 2, 7))
        out.append(dict(name="lshape28-domains", V=meshgen.perturb(V, 0.05, rng), E=E, D=D))
        V1, E1 = meshgen.tetrahedron()
        V2, E2 = meshgen.octahedron()
        V, E = meshgen.union([(0.6 * V1, E1), (V2 + np.array([[2.4], [0.2], [0.0]]), E2)])
        out.append(dict(name="tet+oct-union", V=meshgen.perturb(V, 0.07, rng), E=E,
                        D=np.array([1] * 4 + [3] * 4 + [4] * 4, dtype=np.uint32)))
    return out


def nested_grids(rng, thorough):
    out = []
    V, E = meshgen.tetrahedron()
    out.append(dict(name="tetrahedron4", V=meshgen.perturb(V, 0.15, rng), E=E))
    V, E = meshgen.screen(2, 1, wobble=0.2, rng=rng)
    out.append(dict(name="screen4", V=meshgen.perturb(V, 0.05, rng), E=E))
    V, E = meshgen.octahedron()
    out.append(dict(name="octahedron8", V=meshgen.perturb(V, 0.12, rng), E=E))
    # non-zero domain indices (used by the check that the children of grid.refine() inherit the index of their parent)
    for o in out:
        ne = o["E"].shape[1]
        o["D"] = np.array([1 + (j * 3) // ne for j in range(ne)], dtype=np.uint32)
    return out


# ----------------------------------------------------------------------------------------------------------------------
# the oracle
# ----------------------------------------------------------------------------------------------------------------------

class _Runner:
    def __init__(self, ctx, res, api, cat):
        self.ctx, self.res, self.api, self.cat, self.rng = ctx, res, api, cat, ctx.rng
        self.worst = dict(cong=0.0, cong_loc=0.0)
        self.n = dict(cong=0, cong_loc=0, tcols=0, dp_subblock=0, dp_subblock_bitwise=0, nested=0, skipped=0)
        self.nest = dict(D_lo_max=0.0, D_hi_max=0.0, ratio_max=0.0, D_over_e_max=0.0, incons_max=0.0)
        self.reported = set()
        self.notes = []

    def cex(self, key, what, **detail):
        if key in self.reported:
            return
        self.reported.add(key)
        self.res.counterexample(key, what, **detail)

    def assemble(self, spec, dom, dual, k, p):
        return dense(spec["mk"](dom, dual, k, p))

    def wavenumber(self, spec):
        if spec["wn"] is None:
            return None
        if spec["wn"] == "mh":
            return round(self.rng.uniform(0.4, 2.5), 3)
        return complex(round(self.rng.uniform(0.5, 3.0), 3), self.rng.choice([0.0, round(self.rng.uniform(0.1, 1.0), 3)]))

    # -- (b) ---------------------------------------------------------------------------------------------------------------
    def check_columns(self, S, v, g, swapped):
        signed = v["kind"] in ("RWG", "SNC")
        exp = expected_columns(g["E"], v["kind"], v["support"], v["include"], v["truncate"])
        act = actual_columns(S, signed)
        self.n["tcols"] += 1
        nd = S.global_dof_count
        ok = len(act) == len(exp) and set(act) == exp and len(set(act)) == len(act)
        if not exp:
            # a space without dofs: the code reports one phantom dof with an empty column
            ok = all(len(c) == 0 for c in act)
        if not ok:
            missing = sorted(exp - set(act))[:3]
            extra = sorted(set(act) - exp)[:3]
            self.cex(f"map-to-full-grid-columns-{vtag(v)}",
                     f"the columns of map_to_full_grid of {describe(v)} are not the basis functions the options "
                     f"promise (expected {len(exp)} columns, got {nd})", missing=str(missing), extra=str(extra),
                     grid=g["name"], vertices=g["V"].tolist(), elements=g["E"].tolist(), domain_indices=g["D"].tolist(),
                     seed=self.ctx.seed)
        return ok

    # -- (a) ---------------------------------------------------------------------------------------------------------------
    def congruence_on_grid(self, spec, pair, g, n_pairs):
        api, rng, res = self.api, self.rng, self.res
        dsh, tsh = pair
        V, E, D = g["V"], g["E"], g["D"]
        grid = api.Grid(V, E, D)
        labels = sorted(set(int(x) for x in D))
        swapped = [] if rng.random() < 0.5 else sorted(rng.sample(labels, rng.randrange(1, len(labels))))
        k = self.wavenumber(spec)
        ktag = "" if k is None else ("-complex-k" if k.imag != 0 else "-real-k")
        p = par(4, 4)
        kw = dict(swapped_normals=swapped) if swapped else {}
        # whole-grid all-dof spaces only serve to get evaluators / identifiers for the full element-wise spaces
        proto_d = mkspace(api, grid, {"p0": "DP0", "p1": "DP1", "rwg": "RWG", "snc": "SNC"}[dsh],
                          include_boundary_dofs=True, **kw)
        proto_t = mkspace(api, grid, {"p0": "DP0", "p1": "DP1", "rwg": "RWG", "snc": "SNC"}[tsh],
                          include_boundary_dofs=True, **kw)
        Fd, Ft = full_space(api, proto_d, swapped), full_space(api, proto_t, swapped)
        A_full = self.assemble(spec, Fd, Ft, k, p)
        nfull = np.linalg.norm(A_full)
        for it in range(n_pairs):
            force = None
            if it == 0:
                force = "segments"
            for _ in range(4):
                vd = draw_variant(rng, dsh, E, D, force)
                if expected_columns(E, vd["kind"], vd["support"], vd["include"], vd["truncate"]):
                    break
            for _ in range(4):
                vt = draw_variant(rng, tsh, E, D, "support" if it == 1 else None)
                if expected_columns(E, vt["kind"], vt["support"], vt["include"], vt["truncate"]):
                    break
            try:
                Sd = mkspace(api, grid, vd["kind"], **vd["opts"], **kw)
                St = mkspace(api, grid, vt["kind"], **vt["opts"], **kw)
            except Exception as e:  # noqa
                self.n["skipped"] += 1
                self.notes.append(f"space construction failed {describe(vd)} / {describe(vt)}: {type(e).__name__}: {str(e)[:80]}")
                continue
            okd = self.check_columns(Sd, vd, g, swapped)
            okt = self.check_columns(St, vt, g, swapped)
            nexp_d = len(expected_columns(E, vd["kind"], vd["support"], vd["include"], vd["truncate"]))
            nexp_t = len(expected_columns(E, vt["kind"], vt["support"], vt["include"], vt["truncate"]))
            if nexp_d == 0 or nexp_t == 0:
                self.n["skipped"] += 1
                continue
            opk = f"{spec['key']}{ktag}-{vtag(vd)}-x-{vtag(vt)}"
            base = dict(operator=spec["key"], wavenumber=str(k), domain=describe(vd), dual=describe(vt), grid=g["name"],
                        swapped_normals=swapped, seed=self.ctx.seed)
            geo = dict(vertices=V.tolist(), elements=E.tolist(), domain_indices=D.tolist())
            try:
                A_S = self.assemble(spec, Sd, St, k, p)
            except Exception as e:  # noqa
                import traceback
                self.cex(f"exception-{opk}", f"assembling {spec['key']} on {describe(vd)} x {describe(vt)} raised "
                         f"{type(e).__name__}: {str(e)[:200]}", traceback=traceback.format_exc().splitlines()[-5:], **base, **geo)
                continue
            Td, Tt = Sd.map_to_full_grid, St.map_to_full_grid
            X = Tt.T @ (A_full @ Td.toarray())
            X = np.asarray(X)
            nS = np.linalg.norm(A_S)
            den = nS if nS > 0 else (nfull if nfull > 0 else 1.0)
            r = float(np.linalg.norm(A_S - X) / den) if A_S.shape == X.shape else float("inf")
            self.worst["cong"] = max(self.worst["cong"], r)
            self.n["cong"] += 1
            proper = (vd["mode"] != "whole" and not vd["support"].all()) or (vt["mode"] != "whole" and not vt["support"].all())
            differ = describe(vd) != describe(vt)
            res.case(f"congruence/{spec['key']}/{vtag(vd)}/{vtag(vt)}", nontrivial=proper or differ,
                     sample=dict(check="congruence", rel_diff=r, **base))
            if not r <= TOL_CONG:
                # localise: which entry, and is the defect in the singular part?
                ij = np.unravel_index(np.argmax(np.abs(A_S - X)), A_S.shape) if A_S.shape == X.shape else None
                self.cex(f"congruence-{opk}",
                         "operator on the subspace differs from T_test^T A_full T_dom (T = map_to_full_grid, A_full on the "
                         "full-grid element-wise space)", rel_diff=r, tol=TOL_CONG, worst_entry=str(ij),
                         observed=str(A_S[ij]) if ij else None, expected=str(X[ij]) if ij else None,
                         columns_ok=bool(okd and okt), **base, **geo)
            # exact sub-block for DP spaces
            if vd["kind"] in ("DP0", "DP1") and vt["kind"] in ("DP0", "DP1"):
                nsd, nst = (1 if vd["kind"] == "DP0" else 3), (1 if vt["kind"] == "DP0" else 3)
                cols = (nsd * np.repeat(np.flatnonzero(vd["support"]), nsd) + np.tile(np.arange(nsd), int(vd["support"].sum())))
                rows = (nst * np.repeat(np.flatnonzero(vt["support"]), nst) + np.tile(np.arange(nst), int(vt["support"].sum())))
                sub = A_full[np.ix_(rows, cols)]
                self.n["dp_subblock"] += 1
                if sub.shape == A_S.shape and np.array_equal(sub, A_S):
                    self.n["dp_subblock_bitwise"] += 1
                rs = float(np.linalg.norm(sub - A_S) / den) if sub.shape == A_S.shape else float("inf")
                if not rs <= TOL_CONG:
                    self.cex(f"segment-subblock-{opk}", "operator on a discontinuous segment space is not the "
                             "corresponding sub-block of the full-grid matrix", rel_diff=rs, tol=TOL_CONG, **base, **geo)
            # (a') localised variant
            if it % 2 == 0 and not spec["sparse"]:
                try:
                    Ld, Lt = Sd.localised_space, St.localised_space
                    if spec["family"] == "maxwell":
                        # the public Maxwell constructors refuse the "_localised" identifier: take the sub-block
                        raise LookupError
                    A_loc = self.assemble(spec, Ld, Lt, k, p)
                except LookupError:
                    A_loc = None
                if A_loc is not None:
                    Y = np.asarray(St.map_to_localised_space.T @ (A_loc @ Sd.map_to_localised_space.toarray()))
                    r2 = float(np.linalg.norm(A_S - Y) / den) if Y.shape == A_S.shape else float("inf")
                    self.worst["cong_loc"] = max(self.worst["cong_loc"], r2)
                    self.n["cong_loc"] += 1
                    res.case(f"congruence-localised/{spec['key']}/{vtag(vd)}/{vtag(vt)}", nontrivial=proper or differ)
                    if not r2 <= TOL_CONG:
                        self.cex(f"congruence-localised-{opk}",
                                 "operator on the subspace differs from L_test^T A_loc L_dom (L = map_to_localised_space, "
                                 "A_loc on S.localised_space)", rel_diff=r2, tol=TOL_CONG, **base, **geo)

    # -- (c) ---------------------------------------------------------------------------------------------------------------
    def nested(self, spec, pair, g, how, levels):
        api, rng, res = self.api, self.rng, self.res
        dsh, tsh = pair
        coarse = api.Grid(g["V"], g["E"])
        if how == "bary":
            fine = coarse.barycentric_refinement
        else:
            fine = coarse.refine()
            for _ in range(levels - 1):
                fine = fine.refine()
        kd = {"p0": "DP0", "p1": rng.choice(["P1", "DP1"]), "rwg": "RWG", "snc": "SNC"}[dsh]
        kt = {"p0": "DP0", "p1": rng.choice(["P1", "DP1"]), "rwg": "RWG", "snc": "SNC"}[tsh]
        k = self.wavenumber(spec)
        # boundary dofs included so that open grids have dofs on both levels (the spaces stay nested)
        cd, ct = mkspace(api, coarse, kd, include_boundary_dofs=True), mkspace(api, coarse, kt, include_boundary_dofs=True)
        fd, ft = mkspace(api, fine, kd, include_boundary_dofs=True), mkspace(api, fine, kt, include_boundary_dofs=True)
        if min(cd.global_dof_count, ct.global_dof_count) == 0:
            return
        tag = f"{how}{levels}"
        try:
            par_of = parents(coarse, fine)
        except RuntimeError as e:
            self.cex(f"nested-fine-grid-not-a-refinement-{tag}",
                     f"an element of the refined grid ({tag}) does not lie inside any element of the coarse grid: {e}",
                     grid=g["name"], vertices=g["V"].tolist(), elements=g["E"].tolist(), seed=self.ctx.seed)
            return
        # segment spaces on the refined grid are nested over the coarse segment spaces only if every child inherits the domain
        # index of its parent (seeded change C04-c: the central child of grid.refine() kept index 0)
        if g.get("D") is not None and how != "bary":
            cD = api.Grid(g["V"], g["E"], np.asarray(g["D"], dtype=np.uint32))
            fD = cD.refine()
            for _ in range(levels - 1):
                fD = fD.refine()
            try:
                pD = parents(cD, fD)
                childD = np.asarray(fD.domain_indices).astype(int)
                parD = np.asarray(cD.domain_indices).astype(int)[np.asarray(pD).astype(int)]
                res.case(f"nested-domain-indices/{g['name']}/{tag}", nontrivial=len(set(parD.tolist())) > 1)
                if not np.array_equal(childD, parD):
                    badc = int(np.flatnonzero(childD != parD)[0])
                    self.cex(f"refined-grid-domain-indices-{tag}",
                             f"element {badc} of the refined grid ({tag}) has domain index {int(childD[badc])}, its parent has "
                             f"{int(parD[badc])}: segment spaces on the refined grid are not nested over the coarse ones",
                             grid=g["name"], vertices=g["V"].tolist(), elements=g["E"].tolist(),
                             domain_indices=np.asarray(g["D"]).tolist(), child=badc, seed=self.ctx.seed)
            except RuntimeError:
                pass
        Pd, i1 = prolongation(cd, fd, par_of)
        Pt, i2 = prolongation(ct, ft, par_of)
        self.nest["incons_max"] = max(self.nest["incons_max"], i1, i2)
        opk = f"{spec['key']}-{kd.lower()}-{kt.lower()}-{tag}"
        base = dict(operator=spec["key"], wavenumber=str(k), domain=kd, dual=kt, grid=g["name"], refinement=tag,
                    seed=self.ctx.seed, vertices=g["V"].tolist(), elements=g["E"].tolist())
        if max(i1, i2) > 1e-10:
            self.cex(f"nested-prolongation-inconsistent-{kd.lower()}-{kt.lower()}-{tag}",
                     "coarse basis functions evaluated at the fine dof nodes give different values from the two sides of "
                     "a shared fine dof (the fine grid / the dof numbering is not a refinement of the coarse one)",
                     inconsistency=max(i1, i2), **base)
            return
        Ac, Af = {}, {}
        for name, (r_, s_) in (("lo", RUNG_LO), ("hi", RUNG_HI), ("ref", RUNG_REF)):
            if spec["sparse"] and name != "lo":
                continue
            p = par(r_, s_)
            Ac[name] = self.assemble(spec, cd, ct, k, p)
            Af[name] = Pt.T @ self.assemble(spec, fd, ft, k, p) @ Pd
        self.n["nested"] += 1
        if spec["sparse"]:
            r = rel(Af["lo"], Ac["lo"], ref=Ac["lo"])
            res.case(f"nested/{opk}", nontrivial=True, sample=dict(check="nested", rel_diff=r, **{k_: base[k_] for k_ in ("operator", "domain", "dual", "grid", "refinement")}))
            self.nest["D_hi_max"] = max(self.nest["D_hi_max"], 0.0)
            if not r <= 1e-11:
                self.cex(f"nested-{opk}", "P^T A_fine P differs from A_coarse for a sparse (exactly integrated) operator",
                         rel_diff=r, tol=1e-11, **base)
            return
        nref = np.linalg.norm(Ac["ref"])
        D_lo = float(np.linalg.norm(Af["lo"] - Ac["lo"]) / nref)
        D_hi = float(np.linalg.norm(Af["hi"] - Ac["hi"]) / nref)
        D_ref = float(np.linalg.norm(Af["ref"] - Ac["ref"]) / nref)
        e_c = float(np.linalg.norm(Ac["hi"] - Ac["ref"]) / nref)
        e_f = float(np.linalg.norm(Af["hi"] - Af["ref"]) / nref)
        N = self.nest
        N["D_lo_max"] = max(N["D_lo_max"], D_lo)
        N["D_hi_max"] = max(N["D_hi_max"], D_hi)
        if D_hi > FLOOR_R:
            N["ratio_max"] = max(N["ratio_max"], D_hi / D_lo if D_lo > 0 else np.inf)
            N["D_over_e_max"] = max(N["D_over_e_max"], D_hi / (e_c + e_f) if (e_c + e_f) > 0 else np.inf)
        res.case(f"nested/{opk}", nontrivial=True,
                 sample=dict(check="nested", D_lo=D_lo, D_hi=D_hi, D_ref=D_ref, e_coarse=e_c, e_fine=e_f,
                             **{k_: base[k_] for k_ in ("operator", "domain", "dual", "grid", "refinement")}))
        ok_bound = D_hi <= max(FLOOR_R, min(CAP_R, SLACK_R * (e_c + e_f)))
        ok_decay = D_hi <= max(FLOOR_R, DECAY_R * D_lo)
        if not (ok_bound and ok_decay):
            self.cex(f"nested-{opk}",
                     f"P^T A_fine P - A_coarse does not vanish with the quadrature orders: D{RUNG_LO}={D_lo:.3e}, "
                     f"D{RUNG_HI}={D_hi:.3e}, D{RUNG_REF}={D_ref:.3e}, error estimates coarse {e_c:.3e} fine {e_f:.3e}",
                     D_lo=D_lo, D_hi=D_hi, D_ref=D_ref, e_coarse=e_c, e_fine=e_f, bound_ok=ok_bound, decay_ok=ok_decay, **base)


def _plan(ctx, cat, deep):
    rng = ctx.rng
    sc_pairs = [("p0", "p0"), ("p1", "p0"), ("p0", "p1"), ("p1", "p1")]
    if ctx.thorough or deep:
        plan = []
        prs = sc_pairs[:]
        rng.shuffle(prs)
        for i, key in enumerate(["lap_sl", "lap_dl", "lap_adl", "helm_sl", "mh_dl", "helm_adl", "mh_sl", "helm_dl"]):
            plan.append((key, prs[i % 4]))
        plan.insert(1, ("max_E", ("rwg", "snc")))
        plan.insert(3, ("lap_hyp", ("p1", "p1")))
        plan.insert(5, ("max_M", ("rwg", "snc")))
        plan += [("helm_hyp", ("p1", "p1")), ("mh_hyp", ("p1", "p1")), ("lap_sl", prs[1]), ("lap_dl", prs[2]),
                 ("lap_adl", prs[3]), ("mh_adl", prs[0])]
        sparse = [("id", ("p1", "p0")), ("id", ("rwg", "snc")), ("lb", ("p1", "p1")), ("id", ("p1", "p1"))]
    else:
        a = rng.choice([k for k in cat if not cat[k]["sparse"] and cat[k]["family"] != "maxwell"])
        plan = [(a, rng.choice(cat[a]["pairs"]))]
        b = rng.choice(["max_E", "max_M", "lap_hyp", "helm_hyp", "lap_dl", "mh_adl", "helm_sl"])
        if b != a:
            plan.append((b, rng.choice(cat[b]["pairs"])))
        sparse = [(rng.choice(["id", "lb"]), None)]
        sparse = [(k_, rng.choice(cat[k_]["pairs"])) for k_, _ in sparse]
    return plan, sparse


def oracle(ctx, deep=False, only=None):
    """only (or env VERIF_C04_ONLY): comma separated "operator[:domshapeset/dualshapeset]" to restrict the run."""
    res = Result()
    api = _api()
    cat = catalogue(api)
    t_start = time.time()
    thorough = ctx.thorough or deep
    only = only or os.environ.get("VERIF_C04_ONLY")
    budget = float(os.environ.get("VERIF_C04_BUDGET", 780.0 if thorough else 125.0))
    run = _Runner(ctx, res, api, cat)
    cgrids = congruence_grids(ctx.rng, thorough)
    ngrids = nested_grids(ctx.rng, thorough)
    plan, sparse = _plan(ctx, cat, deep)
    if only:
        from props.c03_oracle import _parse_only
        plan, sparse = [(k_, pr) for k_, pr, _ in _parse_only(only, cat)], []
    n_pairs = ctx.pick(5, 8) + (4 if deep else 0)
    done, cut, per_spec = [], [], []
    for i, (key, pair) in enumerate(plan[:1] + sparse + plan[1:]):
        el = time.time() - t_start
        avg = (sum(per_spec) / len(per_spec)) if per_spec else 30.0
        if done and el + avg > budget:
            cut.append(f"{key}:{pair[0]}/{pair[1]}")
            continue
        t1 = time.time()
        spec = cat[key]
        try:
            for g in (cgrids if thorough else cgrids[:2]):
                run.congruence_on_grid(spec, pair, g, n_pairs)
            # nested spaces: refine (1 level), barycentric; thorough: refine 2 levels on the smallest grid
            g = ngrids[i % len(ngrids)]
            run.nested(spec, pair, g, "refine", 1)
            g2 = ngrids[(i + 1) % len(ngrids)]
            run.nested(spec, pair, g2, "bary", 1)
            if thorough and i % 3 == 0:
                run.nested(spec, pair, ngrids[i % 2], "refine", 2)
        except Exception as e:  # noqa
            import traceback
            run.cex(f"exception-{key}-{pair[0]}-{pair[1]}", f"the oracle's use of the real code raised {type(e).__name__}: "
                    f"{str(e)[:200]}", traceback=traceback.format_exc().splitlines()[-6:], seed=ctx.seed)
        per_spec.append(time.time() - t1)
        done.append(f"{key}:{pair[0]}/{pair[1]}")
        ctx.log(f"C04 oracle {key} {pair} done in {per_spec[-1]:.1f}s")
    res.stats.update({
        "c04_specialisations_done": len(done), "c04_specialisations_cut_by_budget": len(cut),
        "c04_congruence_cases": run.n["cong"], "c04_congruence_worst_rel": run.worst["cong"],
        "c04_congruence_localised_cases": run.n["cong_loc"], "c04_congruence_localised_worst_rel": run.worst["cong_loc"],
        "c04_congruence_tol": TOL_CONG, "c04_T_column_checks": run.n["tcols"],
        "c04_dp_subblock_cases": run.n["dp_subblock"], "c04_dp_subblock_bitwise_equal": run.n["dp_subblock_bitwise"],
        "c04_spaces_skipped_no_dofs_or_unsupported": run.n["skipped"],
        "c04_nested_cases": run.n["nested"], "c04_nested_D_lo_max": run.nest["D_lo_max"],
        "c04_nested_D_hi_max": run.nest["D_hi_max"], "c04_nested_ratio_max": run.nest["ratio_max"],
        "c04_nested_decay_required": DECAY_R, "c04_nested_D_over_estimate_max": run.nest["D_over_e_max"],
        "c04_nested_slack_allowed": SLACK_R, "c04_nested_cap": CAP_R, "c04_prolongation_inconsistency_max": run.nest["incons_max"],
        "c04_oracle_wall_s": round(time.time() - t_start, 1),
    })
    res.notes.append("C04 oracle operators: " + ", ".join(done))
    if cut:
        res.notes.append("C04 oracle: not run (time budget): " + ", ".join(cut))
    for s in run.notes[:10]:
        res.notes.append("C04 oracle: " + s)
    return res


if __name__ == "__main__":
    tier = sys.argv[1] if len(sys.argv) > 1 else "quick"
    seed = int(sys.argv[2]) if len(sys.argv) > 2 else 0
    ctx = Ctx("C04", tier, seed)
    t0 = time.time()
    r = oracle(ctx, deep=(len(sys.argv) > 3 and sys.argv[3] == "deep"))
    print(f"cases {r.evaluations}, nontrivial {len(r.nontrivial)}, counterexamples {len(r.counterexamples)}")
    for c in r.counterexamples:
        short = {k: (v if not isinstance(v, (list, str)) or len(str(v)) < 300 else str(v)[:300] + "...") for k, v in c.items()}
        print("COUNTEREXAMPLE", short)
    for k, v in r.stats.items():
        print(f"  {k}: {v}")
    for s in r.samples[:8]:
        print("  sample:", s)
    for n in r.notes:
        print("  note:", n)
    print(f"wall {time.time() - t0:.1f}s (plus import)")
