"""Tie B for the OpenCL C sources: compile bempp_cl/core/sources/include/{kernels.h,*_shapeset.h} with g++ against the
symbolic shim vlib/opencl_shim.h, call every kernel function on symbolic arguments (both precisions, both outcomes of
the `kernel_parameters[1] != 0` branch) and return the recorded terms.

Result: {(fname, precision, branch): {(slot, lane): term}} with variables x0..2 (test point), y<c>[_<lane>] (trial point),
nx0..2, ny<c>[_<lane>], p0, p1, c4pi."""
import os
import re
import subprocess
import tempfile
from fractions import Fraction

from vlib import symtrace as st
from vlib.common import GenError, ROOT

INC = "bempp_cl/core/sources/include"
_SIG = re.compile(r"inline\s+void\s+(\w+)\s*\(([^)]*)\)\s*\{", re.S)


def _repo():
    return os.environ.get("BEMPP_REPO", "/repo")


def parse_signatures(text):
    out = []
    for m in _SIG.finditer(text):
        name, params = m.group(1), [p.strip() for p in m.group(2).split(",")]
        out.append((name, params))
    return out


def _width(params):
    # second parameter is the trial point: REALTYPE3 x | REALTYPE<N> x[3] | REALTYPEVEC x[3]
    p = params[1]
    m = re.search(r"REALTYPE(\d+)\s+\w+\s*\[3\]", p)
    if m:
        return int(m.group(1))
    if re.search(r"REALTYPE3\s+\w+$", p):
        return 1
    return None


def make_main(kernel_sigs, shapeset_sigs):
    L = []
    L.append("static void run_all(const char* branch) {")
    L.append("  Sym3 x = shim::var3(\"x\"); Sym3 nx = shim::var3(\"nx\");")
    L.append("  Sym params[2]; params[0] = Sym::var(\"p0\");")
    L.append("  if (shim::g_p1_nonzero) params[1] = Sym::var(\"p1\"); else params[1] = Sym(0.0);")
    for name, params in kernel_sigs:
        w = _width(params)
        if w is None or len(params) != 6:
            continue
        res = params[5]
        grad = bool(re.search(r"\[3\]\s*\[2\]", res))
        L.append("  {")
        if w == 1:
            L.append("    Sym3 y = shim::var3(\"y\"); Sym3 ny = shim::var3(\"ny\");")
            if grad:
                L.append("    Sym r[3][2];")
                L.append(f"    {name}(x, y, nx, ny, params, r);")
                L.append(f"    for (int i = 0; i < 3; i++) for (int j = 0; j < 2; j++) shim::emit(\"{name}\", branch, 2*i+j, 0, r[i][j]);")
            else:
                L.append("    Sym r[6];")
                L.append(f"    {name}(x, y, nx, ny, params, r);")
                L.append(f"    for (int i = 0; i < 6; i++) shim::emit(\"{name}\", branch, i, 0, r[i]);")
        else:
            L.append(f"    SymVec<{w}> y[3], ny[3]; shim::varvec3(\"y\", y); shim::varvec3(\"ny\", ny);")
            if grad:
                L.append(f"    SymVec<{w}> r[3][2];")
                L.append(f"    {name}(x, y, nx, ny, params, r);")
                L.append(f"    for (int i = 0; i < 3; i++) for (int j = 0; j < 2; j++) for (int l = 0; l < {w}; l++) "
                         f"shim::emit(\"{name}\", branch, 2*i+j, l, r[i][j].v[l]);")
            else:
                L.append(f"    SymVec<{w}> r[6];")
                L.append(f"    {name}(x, y, nx, ny, params, r);")
                L.append(f"    for (int i = 0; i < 6; i++) for (int l = 0; l < {w}; l++) shim::emit(\"{name}\", branch, i, l, r[i].v[l]);")
        L.append("  }")
    for name, params in shapeset_sigs:
        L.append("  if (!shim::g_p1_nonzero) {")
        L.append("    Sym2 p; p.x = Sym::var(\"u\"); p.y = Sym::var(\"v\"); Sym r[8];")
        L.append(f"    {name}(&p, r);")
        L.append(f"    for (int i = 0; i < 8; i++) shim::emit(\"{name}\", branch, i, 0, r[i]);")
        L.append("  }")
    L.append("}")
    L.append("int main() { shim::g_p1_nonzero = 0; run_all(\"im0\"); shim::g_p1_nonzero = 1; run_all(\"imnz\"); return 0; }")
    return "\n".join(L)


def _parse_out(text):
    res = {}
    for line in text.splitlines():
        if not line.strip():
            continue
        fname, branch, slot, lane, sexpr = line.split(" ", 4)
        sexpr = re.sub(r"\(const (-?0x[0-9a-fA-F.]+p[-+]?\d+)\)",
                       lambda m: "(const %s)" % Fraction(float.fromhex(m.group(1))), sexpr)
        res.setdefault((fname, branch), {})[(int(slot), int(lane))] = st.parse_sexpr(sexpr)
    return res


def trace_all():
    inc = os.path.join(_repo(), INC)
    try:
        ktext = open(os.path.join(inc, "kernels.h")).read()
        shapes = {}
        for fn in ("p0_discontinuous_shapeset.h", "p1_discontinuous_shapeset.h", "rwg0_shapeset.h", "snc0_shapeset.h"):
            shapes[fn] = open(os.path.join(inc, fn)).read()
    except OSError as e:
        raise GenError(f"OpenCL headers not readable: {e}")
    ksigs = [s for s in parse_signatures(ktext) if not s[0].startswith("diff_vec")]
    ssigs = []
    for fn, t in shapes.items():
        ssigs += parse_signatures(t)
    if not ksigs:
        raise GenError("no kernel functions found in kernels.h")
    out = {}
    with tempfile.TemporaryDirectory(prefix="verif_cl_") as td:
        for prec in (0, 1):
            src = os.path.join(td, f"trace{prec}.cpp")
            with open(src, "w") as f:
                f.write(f'#include "{os.path.join(ROOT, "vlib", "opencl_shim.h")}"\n')
                f.write(f"#define PRECISION {prec}\n#define VEC_LENGTH 4\n")
                f.write('#include "bempp_base_types.h"\n#undef M_INV_4PI\n#define M_INV_4PI (Sym::var("c4pi"))\n')
                f.write('#include "kernels.h"\n')
                for fn in shapes:
                    f.write(f'#include "{fn}"\n')
                f.write(make_main(ksigs, ssigs))
            exe = os.path.join(td, f"trace{prec}")
            p = subprocess.run(["g++", "-std=c++17", "-fpermissive", "-w", "-O0", "-I", inc, src, "-o", exe],
                               capture_output=True, text=True)
            if p.returncode != 0:
                raise GenError(f"g++ failed on the OpenCL headers (precision {prec}): {p.stderr[-1500:]}")
            q = subprocess.run([exe], capture_output=True, text=True)
            if q.returncode != 0:
                raise GenError(f"symbolic run of the OpenCL kernels failed: {q.stderr[-800:]}")
            for (fname, branch), slots in _parse_out(q.stdout).items():
                out[(fname, prec, branch)] = slots
    return out, [s[0] for s in ksigs], [s[0] for s in ssigs]


if __name__ == "__main__":
    out, ks, ss = trace_all()
    print(len(out), "traces;", len(ks), "kernel functions;", ss)
    for k in sorted(out):
        if k[1] == 1 and ("novec" in k[0] or "evaluate" in k[0]):
            for sl, t in sorted(out[k].items()):
                print(k, sl, st.show(t)[:200])
