"""Validation of Tie B for the assemblers: the COMPILED (Numba-jitted) assembly functions are run on random numeric
data laid out exactly like the symbolic configuration of props/asm_gen.py, with a jitted polynomial kernel, and every
result entry is compared with the numeric value of the traced term (atoms replaced by the same numbers).  A difference
means that the tracer does not describe what the compiled code computes (or that Numba miscompiles the function)."""
import numpy as np
import numba

from vlib import symtrace as st
from vlib.common import Result
from props import asm_gen as ag

NQ, NE, NV = ag.NQ, ag.NE, ag.NV
COEF = (0.37, 0.81, -0.45, 0.29)  # K = c0 + c1 |x-y|^2 + c2 (x-y).n_y + c3 (x-y).n_x


@numba.njit
def _poly_regular(test_point, trial_points, test_normal, trial_normals, kernel_parameters):
    n = trial_points.shape[1]
    out = np.zeros(n, dtype=trial_points.dtype)
    for j in range(n):
        d2 = 0.0
        dny = 0.0
        dnx = 0.0
        for i in range(3):
            d = test_point[i] - trial_points[i, j]
            d2 += d * d
            dny += d * trial_normals[i, j]
            dnx += d * test_normal[i]
        out[j] = 0.37 + 0.81 * d2 - 0.45 * dny + 0.29 * dnx
    return out


@numba.njit
def _poly_singular(test_points, trial_points, test_normal, trial_normal, kernel_parameters):
    n = trial_points.shape[1]
    out = np.zeros(n, dtype=trial_points.dtype)
    for j in range(n):
        d2 = 0.0
        dny = 0.0
        dnx = 0.0
        for i in range(3):
            d = test_points[i, j] - trial_points[i, j]
            d2 += d * d
            dny += d * trial_normal[i]
            dnx += d * test_normal[i]
        out[j] = 0.37 + 0.81 * d2 - 0.45 * dny + 0.29 * dnx
    return out


@numba.njit
def _cpoly_regular(test_point, trial_points, test_normal, trial_normals, kernel_parameters):
    """complex polynomial kernel, not symmetric in (x, y); the Maxwell assemblers pass None for the normals"""
    n = trial_points.shape[1]
    out = np.zeros(n, dtype=np.complex128)
    for j in range(n):
        d2 = 0.0
        for i in range(3):
            d = test_point[i] - trial_points[i, j]
            d2 += d * d
        out[j] = (0.37 + 0.81 * d2 + 0.3 * test_point[0] - 0.2 * trial_points[1, j]) + 1j * (
            -0.45 + 0.29 * d2 + 0.11 * test_point[2] + 0.17 * trial_points[0, j])
    return out


@numba.njit
def _cpoly_singular(test_points, trial_points, test_normal, trial_normal, kernel_parameters):
    n = trial_points.shape[1]
    out = np.zeros(n, dtype=np.complex128)
    for j in range(n):
        d2 = 0.0
        for i in range(3):
            d = test_points[i, j] - trial_points[i, j]
            d2 += d * d
        out[j] = (0.37 + 0.81 * d2 + 0.3 * test_points[0, j] - 0.2 * trial_points[1, j]) + 1j * (
            -0.45 + 0.29 * d2 + 0.11 * test_points[2, j] + 0.17 * trial_points[0, j])
    return out


def _cpoly(x, y):
    d = x - y
    d2 = d.dot(d)
    return (0.37 + 0.81 * d2 + 0.3 * x[0] - 0.2 * y[1]), (-0.45 + 0.29 * d2 + 0.11 * x[2] + 0.17 * y[0])


def _poly(x, y, nx, ny):
    d = x - y
    return COEF[0] + COEF[1] * d.dot(d) + COEF[2] * d.dot(ny) + COEF[3] * d.dot(nx)


class Numeric:
    def __init__(self, rng):
        r = np.random.RandomState(rng.randrange(2**31))
        self.grids = {}
        for tag, E, nv in (("", ag.ELEMS, NV), ("t", ag.ELEMS_T, 4), ("s", ag.ELEMS_S, 4)):
            ne = E.shape[1]
            self.grids[tag] = dict(E=E.astype(np.uint32), V=r.uniform(-1, 1, (3, nv)), J=r.uniform(-1, 1, (ne, 3, 2)),
                                   N=r.uniform(-1, 1, (ne, 3)), JIT=r.uniform(-1, 1, (ne, 3, 2)), ie=r.uniform(0.5, 2, ne))
        self.qp = r.uniform(0.1, 0.4, (2, NQ))
        self.qw = r.uniform(0.1, 1, NQ)
        self.stp = r.uniform(0.1, 0.4, (2, 8))
        self.ssp = r.uniform(0.1, 0.4, (2, 8))
        self.sw = r.uniform(0.1, 1, 8)
        self.nmt = r.choice([-1.0, 1.0], NE)
        self.nms = r.choice([-1.0, 1.0], NE)
        self.mt = r.uniform(-1, 1, (NE, 3))
        self.ms = r.uniform(-1, 1, (NE, 3))
        self.coef = r.uniform(-1, 1, 6)
        self.kp = r.uniform(0.2, 1.5, 2)

    def griddata(self, tag):
        from bempp_cl.api.grid.grid import GridDataDouble
        g = self.grids[tag]
        ne = g["E"].shape[1]
        nv = g["V"].shape[1]
        return GridDataDouble(np.asfortranarray(g["V"]), np.asfortranarray(g["E"]), np.zeros((2, 0), dtype=np.uint32),
                              np.zeros((3, ne), dtype=np.uint32), np.zeros(ne), g["N"].copy(), g["J"].copy(), g["JIT"].copy(),
                              np.zeros(ne), g["ie"].copy(), np.zeros((3, ne)), np.zeros(ne, dtype=np.uint32),
                              np.zeros(nv, dtype=np.bool_), np.zeros(0, dtype=np.uint32), np.zeros(ne + 1, dtype=np.uint32))

    def point(self, pid):
        def loc(tag, e, p):
            g = self.grids[tag]
            return g["V"][:, int(g["E"][0, e])] + g["J"][e] @ p
        if pid < 10:
            return loc("", pid // NQ, self.qp[:, pid % NQ])
        if pid < 20:
            return loc("t", (pid - 10) // NQ, self.qp[:, (pid - 10) % NQ])
        if pid < 100:
            return loc("s", (pid - 20) // NQ, self.qp[:, (pid - 20) % NQ])
        if pid < 200:
            return loc("", (pid - 100) // 8, self.stp[:, (pid - 100) % 8])
        return loc("", (pid - 200) // 8, self.ssp[:, (pid - 200) % 8])

    def normal(self, nid):
        if nid < 3:
            return self.grids[""]["N"][nid] * self.nmt[nid]
        if nid < 6:
            return self.grids[""]["N"][nid - 3] * self.nms[nid - 3]
        if nid < 20:
            return self.grids["t"]["N"][nid - 10] * self.nmt[nid - 10]
        if nid < 30:
            return self.grids["s"]["N"][nid - 20] * self.nms[nid - 20]
        return np.zeros(3)

    def env_for(self, term):
        env = {}
        for v in st.free_vars(term):
            if v.startswith("@"):
                continue
            name, *idx = v.split("_")
            idx = [int(i) for i in idx]
            if name in ("Kf", "Ks"):
                env[v] = _poly(self.point(idx[0]), self.point(idx[1]), self.normal(idx[2]), self.normal(idx[3]))
            elif name in ("qw", "qu", "qv"):
                env[v] = {"qw": self.qw, "qu": self.qp[0], "qv": self.qp[1]}[name][idx[0]]
            elif name in ("sw", "stu", "stv", "ssu", "ssv"):
                env[v] = {"sw": self.sw, "stu": self.stp[0], "stv": self.stp[1], "ssu": self.ssp[0], "ssv": self.ssp[1]}[name][idx[0]]
            elif name in ("ie", "iet", "ies"):
                env[v] = self.grids[{"ie": "", "iet": "t", "ies": "s"}[name]]["ie"][idx[0]]
            elif name in ("mt", "ms"):
                env[v] = (self.mt if name == "mt" else self.ms)[idx[0], idx[1]]
            elif name in ("nmt", "nms"):
                env[v] = (self.nmt if name == "nmt" else self.nms)[idx[0]]
            elif name == "N":
                env[v] = self.grids[""]["N"][idx[0], idx[1]]
            elif name == "JIT":
                env[v] = self.grids[""]["JIT"][idx[0], idx[1], idx[2]]
            elif name in ("Gcre", "Gcim"):
                env[v] = _cpoly(self.point(idx[0]), self.point(idx[1]))[0 if name == "Gcre" else 1]
            elif name == "dst":
                d = self.point(idx[0]) - self.point(idx[1])
                env[v] = float(np.sqrt(d.dot(d)))
            elif name in ("el", "elt", "els"):
                g = self.grids[name[2:]]
                d = g["V"][:, idx[0]] - g["V"][:, idx[1]]
                env[v] = float(np.sqrt(d.dot(d)))
            elif name in ("V", "Vt", "Vs"):
                env[v] = self.grids[name[1:]]["V"][idx[1], idx[0]]
            elif name in ("J", "Jt", "Js"):
                env[v] = self.grids[name[1:]]["J"][idx[0], idx[1], idx[2]]
            elif name == "coef":
                env[v] = self.coef[idx[0]]
            elif name == "kp":
                env[v] = self.kp[idx[0]]
            else:
                raise KeyError(v)
        return env


def _compare(res, fam, traced, got, num, tol=1e-11):
    worst = 0.0
    for idx, t in traced.items():
        want = st.evaluate(t, num.env_for(t))
        g = float(got[idx])
        worst = max(worst, abs(g - want))
        res.case((fam,) + tuple(idx), nontrivial=abs(want) > 1e-6)
        if abs(g - want) > tol * max(1.0, abs(want)):
            res.disagree("compiled assembler differs from its trace", family=fam, index=list(idx), compiled=g, traced=want)
            return worst
    res.stats[f"tieB_{fam}_max_abs_diff"] = worst
    return worst


def _compare_complex(res, fam, arr, got, num, tol=1e-13):
    """complex traces (object array of CSym / numbers) against the compiled complex result, relative tolerance"""
    worst, scale = 0.0, 0.0
    a = np.asarray(arr, dtype=object)
    want = np.zeros(a.shape, dtype=np.complex128)
    for idx in np.ndindex(*a.shape):
        re_, im_ = st.parts(a[idx])
        want[idx] = complex(st.evaluate(re_, num.env_for(re_)), st.evaluate(im_, num.env_for(im_)))
    scale = max(1.0, float(np.max(np.abs(want))))
    got = np.asarray(got).reshape(want.shape)
    for idx in np.ndindex(*a.shape):
        diff = abs(complex(got[idx]) - want[idx])
        worst = max(worst, diff / scale)
        res.case((fam,) + tuple(idx), nontrivial=abs(want[idx]) > 1e-6)
        if diff > tol * scale:
            res.disagree("compiled Maxwell assembler differs from its trace", family=fam, index=list(idx),
                         compiled=str(complex(got[idx])), traced=str(want[idx]))
            return worst
    res.stats[f"tieB_{fam}_max_rel_diff"] = worst
    return worst


def validate_maxwell(ctx, families=("mx_regular", "mx_singular", "mx_two", "mx_potential")):
    """COMPILED Maxwell assemblers on random numeric data laid out like the symbolic configuration of props/asm_gen_mx.py
    against the numeric value of the traces (relative 1e-13)."""
    from props import asm_gen_mx as mx
    res = Result()
    import bempp_cl.core.numba_kernels as nk
    import bempp_cl.api.space.shapesets as sh
    env = ag.Env()
    num = Numeric(ctx.rng)
    p1 = sh._SHAPESETS["p1_discontinuous"]["evaluate"]
    kp = num.kp.copy()
    u32 = lambda a: np.asarray(a, dtype=np.uint32)
    if "mx_regular" in families:
        for fname, tag in (("maxwell_efield_regular_assembler", "efield"), ("maxwell_mfield_regular_assembler", "mfield")):
            for glob in (True, False):
                tr, Tsp, Ssp = mx.trace_mx_regular(env, fname, glob=glob)
                out = np.zeros((Tsp.ndofs, Ssp.ndofs), dtype=np.complex128)
                gd = num.griddata("")
                getattr(nk, fname)(gd, gd, 3, 3, u32([0, 2]), u32([0, 1, 2]), num.mt.copy(), num.ms.copy(), u32(Tsp.l2g), u32(Ssp.l2g),
                                   num.nmt.copy(), num.nms.copy(), num.qp.copy(), num.qw.copy(), _cpoly_regular, kp, True, p1, p1, out)
                _compare_complex(res, f"mx_{tag}_regular_{'edge' if glob else 'local'}", tr, out, num)
    if "mx_singular" in families:
        P = np.array(ag.SING_PAIRS, dtype=np.uint32)
        for fname, tag in (("maxwell_efield_singular", "efield"), ("maxwell_mfield_singular", "mfield")):
            tr = mx.trace_mx_singular(env, fname)
            out = np.zeros(tr.shape[0], dtype=np.complex128)
            getattr(nk, fname)(num.griddata(""), num.stp.copy(), num.ssp.copy(), num.sw.copy(), P[:, 0].copy(), P[:, 1].copy(),
                               P[:, 2].copy(), P[:, 3].copy(), P[:, 4].copy(), P[:, 5].copy(), num.nmt.copy(), num.nms.copy(),
                               3, 3, p1, p1, _cpoly_singular, kp, out)
            _compare_complex(res, f"mx_{tag}_singular", tr, out, num)
    if "mx_two" in families:
        for fname, tag in (("maxwell_efield_regular_assembler", "efield"), ("maxwell_mfield_regular_assembler", "mfield")):
            tr, Tsp, Ssp = mx.trace_mx_regular(env, fname, two_grids=True)
            out = np.zeros((Tsp.ndofs, Ssp.ndofs), dtype=np.complex128)
            getattr(nk, fname)(num.griddata("t"), num.griddata("s"), 3, 3, u32([0, 1]), u32([0, 1]), num.mt[:2].copy(), num.ms[:2].copy(),
                               u32(Tsp.l2g), u32(Ssp.l2g), num.nmt[:2].copy(), num.nms[:2].copy(), num.qp.copy(), num.qw.copy(),
                               _cpoly_regular, kp, False, p1, p1, out)
            _compare_complex(res, f"mx_{tag}_two_grids", tr, out, num)
    if "mx_potential" in families:
        gt = num.grids["t"]
        pts = np.hstack([gt["V"][:, [int(gt["E"][0, e])]] + gt["J"][e] @ num.qp for e in range(2)])
        for fname in ("maxwell_efield_potential", "maxwell_mfield_potential", "maxwell_efield_far_field", "maxwell_mfield_far_field"):
            tr = mx.trace_mx_potential(env, fname)
            out = getattr(nk, fname)(np.dtype("float64"), np.dtype("complex128"), 3, np.asfortranarray(pts), num.coef.copy(),
                                     num.griddata("s"), num.qp.copy(), num.qw.copy(), 3, p1, _cpoly_regular, kp, num.nms[:2].copy(),
                                     u32([0, 1]))
            _compare_complex(res, "mx_" + fname[len("maxwell_"):], tr, np.asarray(out), num)
    return res


def validate_sparse(ctx):
    """COMPILED default_sparse_kernel + laplace_beltrami_kernel (+ the compiled P1 surface-gradient evaluator) against the
    numeric value of the trace of props/asm_gen_sparse.py."""
    from props import asm_gen_sparse as sg
    res = Result()
    import bempp_cl.core.numba_kernels as nk
    import bempp_cl.api.space.shapesets as sh
    import bempp_cl.api.space.scalar_spaces as ss
    env = ag.Env()
    num = Numeric(ctx.rng)
    grad = sh._SHAPESETS["p1_discontinuous"]["gradient"]
    for kind in ("p1", "dp1"):
        tr = sg.trace_laplace_beltrami(env, kind)
        out = np.zeros(tr.shape[0])
        nk.default_sparse_kernel(num.griddata(""), 3, 3, np.array(sg.ELEMENTS, dtype=np.uint32), num.qp.copy(), num.qw.copy(),
                                 num.nmt.copy(), num.nms.copy(), num.mt.copy(), num.ms.copy(), grad, grad,
                                 ss._numba_p1_surface_gradient, ss._numba_p1_surface_gradient, nk.laplace_beltrami_kernel, out)
        traced = {(k,): st.Sym.lift(tr[k]).t for k in range(tr.shape[0])}
        _compare(res, "sparse_lb_" + kind, traced, out, num, tol=1e-13)
    return res


def validate(ctx, families=("regular", "singular", "potential")):
    res = Result()
    import bempp_cl.core.numba_kernels as nk
    import bempp_cl.api.space.shapesets as sh
    env = ag.Env()
    num = Numeric(ctx.rng)
    p1 = sh._SHAPESETS["p1_discontinuous"]["evaluate"]
    p0 = sh._SHAPESETS["p0_discontinuous"]["evaluate"]
    kp = np.zeros(2)
    if "regular" in families:
        tr, Tsp, Ssp = ag.trace_boundary_regular(env, "default_scalar_regular_kernel", "p1", "dp0")
        out = np.zeros((Tsp.ndofs, Ssp.ndofs))
        gd = num.griddata("")
        nk.default_scalar_regular_kernel(gd, gd, 3, 1, np.array([0, 2], dtype=np.uint32), np.array([0, 1, 2], dtype=np.uint32),
                                         num.mt.copy(), num.ms[:, :1].copy(), Tsp.l2g.astype(np.uint32), Ssp.l2g.astype(np.uint32),
                                         num.nmt.copy(), num.nms.copy(), num.qp.copy(), num.qw.copy(), _poly_regular, kp, True,
                                         p1, p0, out)
        traced = {(r, c): st.Sym.lift(tr[r, c]).t for r in range(tr.shape[0]) for c in range(tr.shape[1])}
        _compare(res, "regular", traced, out, num)
    if "hyp" in families:
        tr, Tsp, Ssp = ag.trace_boundary_regular(env, "laplace_hypersingular_regular", "p1", "p1")
        out = np.zeros((Tsp.ndofs, Ssp.ndofs))
        gd = num.griddata("")
        nk.laplace_hypersingular_regular(gd, gd, 3, 3, np.array([0, 2], dtype=np.uint32), np.array([0, 1, 2], dtype=np.uint32),
                                         num.mt.copy(), num.ms.copy(), Tsp.l2g.astype(np.uint32), Ssp.l2g.astype(np.uint32),
                                         num.nmt.copy(), num.nms.copy(), num.qp.copy(), num.qw.copy(), _poly_regular, kp, True,
                                         p1, p1, out)
        traced = {(r, c): st.Sym.lift(tr[r, c]).t for r in range(tr.shape[0]) for c in range(tr.shape[1])}
        _compare(res, "hyp", traced, out, num)
    if "singular" in families:
        tr, Tsp, Ssp = ag.trace_singular(env, "default_scalar_singular_kernel", "p1", "dp0")
        P = np.array(ag.SING_PAIRS, dtype=np.uint32)
        out = np.zeros(tr.shape[0])
        nk.default_scalar_singular_kernel(num.griddata(""), num.stp.copy(), num.ssp.copy(), num.sw.copy(), P[:, 0].copy(), P[:, 1].copy(),
                                          P[:, 2].copy(), P[:, 3].copy(), P[:, 4].copy(), P[:, 5].copy(), num.nmt.copy(), num.nms.copy(),
                                          3, 1, p1, p0, _poly_singular, kp, out)
        traced = {(k,): st.Sym.lift(tr[k]).t for k in range(tr.shape[0])}
        _compare(res, "singular", traced, out, num)
    if "potential" in families:
        tr, Ssp = ag.trace_potential(env, "dp1")
        pts = np.hstack([num.grids["t"]["V"][:, [int(num.grids["t"]["E"][0, e])]] + num.grids["t"]["J"][e] @ num.qp for e in range(2)])
        out = nk.default_scalar_potential_kernel(np.dtype("float64"), np.dtype("float64"), 1, np.asfortranarray(pts), num.coef.copy(),
                                                 num.griddata("s"), num.qp.copy(), num.qw.copy(), 3, p1, _poly_regular, kp,
                                                 num.nms.copy(), np.array([0, 1], dtype=np.uint32))
        traced = {(0, k): st.Sym.lift(np.asarray(tr, dtype=object)[0, k]).t for k in range(4)}
        _compare(res, "potential", traced, np.asarray(out), num)
    return res
