"""C04 — Operators on a subspace are congruence transforms of those on a larger space."""
from vlib.common import Result
from props import shared

PID = "C04"
LEAN_MODULES = ['BemppVerif.Props.C04', 'BemppVerif.Gen.AsmMatch']
N = "BemppVerif.C04."
THEOREMS = []
PARTIAL = {N + "congruence": "the statement about nested spaces on refined grids (P' A_fine P = A_coarse up to vanishing quadrature "
           "error) is oracle-only; the congruence / sub-block statements are full"}
TRUSTED = [
    "Tie B: assembler tracing (vlib/asmtrace.py, props/asm_gen.py) and kernel tracing (props/kernels_gen.py): the generated "
    "theorems are about terms recorded while running the undecorated source of the real functions",
    "hand model Model/Asm.lean tied to the source by the generated AsmMatch theorems (symbolic, one generic configuration)",
    "classical analysis that is used but not formalised is named in PARTIAL",
]
ASSUMPTIONS = []
RULE = 'correspondence: compiled assemblers vs their traces at random numeric configurations (Tie B validation); oracle: props/c04_oracle.py'
LEVEL_TEXT = "Lean 4 theorems for ALL grids, spaces (arbitrary local2global / multipliers: P1, RWG, SNC, segments, support restrictions, artificial dofs), sizes and kernels: the assembled operator equals T' A T with A the element-wise matrix of local integrals and T the coefficient map; the element-wise space reproduces the local integrals entry by entry (sub-blocks). Model = trace of the real assemblers by generated theorems."
LEVEL_NOTE = 'full for congruence and sub-blocks; nested-refinement statement oracle-only. Trusted: Lean kernel, tracers, hand model tied by generated match theorems.'
TECHNIQUE = 'Lean 4 proof (refinement + congruence over contribution lists) + numerical oracle'


def generate(ctx):
    info = dict(kernels=shared.gen_kernels()[0], asm=shared.gen_asm()[0])
    THEOREMS[:] = ([N + t for t in ("congruence", "dp_entries_are_local_integrals", "dense_is_congruence", "singular_pairs_filtered")]
                   + [shared.SPEC + t for t in ("dense_refines_spec", "galerkin_congruence", "galerkin_dp_entry", "galerkin_perm")]
                   + shared.asm_theorems("regular_matches", "singular_matches"))
    return info


def correspondence(ctx):
    return shared.trace_validation(ctx, PID)


def oracle(ctx, deep=False):
    f = shared.load_oracle(PID)
    if f is None:
        r = Result()
        r.notes.append("props/c04_oracle.py not present: no numerical oracle run")
        return r
    return f(ctx, deep)


def search(ctx, broken):
    return oracle(ctx, deep=True)
