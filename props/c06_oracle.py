"""C06 numerical oracle: hypersingular and Maxwell operators equal their single-layer decompositions.

Checked on the REAL code (bempp_cl.api), for every drawn (grid, spaces, wavenumber, quadrature orders):

  W_k = sum_c C_c(test)' V0_k C_c(trial) - k^2 sum_c N_c(test)' V1_k N_c(trial)        (1e-10 relative, max norm)
        Laplace (k = 0), Helmholtz (real / complex k), modified Helmholtz (k = i w, i.e. + w^2)
  E_k = -ik sum_c R_c(test)' V1_k R_c(trial) - 1/(ik) D(test)' V0_k D(trial)            (1e-10 relative, max norm)
  Laplace W annihilates constants (P1 on closed grids, full DP1 on any grid)
  E and M: regular part (matrix minus `only_singular_part`) complex-symmetric to rounding, the full matrix
  complex-symmetric up to singular-quadrature error (two singular orders, calibrated shrinkage), when the RWG domain
  and the SNC dual space are built with the same options.

V0_k / V1_k are the library's single-layer matrices on the full-grid DP0 / DP1 spaces, assembled with the SAME
Parameters object (same regular and singular orders).

How the sparse maps are built (nothing is taken from the assemblers in core/numba_kernels.py):
  * geometry: from grid.vertices / grid.elements only: p0,p1,p2, nu = (p1-p0)x(p2-p0), 2A = |nu|, nhat = nu/2A and the
    gradients of the barycentric coordinates  grad l0 = nhat x (p2-p1)/2A, grad l1 = nhat x (p0-p2)/2A,
    grad l2 = nhat x (p1-p0)/2A.  The normal that enters the maps is grid.normals[e] * space.normal_multipliers[e]
    (this is what the code calls the normal; grid.normals is compared with nhat as a side check).
  * every space is sampled with space.evaluate(e, [(0,0),(1,0),(0,1)]) (local multipliers included): an affine
    function on a flat triangle is determined by its three vertex values f_m, its surface gradient is
    sum_m f_m grad l_m and (vector valued) its surface divergence is sum_m grad l_m . f_m.
  * C_c[e, g]      = sum_{i: l2g[e,i]=g} ( n x sum_m phi_i(v_m) grad l_m )_c                      -> DP0 coefficient
    N_c[(e,m), g]  = sum_i phi_i(v_m) n_c                                                          -> DP1 coefficient
    R_c[(e,m), g]  = sum_i psi_i(v_m)_c          (RWG trial side)                                  -> DP1 coefficient
    D[e, g]        = sum_i sum_m grad l_m . psi_i(v_m)                                             -> DP0 coefficient
    test side of E (dual space SNC, chi_i = n x psi_i): the bilinear form of the code is the one of the ROTATED
    BACK functions chi_i x n (= psi_i), so R_c(test)[(e,m), g] = (chi_i(v_m) x n)_c and
    D(test)[e, g] = sum_m grad l_m . (chi_i(v_m) x n)  (= the scalar surface curl  n . curl chi_i).
  * DP0 / DP1 column indices are those of the full-grid spaces' own local2global; the result is multiplied by the
    space's dof_transformation (identity for these spaces).

Non-trivial case (Appendix C): open grid, or a segment space, with boundary dofs.
"""
import os
import sys
import time

import numpy as np
import scipy.sparse as sp

from vlib import meshgen
from vlib.common import Ctx, Result

TOL = 1e-10          # decomposition, relative (max norm)
TOL_CONST = 1e-10    # ||W 1||_inf <= TOL_CONST ||W||_inf
TOL_REG_SYM = 2e-12  # regular part symmetric (relative, max norm)
# singular-quadrature asymmetry of E / M (relative, max norm), calibrated on /repo (see stats e_asym_*, m_asym_*):
SYM_ORDERS = (3, 6)
# observed maxima over quick seeds 0-3 + thorough: E 1.0e-3 / 1.4e-5 (ratio <= 0.015), M 2.1e-2 / 3.4e-4 (ratio <= 0.016)
SYM_BOUND = {"efield": (5e-2, 5e-4), "mfield": (2e-1, 5e-3)}   # (at SYM_ORDERS[0], at SYM_ORDERS[1])
SYM_SHRINK = 0.5      # asym(hi) <= SYM_SHRINK * asym(lo)  (unless already below SYM_FLOOR)
SYM_FLOOR = 1e-6

REFV = np.array([[0.0, 1.0, 0.0], [0.0, 0.0, 1.0]])


# ----------------------------------------------------------------------------------------------------------- grids

def _domains_by_plane(V, E, rng):
    """Two or three labels by a random plane through the centroid (contiguous segments with an interface)."""
    c = (V[:, E[0]] + V[:, E[1]] + V[:, E[2]]) / 3.0
    d = np.array([rng.uniform(-1, 1) for _ in range(3)])
    s = d @ (c - c.mean(axis=1, keepdims=True))
    lab = np.where(s > 0, 1, 2).astype(np.uint32)
    if len(set(lab.tolist())) < 2:
        lab[: len(lab) // 2] = 1
        lab[len(lab) // 2:] = 2
    # a third label on one element so that segment lists can be proper subsets in two ways
    lab[int(np.argmax(s))] = 5
    return lab


def _make_grids(ctx, rng, deep):
    """List of dicts(name, grid, closed)."""
    import bempp_cl.api as api

    out = []

    def add(name, V, E, closed):
        V = np.asarray(V, float)
        V = meshgen.perturb(V, 0.07 * rng.random(), rng)
        V = V * rng.choice([0.4, 1.0, 2.5])
        V, _, _ = meshgen.rigid(V, rng)
        V, E, = meshgen.relabel(V, E, rng)
        D = _domains_by_plane(V, E, rng)
        out.append(dict(name=name, grid=api.Grid(V, np.asarray(E, np.uint32), D), closed=closed))

    # grids need non-adjacent element pairs (regular assemblers) besides the adjacent ones: the tetrahedron (all faces
    # adjacent) and the 2x2 screen (all triangles share the centre vertex) only appear as extras in the thorough tier
    closed_names = ["octahedron", "cube", "tetrahedron"]
    n_closed = ctx.pick(1, 3) + (2 if deep else 0)
    n_open = ctx.pick(2, 4) + (2 if deep else 0)
    for i in range(n_closed):
        nm = closed_names[i % 3] if ctx.thorough or deep else rng.choice(closed_names[:2])
        V, E = meshgen.CLOSED[nm]()
        add(nm, V, E, True)
    for i in range(n_open):
        nx, ny = rng.choice([(2, 2), (3, 2), (2, 3), (3, 3)] if (ctx.thorough or deep) and i > 1 else [(2, 3), (3, 2)])
        V, E = meshgen.screen(nx, ny, wobble=0.25 * rng.random(), rng=rng)
        add(f"screen{nx}x{ny}", V, E, False)
    return out


# ----------------------------------------------------------------------------------------------------- sparse maps

class Geom:
    def __init__(self, grid):
        V = np.asarray(grid.vertices, float)
        E = np.asarray(grid.elements).astype(np.int64)
        p0, p1, p2 = V[:, E[0]].T, V[:, E[1]].T, V[:, E[2]].T  # nE x 3
        nu = np.cross(p1 - p0, p2 - p0)
        twoA = np.linalg.norm(nu, axis=1)
        self.nhat = nu / twoA[:, None]
        self.gradlam = np.stack(
            [np.cross(self.nhat, p2 - p1), np.cross(self.nhat, p0 - p2), np.cross(self.nhat, p1 - p0)], axis=1
        ) / twoA[:, None, None]  # nE x 3(m) x 3(xyz)
        self.ne = E.shape[1]
        self.grid_normals = np.asarray(grid.normals, float)
        self.normal_mismatch = float(np.abs(self.grid_normals - self.nhat).max())


def _vertex_values(space):
    """vals[e] = space.evaluate(e, three vertices): (codim, nshape, 3); zero outside the support."""
    ne = space.grid.number_of_elements
    cd, ns = space.codomain_dimension, space.number_of_shape_functions
    vals = np.zeros((ne, cd, ns, 3))
    for e in space.support_elements:
        vals[int(e)] = np.asarray(space.evaluate(int(e), REFV), float).reshape(cd, ns, 3)
    return vals


def _coo(rows, cols, data, shape, space):
    m = sp.coo_matrix((np.asarray(data, float), (np.asarray(rows), np.asarray(cols))), shape=shape).tocsr()
    return m @ sp.csr_matrix(space.dof_transformation)


def scalar_maps(space, geom, dp0, dp1):
    """(C[3], N[3]) for a space with p1 shapeset (P1 / DP1, any options)."""
    vals = _vertex_values(space)[:, 0]  # nE x ns x 3(m)
    l2g = np.asarray(space.local2global).astype(np.int64)
    nrm = geom.grid_normals * np.asarray(space.normal_multipliers, float)[:, None]
    ndof = space.grid_dof_count
    d0 = np.asarray(dp0.local2global).astype(np.int64)
    d1 = np.asarray(dp1.local2global).astype(np.int64)
    Cr, Cc, Cv = [], [], [[], [], []]
    Nr, Nc, Nv = [], [], [[], [], []]
    for e in map(int, space.support_elements):
        for i in range(vals.shape[1]):
            grad = vals[e, i] @ geom.gradlam[e]  # sum_m f_m grad l_m
            curl = np.cross(nrm[e], grad)
            Cr.append(d0[e, 0])
            Cc.append(l2g[e, i])
            for c in range(3):
                Cv[c].append(curl[c])
            for m in range(3):
                Nr.append(d1[e, m])
                Nc.append(l2g[e, i])
                for c in range(3):
                    Nv[c].append(vals[e, i, m] * nrm[e, c])
    C = [_coo(Cr, Cc, Cv[c], (dp0.global_dof_count, ndof), space) for c in range(3)]
    N = [_coo(Nr, Nc, Nv[c], (dp1.global_dof_count, ndof), space) for c in range(3)]
    return C, N


def vector_maps(space, geom, dp0, dp1, rotate_back):
    """(R[3], D) for an RWG space (rotate_back=False) or an SNC space (rotate_back=True: chi x n)."""
    vals = _vertex_values(space)  # nE x 3(c) x ns x 3(m)
    l2g = np.asarray(space.local2global).astype(np.int64)
    nrm = geom.grid_normals * np.asarray(space.normal_multipliers, float)[:, None]
    ndof = space.grid_dof_count
    d0 = np.asarray(dp0.local2global).astype(np.int64)
    d1 = np.asarray(dp1.local2global).astype(np.int64)
    Rr, Rc, Rv = [], [], [[], [], []]
    Dr, Dc, Dv = [], [], []
    tang = 0.0
    for e in map(int, space.support_elements):
        for i in range(vals.shape[2]):
            f = vals[e, :, i, :].T  # 3(m) x 3(xyz)
            if rotate_back:
                f = np.cross(f, nrm[e][None, :])
            tang = max(tang, float(np.abs(f @ geom.nhat[e]).max()))
            div = float(np.sum(geom.gradlam[e] * f))
            Dr.append(d0[e, 0])
            Dc.append(l2g[e, i])
            Dv.append(div)
            for m in range(3):
                Rr.append(d1[e, m])
                Rc.append(l2g[e, i])
                for c in range(3):
                    Rv[c].append(f[m, c])
    R = [_coo(Rr, Rc, Rv[c], (dp1.global_dof_count, ndof), space) for c in range(3)]
    D = _coo(Dr, Dc, Dv, (dp0.global_dof_count, ndof), space)
    return R, D, tang


# ------------------------------------------------------------------------------------------------------ operators

def _params(reg, sing):
    import bempp_cl.api as api

    p = api.DefaultParameters()
    p.quadrature.regular = int(reg)
    p.quadrature.singular = int(sing)
    return p


def _dense(op):
    a = op.weak_form()
    return np.asarray(a.to_dense())


def _single_layer(family, dom, dual, k, par):
    import bempp_cl.api as api

    b = api.operators.boundary
    if family == "laplace":
        return _dense(b.laplace.single_layer(dom, dual, dual, parameters=par))
    if family == "modified":
        return _dense(b.modified_helmholtz.single_layer(dom, dual, dual, k, parameters=par))
    return _dense(b.helmholtz.single_layer(dom, dual, dual, k, parameters=par))


def _hypersingular(family, dom, dual, k, par):
    import bempp_cl.api as api

    b = api.operators.boundary
    if family == "laplace":
        return _dense(b.laplace.hypersingular(dom, dual, dual, parameters=par))
    if family == "modified":
        return _dense(b.modified_helmholtz.hypersingular(dom, dual, dual, k, parameters=par))
    return _dense(b.helmholtz.hypersingular(dom, dual, dual, k, parameters=par))


def _relerr(a, b):
    scale = max(float(np.abs(a).max()), float(np.abs(b).max()), 1e-300)
    return float(np.abs(a - b).max()) / scale


def _draw_k(rng, kind, diam):
    r = rng.uniform(0.2, 4.0) / diam
    if kind == "real":
        return complex(rng.choice([-1, 1]) * r, 0.0)
    if kind == "imag":
        return complex(0.0, r)
    ph = rng.uniform(0.15, 1.4) * rng.choice([-1, 1])
    z = r * complex(np.cos(ph), np.sin(ph))
    return z if rng.random() < 0.7 else -z.conjugate()


def _diameter(grid):
    V = np.asarray(grid.vertices)
    d = V[:, :, None] - V[:, None, :]
    return float(np.sqrt((d * d).sum(axis=0)).max())


def _scalar_space_options(rng, g, closed, want_nontrivial):
    """kwargs for a P1/DP1 space; returns (kind, kwargs, nontrivial)."""
    kind = rng.choice(["P", "P", "DP"])
    kw = {}
    seg = rng.random() < (0.6 if want_nontrivial else 0.3)
    if seg:
        kw["segments"] = rng.choice([[1], [2], [1, 5], [2, 5]])
    if kind == "P":
        kw["include_boundary_dofs"] = bool(want_nontrivial or rng.random() < 0.5)
        kw["truncate_at_segment_edge"] = bool(rng.random() < 0.5)
    if rng.random() < 0.2:
        kw["swapped_normals"] = [rng.choice([1, 2])]
    nontrivial = (not closed or seg) and (kind == "DP" or kw.get("include_boundary_dofs", False))
    return kind, kw, nontrivial


def _edge_space_options(rng, closed, want_nontrivial):
    kw = {}
    seg = rng.random() < (0.6 if want_nontrivial else 0.3)
    if seg:
        kw["segments"] = rng.choice([[1], [2], [1, 5], [2, 5]])
    kw["include_boundary_dofs"] = bool(want_nontrivial or rng.random() < 0.4)
    kw["truncate_at_segment_edge"] = bool(rng.random() < 0.5)
    nontrivial = (not closed or seg) and kw["include_boundary_dofs"]
    return kw, nontrivial


def _kw_tag(kw):
    return ",".join(f"{k}={kw[k]}" for k in sorted(kw)) or "default"


# --------------------------------------------------------------------------------------------------------- oracle

def oracle(ctx, deep=False, only=None):
    """only: optional list out of 'laplace', 'helmholtz', 'modified' (hypersingular decomposition of that family),
    'const', 'maxwell', 'sym' (targeted search)."""
    import numba

    # tiny problems: one Numba thread (on an oversubscribed machine a 16-thread launch on an 8-element grid takes
    # seconds instead of milliseconds); thread-count independence is C16's subject.  Restored on exit.
    old_threads = numba.get_num_threads()
    numba.set_num_threads(max(1, min(old_threads, int(os.environ.get("VERIF_ORACLE_THREADS", "1")))))
    try:
        return _oracle(ctx, deep, only)
    finally:
        numba.set_num_threads(old_threads)


def _oracle(ctx, deep, only):
    import bempp_cl.api as api

    res = Result()
    rng = ctx.rng
    t0 = time.time()
    worst = dict(hyp=0.0, efield=0.0, const=0.0, e_reg=0.0, m_reg=0.0, tang=0.0, normals=0.0)
    asym = dict(e_lo=0.0, e_hi=0.0, m_lo=0.0, m_hi=0.0, e_ratio=0.0, m_ratio=0.0)

    grids = _make_grids(ctx, rng, deep)
    # operator families: Helmholtz always (shares its V0/V1 with the Maxwell part); the others by tier / rng
    parts = set(only) if only is not None else {"const", "maxwell", "sym"}
    if only is not None:
        families = [f for f in ("laplace", "helmholtz", "modified") if f in only]
    elif ctx.thorough or deep:
        families = ["laplace", "helmholtz", "modified"]
    else:
        families = ["helmholtz", rng.choice(["laplace", "modified"])]
    n_hyp = ctx.pick(2, 5) + (3 if deep else 0)      # space pairs x wavenumbers per grid and family
    n_max = ctx.pick(2, 5) + (3 if deep else 0)
    res.stats["families"] = families
    res.stats["grids"] = [f"{g['name']}:{g['grid'].number_of_elements}" for g in grids]

    for gi, G in enumerate(grids):
        g, closed = G["grid"], G["closed"]
        geom = Geom(g)
        worst["normals"] = max(worst["normals"], geom.normal_mismatch)
        diam = _diameter(g)
        dp0 = api.function_space(g, "DP", 0)
        dp1 = api.function_space(g, "DP", 1)
        vcache = {}

        def V01(family, k, par, key):
            ck = (family, complex(k), key)
            if ck not in vcache:
                vcache[ck] = (_single_layer(family, dp0, dp0, k, par), _single_layer(family, dp1, dp1, k, par))
            return vcache[ck]

        # ---- hypersingular decomposition
        for family in families:
            for j in range(n_hyp):
                reg, sing = rng.choice([1, 2, 3, 4, 5, 6]), rng.choice([2, 3, 4, 5, 6])
                par = _params(reg, sing)
                want = (j % 2 == 0)
                kd, kwd, nt1 = _scalar_space_options(rng, g, closed, want)
                kt, kwt, nt2 = _scalar_space_options(rng, g, closed, want)
                if rng.random() < 0.4:
                    kt, kwt, nt2 = kd, dict(kwd), nt1
                try:
                    dom = api.function_space(g, kd, 1, **kwd)
                    dual = api.function_space(g, kt, 1, **kwt)
                except Exception as ex:  # a space that cannot be built is C09's business, not ours
                    res.notes.append(f"space construction failed: {kd}{kwd} / {kt}{kwt}: {type(ex).__name__}")
                    continue
                if dom.global_dof_count == 0 or dual.global_dof_count == 0:
                    continue
                if family == "laplace":
                    k, ksq, kname = 0.0, 0.0, "k=0"
                elif family == "modified":
                    w = rng.uniform(0.2, 4.0) / diam
                    k, ksq, kname = w, -w * w, "w"
                else:
                    kk = _draw_k(rng, rng.choice(["real", "complex", "complex"]), diam)
                    k, ksq, kname = kk, kk * kk, ("real" if kk.imag == 0 else "complex")
                W = _hypersingular(family, dom, dual, k, par)
                V0, V1 = V01(family, k, par, (reg, sing))
                Ct, Nt = scalar_maps(dual, geom, dp0, dp1)
                Cd, Nd = scalar_maps(dom, geom, dp0, dp1)
                rhs = sum(Ct[c].T @ (V0 @ Cd[c].toarray()) for c in range(3)) - ksq * sum(
                    Nt[c].T @ (V1 @ Nd[c].toarray()) for c in range(3)
                )
                err = _relerr(W, rhs)
                worst["hyp"] = max(worst["hyp"], err)
                tag = f"{family}:{kd}1[{_kw_tag(kwd)}]->{kt}1[{_kw_tag(kwt)}]"
                res.case(
                    key=("hyp", family, kname, G["name"], kd, kt, _kw_tag(kwd), _kw_tag(kwt)),
                    nontrivial=bool(nt1 or nt2),
                    sample=dict(check="hyp-decomposition", grid=G["name"], spaces=tag, k=str(k), reg=reg, sing=sing,
                                rel_err=err),
                )
                if not err <= TOL:
                    res.counterexample(
                        f"hypersingular-decomposition-{family}-{'open' if not closed else 'closed'}",
                        f"{family} hypersingular matrix differs from sum_c C'V0 C - k^2 sum_c N'V1 N by {err:.3e} "
                        f"(relative, max norm; tolerance {TOL:g})",
                        grid=G["name"], vertices=np.asarray(g.vertices).tolist(),
                        elements=np.asarray(g.elements).tolist(), domain_indices=np.asarray(g.domain_indices).tolist(),
                        domain=f"{kd}1 {kwd}", dual=f"{kt}1 {kwt}", k=str(k), regular=reg, singular=sing,
                        observed=err, expected=f"<= {TOL:g}",
                    )

        # ---- Laplace hypersingular annihilates constants
        par = _params(rng.choice([2, 4, 5]), rng.choice([3, 4, 5]))
        const_spaces = [("DP", {})] if "const" in parts else []
        if closed and "const" in parts:
            const_spaces.append(("P", {}))
        for kd, kw in const_spaces:
            dom = api.function_space(g, kd, 1, **kw)
            duals = [dom]
            if closed and kd == "P":
                duals.append(api.function_space(g, "DP", 1))
            for dual in duals:
                W = _hypersingular("laplace", dom, dual, 0.0, par)
                ninf = float(np.abs(W).sum(axis=1).max())
                r = float(np.abs(W @ np.ones(W.shape[1])).max()) / max(ninf, 1e-300)
                worst["const"] = max(worst["const"], r)
                res.case(key=("const", G["name"], kd, dual is dom), nontrivial=not closed,
                         sample=dict(check="W.1=0", grid=G["name"], space=kd + "1", rel=r))
                if not r <= TOL_CONST:
                    res.counterexample(
                        f"laplace-hypersingular-constants-{kd.lower()}1-{'closed' if closed else 'open'}",
                        f"Laplace hypersingular matrix does not annihilate constants: |W 1|_inf/|W|_inf = {r:.3e}",
                        grid=G["name"], vertices=np.asarray(g.vertices).tolist(),
                        elements=np.asarray(g.elements).tolist(), observed=r, expected=f"<= {TOL_CONST:g}",
                    )

        # ---- Maxwell electric field decomposition
        for j in range(n_max if "maxwell" in parts else 0):
            reg, sing = rng.choice([1, 2, 3, 4, 5, 6]), rng.choice([2, 3, 4, 5, 6])
            par = _params(reg, sing)
            want = (j % 2 == 0)
            kwd, nt1 = _edge_space_options(rng, closed, want)
            kwt, nt2 = _edge_space_options(rng, closed, want)
            if rng.random() < 0.5:
                kwt, nt2 = dict(kwd), nt1
            dom = api.function_space(g, "RWG", 0, **kwd)
            dual = api.function_space(g, "SNC", 0, **kwt)
            if dom.global_dof_count == 0 or dual.global_dof_count == 0:
                continue
            kk = _draw_k(rng, rng.choice(["real", "imag", "complex", "complex"]), diam)
            kname = "real" if kk.imag == 0 else ("imag" if kk.real == 0 else "complex")
            Emat = _dense(api.operators.boundary.maxwell.electric_field(dom, dom, dual, kk, parameters=par))
            V0, V1 = V01("helmholtz", kk, par, (reg, sing))
            Rt, Dt, tg1 = vector_maps(dual, geom, dp0, dp1, rotate_back=True)
            Rd, Dd, tg2 = vector_maps(dom, geom, dp0, dp1, rotate_back=False)
            worst["tang"] = max(worst["tang"], tg1, tg2)
            rhs = -1j * kk * sum(Rt[c].T @ (V1 @ Rd[c].toarray()) for c in range(3)) - (1.0 / (1j * kk)) * (
                Dt.T @ (V0 @ Dd.toarray())
            )
            err = _relerr(Emat, rhs)
            worst["efield"] = max(worst["efield"], err)
            res.case(
                key=("efield", kname, G["name"], _kw_tag(kwd), _kw_tag(kwt)),
                nontrivial=bool(nt1 or nt2),
                sample=dict(check="efield-decomposition", grid=G["name"], rwg=_kw_tag(kwd), snc=_kw_tag(kwt),
                            k=str(kk), reg=reg, sing=sing, rel_err=err),
            )
            if not err <= TOL:
                res.counterexample(
                    f"maxwell-efield-decomposition-{'open' if not closed else 'closed'}",
                    f"Maxwell electric field matrix differs from -ik sum_c R'V1 R - 1/(ik) D'V0 D by {err:.3e} "
                    f"(relative, max norm; tolerance {TOL:g})",
                    grid=G["name"], vertices=np.asarray(g.vertices).tolist(),
                    elements=np.asarray(g.elements).tolist(), domain_indices=np.asarray(g.domain_indices).tolist(),
                    rwg=str(kwd), snc=str(kwt), k=str(kk), regular=reg, singular=sing,
                    observed=err, expected=f"<= {TOL:g}",
                )

        # ---- E and M complex-symmetric (same edge space on both sides)
        n_sym = 0 if "sym" not in parts else (1 if not (ctx.thorough or deep) else 2)
        for j in range(n_sym):
            kw, nt = _edge_space_options(rng, closed, j == 0)
            dom = api.function_space(g, "RWG", 0, **kw)
            dual = api.function_space(g, "SNC", 0, **kw)
            if dom.global_dof_count < 2:
                continue
            kk = _draw_k(rng, rng.choice(["real", "complex"]), diam)
            reg = rng.choice([2, 4, 5])
            for opname, ctor in (("efield", api.operators.boundary.maxwell.electric_field),
                                 ("mfield", api.operators.boundary.maxwell.magnetic_field)):
                a = {}
                for order in SYM_ORDERS:
                    par = _params(reg, order)
                    A = _dense(ctor(dom, dom, dual, kk, parameters=par))
                    S = _dense(ctor(dom, dom, dual, kk, parameters=par, assembler="only_singular_part"))
                    scale = max(float(np.abs(A).max()), 1e-300)
                    # the magnetic-field matrix of a coplanar support (e.g. a one-element segment) vanishes identically,
                    # (x-y).(psi_t x psi_s) = 0; what is assembled is rounding noise, whose relative asymmetry is O(1).
                    # Measure against the size of the electric-field matrix of the same spaces (same homogeneity); the first
                    # thorough run after a change of the grid generator raised a FALSE alarm here.
                    if opname == "efield":
                        e_scale = scale
                    else:
                        scale = max(scale, 1e-6 * e_scale)
                    Rg = A - S
                    rsym = float(np.abs(Rg - Rg.T).max()) / scale
                    a[order] = float(np.abs(A - A.T).max()) / scale
                    short = "e" if opname == "efield" else "m"
                    worst[short + "_reg"] = max(worst[short + "_reg"], rsym)
                    if not rsym <= TOL_REG_SYM:
                        res.counterexample(
                            f"maxwell-{opname}-regular-part-not-symmetric",
                            f"regular part (matrix minus only_singular_part) of the {opname} matrix is not "
                            f"complex-symmetric: {rsym:.3e} relative",
                            grid=G["name"], vertices=np.asarray(g.vertices).tolist(),
                            elements=np.asarray(g.elements).tolist(),
                            domain_indices=np.asarray(g.domain_indices).tolist(), options=str(kw), k=str(kk),
                            regular=reg, singular=order, observed=rsym, expected=f"<= {TOL_REG_SYM:g}",
                        )
                lo, hi = a[SYM_ORDERS[0]], a[SYM_ORDERS[1]]
                short = "e" if opname == "efield" else "m"
                asym[short + "_lo"] = max(asym[short + "_lo"], lo)
                asym[short + "_hi"] = max(asym[short + "_hi"], hi)
                if lo > SYM_FLOOR:
                    asym[short + "_ratio"] = max(asym[short + "_ratio"], hi / lo)
                res.case(key=("sym", opname, G["name"], _kw_tag(kw)), nontrivial=bool(nt),
                         sample=dict(check="complex-symmetry", op=opname, grid=G["name"], options=_kw_tag(kw),
                                     k=str(kk), asym_lo=lo, asym_hi=hi))
                blo, bhi = SYM_BOUND[opname]
                bad = (lo > blo) or (hi > bhi) or (hi > SYM_FLOOR and hi > SYM_SHRINK * lo)
                if bad:
                    res.counterexample(
                        f"maxwell-{opname}-not-complex-symmetric",
                        f"{opname} matrix with RWG/SNC built from the same options is not complex-symmetric up to "
                        f"singular-quadrature error: asymmetry {lo:.3e} at singular order {SYM_ORDERS[0]}, {hi:.3e} at "
                        f"{SYM_ORDERS[1]} (bounds {blo:g}/{bhi:g}, required shrink {SYM_SHRINK:g})",
                        grid=G["name"], vertices=np.asarray(g.vertices).tolist(),
                        elements=np.asarray(g.elements).tolist(),
                        domain_indices=np.asarray(g.domain_indices).tolist(), options=str(kw), k=str(kk),
                        regular=reg, observed=[lo, hi],
                    )
        ctx.log(f"C06 oracle: grid {gi + 1}/{len(grids)} {G['name']} done, {res.evaluations} cases, "
                f"{time.time() - t0:.0f}s")

    res.stats.update(
        hyp_worst_rel=worst["hyp"], efield_worst_rel=worst["efield"], tol=TOL,
        const_worst_rel=worst["const"], tol_const=TOL_CONST,
        e_regular_asym=worst["e_reg"], m_regular_asym=worst["m_reg"], tol_regular_sym=TOL_REG_SYM,
        e_asym_lo=asym["e_lo"], e_asym_hi=asym["e_hi"], e_asym_ratio=asym["e_ratio"],
        m_asym_lo=asym["m_lo"], m_asym_hi=asym["m_hi"], m_asym_ratio=asym["m_ratio"],
        sym_orders=list(SYM_ORDERS), sym_bounds={k: list(v) for k, v in SYM_BOUND.items()}, sym_shrink=SYM_SHRINK,
        max_normal_component_of_edge_functions=worst["tang"], grid_normals_vs_vertices=worst["normals"],
        oracle_wall_s=round(time.time() - t0, 1),
    )
    if worst["normals"] > 1e-12:
        res.notes.append(f"grid.normals differs from the vertex normal by {worst['normals']:.2e} (C11's business)")
    return res


if __name__ == "__main__":
    tier = sys.argv[1] if len(sys.argv) > 1 else "quick"
    seed = int(sys.argv[2]) if len(sys.argv) > 2 else 0
    deep = "deep" in sys.argv[3:]
    only = next((a[5:].split(",") for a in sys.argv[3:] if a.startswith("only=")), None)
    ctx = Ctx("C06", tier, seed)
    t = time.time()
    r = oracle(ctx, deep=deep, only=only)
    print("cases", r.evaluations, "nontrivial", len(r.nontrivial))
    for k_, v_ in r.stats.items():
        print("  stat", k_, v_)
    for n_ in r.notes:
        print("  note", n_)
    for s_ in r.samples[:4]:
        print("  sample", s_)
    for c_ in r.counterexamples:
        c2 = {k_: v_ for k_, v_ in c_.items() if k_ not in ("vertices", "elements", "domain_indices")}
        print("COUNTEREXAMPLE", c2)
    print(f"wall {time.time() - t:.1f}s (incl. import), counterexamples {len(r.counterexamples)}")
    sys.exit(1 if r.counterexamples else 0)
