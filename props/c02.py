"""C02 — Laplace potential operators reproduce Green's representation formula (partial)."""
from vlib.common import Result
from props import shared

PID = "C02"
LEAN_MODULES = ['BemppVerif.Props.C02', 'BemppVerif.Gen.AsmMatch', 'BemppVerif.Lemmas.KernelCalculus']
LEAN_MODULES += shared.CTOR_MODULES
N = "BemppVerif.C02."
THEOREMS = []
PARTIAL = {N + "potential_refines_spec": "Green's representation formula for the exact integrals and the convergence of the regular "
           "quadrature are classical analysis (not formalised): proved is that the assembler computes the kernel sum with "
           "kernels G and dG/dn_y, linearly in the density and additively over pieces of the support; the 1e-6 bound is "
           "checked by the numerical oracle"}
TRUSTED = [
    "Tie B: assembler tracing (vlib/asmtrace.py, props/asm_gen.py) and kernel tracing (props/kernels_gen.py): the generated "
    "theorems are about terms recorded while running the undecorated source of the real functions",
    "hand model Model/Asm.lean tied to the source by the generated AsmMatch theorems (symbolic, one generic configuration)",
    "classical analysis that is used but not formalised is named in PARTIAL",
    shared.CTOR_TRUSTED,
]
ASSUMPTIONS = ['points at least one element diameter from the surface (oracle)']
RULE = 'correspondence: compiled assemblers vs their traces at random numeric configurations (Tie B validation); oracle: props/c02_oracle.py'
LEVEL_TEXT = "Lean 4 theorems for all grids/spaces/sizes: the potential assembler computes the closed-form kernel sum over the quadrature points with the density evaluated through the space's coefficient map (potential_of_space), is linear, and adds over pieces of the support; kernels are G and dG/dn_y (traced = canonical, HasDerivAt). The model equals the trace of the real potential assembler (generated potential_matches_trace_*)."
LEVEL_NOTE = "partial: Green's formula and quadrature convergence are trusted analysis (oracle). Trusted: Lean kernel, tracers, hand model tied by generated match theorems."
TECHNIQUE = 'Lean 4 proof (kernel-sum refinement, generated trace-match theorems) + numerical oracle'


def generate(ctx):
    info = dict(kernels=shared.gen_kernels()[0], asm=shared.gen_asm()[0])
    THEOREMS[:] = ([N + t for t in ("potential_refines_spec", "fullGridCoef_at", "potential_of_space", "potential_linear",
                                    "potential_segments_additive")]
                   + shared.asm_theorems("potential_matches") + shared.KERNEL_FACTS["laplace"][:4]
                   + shared.CALCULUS["laplace"][:1])
    info.update(shared.gen_ctors()[0])
    THEOREMS.extend(shared.ctor_theorems('laplace_potential')
                    + [t for t in shared.CTOR_SPEC if t.split('.')[-1] in ('singular_part_and_dtype',)])
    return info


def correspondence(ctx):
    return shared.trace_validation(ctx, PID)


def oracle(ctx, deep=False):
    f = shared.load_oracle(PID)
    if f is None:
        r = Result()
        r.notes.append("props/c02_oracle.py not present: no numerical oracle run")
        return r
    return f(ctx, deep)


def search(ctx, broken):
    return oracle(ctx, deep=True)
