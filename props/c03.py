"""C03 — Boundary operators are equivariant under motion, scaling and relabelling (partial)."""
from vlib.common import Result
from props import shared

PID = "C03"
LEAN_MODULES = ['BemppVerif.Props.C03', 'BemppVerif.Props.C03Rot', 'BemppVerif.Gen.AsmMatch']
N = "BemppVerif.C03."
THEOREMS = []
PARTIAL = {N + "rotation_preserves_invariants": "kernel-level and spec-level statements only: the equivariance of the geometric factors "
           "(cross products for normals / surface curls / n x rwg, Jacobian columns) under rotations and reflections IS proved "
           "(Props/C03Rot.lean: cross_rotation_equivariant, cross_reflection_flips, jacobian_columns_corotate) but as statements "
           "about np.cross / vertex differences, composed with the traced assemblers by hand, not mechanically; the dof-permutation statement for "
           "vertex renumbering, and everything 'up to singular-quadrature error' (local vertex rotation, orientation flips) are "
           "oracle-only"}
TRUSTED = [
    "Tie B: assembler tracing (vlib/asmtrace.py, props/asm_gen.py) and kernel tracing (props/kernels_gen.py): the generated "
    "theorems are about terms recorded while running the undecorated source of the real functions",
    "hand model Model/Asm.lean tied to the source by the generated AsmMatch theorems (symbolic, one generic configuration)",
    "classical analysis that is used but not formalised is named in PARTIAL",
]
ASSUMPTIONS = []
RULE = 'correspondence: compiled Numba kernels vs their traces at random points and wavenumbers; oracle: props/c03_oracle.py'
LEVEL_TEXT = "Lean 4 theorems about the canonical kernels (= traced kernels): translation invariance, dependence on (r, d.n_y, d.n_x) only, invariance of these under every matrix with Q'Q = 1, cross products (normals, surface curls, n x rwg) co-rotate under rotations and flip under reflections, homogeneity under scaling; the Galerkin sum is independent of the element order."
LEVEL_NOTE = 'partial: geometric-factor equivariance and singular-quadrature statements oracle-only. Trusted: Lean kernel, kernel tracer.'
TECHNIQUE = 'Lean 4 proof (ring / linear_combination on traced kernels) + numerical oracle'


def generate(ctx):
    info = dict(kernels=shared.gen_kernels()[0], asm=shared.gen_asm()[0])
    THEOREMS[:] = ([N + t for t in ("kernels_translation_invariant", "kernels_depend_on_r_dny_dnx", "rotation_preserves_invariants",
                                    "scaling_of_invariants", "laplace_kernel_homogeneity", "galerkin_element_order_irrelevant",
                                    "cross_rotation_equivariant", "cross_reflection_flips", "jacobian_columns_corotate")]
                   + sum(shared.KERNEL_FACTS.values(), [])
                   # the traced assemblers = the model / the decompositions, entry by entry: these statements carry how the
                   # normals enter (normal x normal multiplier on BOTH sides, which is what makes a swapped-normals flag
                   # equivalent to reversed orientation) and that nothing but vertex differences enters the geometry.
                   # (seeded change C03-c dropped the trial-side multiplier of the Helmholtz hypersingular n.n term)
                   + shared.asm_theorems("regular_matches", "singular_matches", "hyp_regular", "hyp_singular", "hyp_modified",
                                         "hyp_helmholtz"))
    return info


def correspondence(ctx):
    return shared.trace_validation(ctx, PID)


def oracle(ctx, deep=False):
    f = shared.load_oracle(PID)
    if f is None:
        r = Result()
        r.notes.append("props/c03_oracle.py not present: no numerical oracle run")
        return r
    return f(ctx, deep)


def search(ctx, broken):
    return oracle(ctx, deep=True)
