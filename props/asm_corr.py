"""Tie C for the whole dense-assembly pipeline: the REAL compiled assembly (colour launches, regular kernel, singular
bookkeeping, Duffy rules, scatter) with an injected polynomial kernel against the Lean model evaluated in exact rational
arithmetic by the native driver (`asmdense`), on axis-aligned meshes whose normals and integration elements are rational."""
from fractions import Fraction as F

import numpy as np

from vlib import meshgen as mg
from vlib.common import run_driver
from props.asm_validate import _poly_regular, _poly_singular, COEF


def _r(x):
    fr = F(float(x))
    return f"{fr.numerator}/{fr.denominator}" if fr.denominator != 1 else str(fr.numerator)


def _space_tokens(sp, ne):
    kind = 0 if sp.shapeset.identifier == "p0_discontinuous" else 1
    ns = sp.number_of_shape_functions
    t = [str(kind), str(ns), str(sp.global_dof_count)]
    t += [str(int(b)) for b in sp.support]
    t += [_r(v) for v in sp.normal_multipliers]
    t += [str(int(v)) for v in sp.local2global.ravel()]
    t += [_r(v) for v in sp.local_multipliers.ravel()]
    return t


def request(grid, test, trial, reg_order, sing_order):
    from bempp_cl.api.integration import triangle_gauss, gauss
    pts, w = triangle_gauss.rule(reg_order)
    xs, ws = gauss.rule(sing_order)
    ne = grid.number_of_elements
    toks = ["asmdense"] + [_r(c) for c in COEF]
    toks += [str(len(w))] + [_r(v) for q in range(len(w)) for v in (pts[0, q], pts[1, q], w[q])]
    toks += [str(len(xs))] + [_r(v) for v in xs] + [_r(v) for v in ws]
    toks.append(str(ne))
    for e in range(ne):
        toks += [str(int(v)) for v in grid.elements[:, e]]
        for k in range(3):
            toks += [_r(v) for v in grid.vertices[:, grid.elements[k, e]]]
        toks += [_r(v) for v in grid.normals[e]]
        toks.append(_r(grid.integration_elements[e]))
    toks += _space_tokens(test, ne) + _space_tokens(trial, ne)
    idx, ptr = test.get_elements_by_color()
    ncol = len(ptr) - 1
    toks.append(str(ncol))
    for c in range(ncol):
        launch = idx[ptr[c]:ptr[c + 1]]
        toks += [str(len(launch))] + [str(int(v)) for v in launch]
    tidx, _ = trial.get_elements_by_color()
    toks += [str(len(tidx))] + [str(int(v)) for v in tidx]
    ea, va = grid.edge_adjacency, grid.vertex_adjacency
    toks += [str(ea.shape[1])] + [str(int(v)) for c in range(ea.shape[1]) for v in ea[:, c]]
    toks += [str(va.shape[1])] + [str(int(v)) for c in range(va.shape[1]) for v in va[:, c]]
    return " ".join(toks)


def real_matrix(test, trial, reg_order, sing_order):
    """Assemble with the real code, the polynomial kernel injected in place of the Laplace single-layer kernels."""
    import bempp_cl.api as api
    import bempp_cl.core.numba_kernels as nk
    saved = (nk.laplace_single_layer_regular, nk.laplace_single_layer_singular)
    nk.laplace_single_layer_regular, nk.laplace_single_layer_singular = _poly_regular, _poly_singular
    try:
        par = api.assign_parameters(None)
        import copy
        par = copy.deepcopy(api.GLOBAL_PARAMETERS)
        par.quadrature.regular = reg_order
        par.quadrature.singular = sing_order
        op = api.operators.boundary.laplace.single_layer(trial, test, test, parameters=par, assembler="dense")
        return np.array(op.weak_form().to_dense())
    finally:
        nk.laplace_single_layer_regular, nk.laplace_single_layer_singular = saved


def cases(ctx):
    import bempp_cl.api as api
    rng = ctx.rng
    out = []
    meshes = [("cube", mg.cube(1))]
    if ctx.thorough:
        meshes += [("lshape", mg.lshape()), ("cube-alt", mg.cube(1, flip_diag=True))]
    for name, (V, E) in meshes:
        V = V * np.array([[1.0], [0.5], [2.0]])  # anisotropic dyadic scaling keeps normals and areas rational
        ne = E.shape[1]
        D = np.array([rng.choice((0, 2)) for _ in range(ne)], dtype=np.uint32)
        D[0], D[-1] = 0, 2
        g = api.Grid(V, E, D)
        full = [("DP", 0, {}), ("P", 1, {}), ("DP", 1, {})]
        seg = [("DP", 0, dict(segments=[2])), ("P", 1, dict(segments=[2], include_boundary_dofs=True)),
               ("P", 1, dict(segments=[0], truncate_at_segment_edge=False)), ("DP", 1, dict(segments=[0], swapped_normals=[0]))]
        combos = [(full[0], full[1]), (rng.choice(seg), rng.choice(full)), (rng.choice(full), rng.choice(seg))]
        if ctx.thorough:
            combos += [(a, b) for a in full for b in full][:6] + [(rng.choice(seg), rng.choice(seg)) for _ in range(3)]
        for (tk, sk) in combos:
            test = api.function_space(g, tk[0], tk[1], **tk[2])
            trial = api.function_space(g, sk[0], sk[1], **sk[2])
            ro = rng.choice((1, 2, 3))
            so = rng.choice((1, 2))
            out.append((f"{name}:{tk}:{sk}:reg{ro}:sing{so}", g, test, trial, ro, so))
    return out


def dense_correspondence(ctx, res):
    reqs, meta = [], []
    for label, g, test, trial, ro, so in cases(ctx):
        A = real_matrix(test, trial, ro, so)
        reqs.append(request(g, test, trial, ro, so))
        meta.append((label, A))
    if not reqs:
        return
    worst = 0.0
    for (label, A), ans in zip(meta, run_driver(reqs, timeout=3000)):
        t = ans.split()
        nontriv = "segments" in label or "P', 1" in label
        res.case(("asmdense", label), nontrivial=nontriv, sample=dict(kind="asmdense", case=label, shape=list(A.shape)))
        if t[0] != "ok" or (int(t[1]), int(t[2])) != A.shape:
            res.disagree("dense assembly model: shape/status", case=label, impl=list(A.shape), model=" ".join(t[:3]))
            continue
        M = np.array([float(F(x)) for x in t[3:]]).reshape(A.shape)
        scale = max(1.0, float(np.abs(M).max()))
        err = float(np.abs(M - A).max()) / scale
        worst = max(worst, err)
        if err > 1e-11:
            r, c = np.unravel_index(np.argmax(np.abs(M - A)), A.shape)
            res.disagree("dense assembly: real matrix differs from the model", case=label, entry=[int(r), int(c)],
                         impl=float(A[r, c]), model=float(M[r, c]), rel_err=err)
    res.stats["asmdense_worst_rel_diff"] = worst
