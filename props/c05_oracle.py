"""C05 numerical oracle: the Helmholtz family is consistent with Laplace and with itself.

All checks run on the REAL code (bempp_cl.api) on small closed and open grids, for the scalar space kinds DP0, DP1, P1
in domain and dual position, random regular / singular quadrature orders, and wavenumbers k that are real, purely
imaginary and complex.

(a) small-k bounds, |k| D <= 1 (D = largest distance between two grid vertices), entrywise:
        | V_k - V_0 - (ik/4pi) m_t m_s' |  <=  |k|^2 D/(4pi)  mt_t mt_s'
        | K_k - K_0 | , | K'_k - K'_0 |    <=  |k|^2  /(4pi)  mt_t mt_s'
    with NO slack factor; the only allowance is rounding: bound*(1+1e-12) + 1e-13*(|A_k|+|A_0|) entrywise.
    HOW m IS COMPUTED: with the library's own regular rule (bempp_cl.api.integration.triangle_gauss.rule(order), the
    order used for the assembly) and the library's own basis evaluation space.evaluate(e, points):
        m[g]  = sum_{(e,i): local2global[e,i]=g} integration_elements[e] * sum_q  w_q  * phi_i(x_q)
        mt[g] = sum_{(e,i): local2global[e,i]=g} integration_elements[e] * sum_q |w_q| * |phi_i(x_q)|
    For rules with positive weights (orders 1,2,4,5,6) mt = m = integral of |phi_g| (the P0/P1 shape functions are
    non-negative), which is exactly the statement; the orders 3 and 7 of the library have one negative weight, there
    the bound is only provable with mt on the right-hand side and that is what is checked.  In the thorough tier m is
    cross-checked against the row sums of the library's mass matrix identity(DP0, DP0, space) (1e-13 relative).
    The rank-one term needs the singular (Duffy) rules to integrate phi_a(x) phi_b(y) exactly: true for singular
    order >= 3 (order 2 is exact for P0 x P0 only, order 1 not even for constants); (a) uses singular orders 3..6.
(b) i w == modified Helmholtz:  boundary (V, K, K', W) and potential (SL, DL) operators built through
    operators.*.helmholtz with k = i w coincide with operators.*.modified_helmholtz(w) to rounding, the constructor
    path is the modified one (descriptor identifier 'modified_helmholtz_*', options [w], real matrix), for Re k != 0 it
    is 'helmholtz_*' with options [Re k, Im k]; and k = eps + i w -> modified with the PROVABLE O(eps) bounds
        |V_{eps+iw} - V^mod_w| <= eps/(4pi) mt mt',   |K..|,|K'..| <= eps |k|/(4pi) mt mt',
        |W_{eps+iw} - W^mod_w| <= eps/(4pi) gt gt' + eps(eps+2w) V_0 + w^2 eps/(4pi) mt mt'
    (gt[g] = sum |multiplier| * (opposite edge length)/2 = integral of |curl phi_g|; positive-weight orders only),
    potentials: |(S_{eps+iw} - S^mod_w) x| <= eps/(4pi) sum_b |x_b| mt_b, double layer with eps|k|.
(c) k -> -conj(k) conjugates every matrix (1e-13 relative, max norm), boundary and potential.
(d) symmetry: the regular part (matrix minus assembler='only_singular_part') of V, W (equal spaces) is complex
    symmetric and the regular part of K'(S1->S2) is the transpose of the regular part of K(S2->S1) to rounding; the
    full matrices are so up to singular-quadrature error: two singular orders, calibrated bounds and shrink factor.

Non-trivial case (Appendix C): k has non-zero real and imaginary part.
"""
import contextlib
import math
import os
import sys
import time

import numpy as np

from vlib import meshgen
from vlib.common import Ctx, Result

INV4PI = 1.0 / (4.0 * math.pi)
RND_REL = 1e-12          # relative rounding allowance on a bound
RND_ABS = 1e-13          # times (|A_k| + |A_0|), entrywise
TOL_EQ = 1e-13           # "to rounding" (relative, max norm)
POS_REG = [1, 2, 4, 5, 6]    # regular orders with positive weights
ALL_REG = [1, 2, 3, 4, 5, 6, 7]
SING_A = [3, 4, 5, 6]        # singular orders exact for P1 x P1 products
# (d) calibration (relative asymmetry, max norm; bounds at SYM_ORDERS[0] / SYM_ORDERS[1]).  Observed maxima over quick
# seeds 0-3 + two thorough runs: sl 9.4e-3 / 1.5e-5, dl 2.3e-2 / 1.7e-4, hyp 4.2e-3 / 7.5e-6, ratio hi/lo <= 0.033
SYM_ORDERS = (3, 6)
SYM_BOUND = {"sl": (1e-1, 5e-4), "hyp": (1e-1, 5e-4), "dl": (2e-1, 5e-3)}
SYM_SHRINK = 0.5
SYM_FLOOR = 1e-6
TOL_REG_SYM = 2e-12

KINDS = [("DP", 0), ("DP", 1), ("P", 1)]


def _kname(kind):
    return f"{kind[0].lower()}{kind[1]}"


# ----------------------------------------------------------------------------------------------------------- grids

def _make_grids(ctx, rng, deep):
    import bempp_cl.api as api

    out = []

    def add(name, V, E, closed):
        V = np.asarray(V, float)
        V = meshgen.perturb(V, 0.08 * rng.random(), rng)
        V = V * rng.choice([0.3, 1.0, 3.0])
        V, _, _ = meshgen.rigid(V, rng)
        V, E = meshgen.relabel(V, E, rng)
        g = api.Grid(V, np.asarray(E, np.uint32))
        Vt = np.asarray(g.vertices)
        d = Vt[:, :, None] - Vt[:, None, :]
        out.append(dict(name=name, grid=g, closed=closed, diam=float(np.sqrt((d * d).sum(axis=0)).max())))

    # every grid must have non-adjacent element pairs (regular kernels) as well as edge- and vertex-adjacent ones:
    # no tetrahedron (all faces adjacent), no 2x2 screen (all 8 triangles share the centre vertex)
    nc = ctx.pick(2, 4) + (2 if deep else 0)
    no = ctx.pick(2, 4) + (2 if deep else 0)
    names = ["octahedron", "cube", "octahedron", "cube"]
    rng.shuffle(names)
    for i in range(nc):
        nm = names[i % len(names)]
        V, E = meshgen.CLOSED[nm]()
        add(nm, V, E, True)
    shapes = [(3, 2), (2, 3), (3, 3), (4, 2)]
    rng.shuffle(shapes)
    for i in range(no):
        nx, ny = shapes[i % len(shapes)]
        V, E = meshgen.screen(nx, ny, wobble=0.1 + 0.3 * rng.random(), rng=rng)
        add(f"screen{nx}x{ny}", V, E, False)
    for G in out:
        G["regular_pairs"] = _regular_pairs(G["grid"])
    return out


def _regular_pairs(grid):
    E = np.asarray(grid.elements).astype(np.int64)
    sets = [set(E[:, j].tolist()) for j in range(E.shape[1])]
    return sum(1 for a in range(len(sets)) for b in range(len(sets)) if not (sets[a] & sets[b]))


def _space(api, G, kind, rng):
    kw = {}
    if kind == ("P", 1) and not G["closed"]:
        kw["include_boundary_dofs"] = True if G["grid"].number_of_elements <= 8 else bool(rng.random() < 0.6)
    return api.function_space(G["grid"], kind[0], kind[1], **kw)


# ------------------------------------------------------------------------------------------------------- m vectors

def _mvec(space, order):
    """(m, mt, gt): integrals of phi_g, of |phi_g| with |w_q| (library rule / library evaluate), of |curl phi_g|."""
    from bempp_cl.api.integration.triangle_gauss import rule

    pts, wts = rule(int(order))
    pts = np.asarray(pts, float)
    wts = np.asarray(wts, float)
    grid = space.grid
    J = np.asarray(grid.integration_elements, float)
    l2g = np.asarray(space.local2global).astype(np.int64)
    n = space.grid_dof_count
    m, mt, gt = np.zeros(n), np.zeros(n), np.zeros(n)
    V = np.asarray(grid.vertices, float)
    E = np.asarray(grid.elements).astype(np.int64)
    mult = np.abs(np.asarray(space.local_multipliers, float))
    for e in map(int, space.support_elements):
        vals = np.asarray(space.evaluate(e, pts), float)[0]  # nshape x npts, local multipliers included
        for i in range(vals.shape[0]):
            m[l2g[e, i]] += J[e] * float(vals[i] @ wts)
            mt[l2g[e, i]] += J[e] * float(np.abs(vals[i]) @ np.abs(wts))
        if vals.shape[0] == 3:
            p = [V[:, E[j, e]] for j in range(3)]
            opp = [np.linalg.norm(p[2] - p[1]), np.linalg.norm(p[0] - p[2]), np.linalg.norm(p[1] - p[0])]
            for i in range(3):
                gt[l2g[e, i]] += mult[e, i] * opp[i] / 2.0
    import scipy.sparse as sps

    T = sps.csr_matrix(space.dof_transformation)  # grid dofs x global dofs (identity for DP0 / DP1 / P1)
    return np.asarray(T.T @ m).ravel(), np.asarray(abs(T).T @ mt).ravel(), np.asarray(abs(T).T @ gt).ravel()


def _mass_rowsums(api, space):
    dp0 = api.function_space(space.grid, "DP", 0)
    M = api.operators.boundary.sparse.identity(dp0, dp0, space).weak_form().to_sparse()
    return np.asarray(M.sum(axis=1)).ravel()


# ------------------------------------------------------------------------------------------------------- operators

def _params(api, reg, sing):
    p = api.DefaultParameters()
    p.quadrature.regular = int(reg)
    p.quadrature.singular = int(sing)
    return p


def _dense(op):
    return np.asarray(op.weak_form().to_dense())


_OPNAME = {"sl": "single_layer", "dl": "double_layer", "adl": "adjoint_double_layer", "hyp": "hypersingular"}


def _bop(api, family, op, dom, dual, k, par, assembler="default_nonlocal"):
    """Boundary operator object.  family in laplace / helmholtz / modified."""
    b = api.operators.boundary
    mod = {"laplace": b.laplace, "helmholtz": b.helmholtz, "modified": b.modified_helmholtz}[family]
    f = getattr(mod, _OPNAME[op])
    if family == "laplace":
        return f(dom, dual, dual, parameters=par, assembler=assembler)
    return f(dom, dual, dual, k, parameters=par, assembler=assembler)


def _relmax(a, b):
    s = max(float(np.abs(a).max()), float(np.abs(b).max()), 1e-300)
    return float(np.abs(a - b).max()) / s


@contextlib.contextmanager
def _record_potential_descriptors(log):
    """Observe which OperatorDescriptor the potential constructors hand to PotentialAssembler (no behaviour change)."""
    import bempp_cl.api.assembly.assembler as asm

    orig = asm.PotentialAssembler.__init__

    def init(self, space, points, operator_descriptor, *a, **kw):
        log.append(operator_descriptor)
        return orig(self, space, points, operator_descriptor, *a, **kw)

    asm.PotentialAssembler.__init__ = init
    try:
        yield
    finally:
        asm.PotentialAssembler.__init__ = orig


def _draw_small_k(rng, diam, kind):
    """|k| D in [1e-3, 1), log-uniform, occasionally right below 1."""
    rho = 0.999 if rng.random() < 0.15 else 10 ** rng.uniform(-3, 0) * 0.999
    r = rho / diam
    if kind == "real":
        return complex(rng.choice([-1, 1]) * r, 0.0)
    if kind == "imag":
        return complex(0.0, rng.choice([-1, 1]) * r)
    ph = rng.uniform(0.1, math.pi / 2 - 0.1)
    z = r * complex(math.cos(ph), math.sin(ph))
    return complex(rng.choice([-1, 1]) * z.real, rng.choice([-1, 1]) * z.imag)


def _k_kind(k):
    if k.imag == 0:
        return "real"
    if k.real == 0:
        return "imag"
    return "complex"


def _grid_detail(G):
    g = G["grid"]
    return dict(grid=G["name"], vertices=np.asarray(g.vertices).tolist(), elements=np.asarray(g.elements).tolist(),
                diameter=G["diam"])


class _Run:
    def __init__(self, ctx, res, api):
        self.ctx, self.res, self.api = ctx, res, api
        self.st = dict(a_ratio_sl=0.0, a_ratio_dl=0.0, a_ratio_adl=0.0, b_eq=0.0, b_eps_ratio=0.0, c_conj=0.0,
                       d_reg=0.0, a_ratio_plain_m_negw=0.0, b_pot_eq=0.0, b_pot_eps_ratio=0.0, c_pot_conj=0.0, m_vs_mass=0.0)
        self.sym = {}
        self.mcache = {}

    def mvec(self, space, order):
        key = (space.id, order)
        if key not in self.mcache:
            self.mcache[key] = _mvec(space, order)
        return self.mcache[key]

    # ---- (a)
    def small_k(self, G, op, dom, dual, tags, reg, sing, nk):
        api, rng, res = self.api, self.ctx.rng, self.res
        par = _params(api, reg, sing)
        A0 = _dense(_bop(api, "laplace", op, dom, dual, 0.0, par))
        ms, mts, _ = self.mvec(dom, reg)
        mt_, mtt, _ = self.mvec(dual, reg)
        MM = np.outer(mt_, ms)
        MMt = np.outer(mtt, mts)
        kinds = ["real", "imag", "complex", "complex"]
        for j in range(nk):
            k = _draw_small_k(rng, G["diam"], kinds[j % 4] if j < 4 else rng.choice(kinds))
            Ak = _dense(_bop(api, "helmholtz", op, dom, dual, k, par))
            ak = abs(k)
            if op == "sl":
                delta = np.abs(Ak - A0 - 1j * k * INV4PI * MM)
                bound = ak * ak * G["diam"] * INV4PI * MMt
            else:
                delta = np.abs(Ak - A0)
                bound = ak * ak * INV4PI * MMt
            allow = bound * (1 + RND_REL) + RND_ABS * (np.abs(Ak) + np.abs(A0))
            ratio = float((delta / np.maximum(bound, 1e-300)).max())
            viol = delta > allow
            if reg not in POS_REG:
                # informational: the bound with the plain m (rule with a negative weight: hypothesis not met)
                plain = bound * np.abs(MM) / np.maximum(MMt, 1e-300)
                self.st["a_ratio_plain_m_negw"] = max(self.st["a_ratio_plain_m_negw"],
                                                      float((delta / np.maximum(plain, 1e-300)).max()))
            self.st["a_ratio_" + op] = max(self.st["a_ratio_" + op], ratio)
            res.case(key=("a", op, tags, _k_kind(k), G["name"], reg, sing), nontrivial=_k_kind(k) == "complex",
                     sample=dict(check="small-k bound", op=op, spaces=tags, grid=G["name"], k=str(k),
                                 kD=ak * G["diam"], reg=reg, sing=sing, worst_ratio=ratio))
            if viol.any():
                i, jx = np.unravel_index(int(np.argmax(delta - allow)), delta.shape)
                res.counterexample(
                    f"small-k-bound-{op}-{_k_kind(k)}-{tags}",
                    f"Helmholtz {op} minus Laplace {op}" + (" minus (ik/4pi) m m'" if op == "sl" else "")
                    + f" exceeds the entrywise bound: entry ({i},{jx}) |.|={delta[i, jx]:.6e} > {bound[i, jx]:.6e}"
                    f" (|k|D={ak * G['diam']:.4g})",
                    **_grid_detail(G), spaces=tags, k=str(k), regular=reg, singular=sing,
                    observed=float(delta[i, jx]), expected=f"<= {float(bound[i, jx]):.6e}",
                    descriptor=_bop(api, "helmholtz", op, dom, dual, k, par).descriptor.identifier,
                )

    # ---- (b) boundary
    def imag_k(self, G, op, dom, dual, tags, reg, sing, nw):
        api, rng, res = self.api, self.ctx.rng, self.res
        par = _params(api, reg, sing)
        ms, mts, gs = self.mvec(dom, reg)
        mt_, mtt, gtt = self.mvec(dual, reg)
        MMt = np.outer(mtt, mts)
        for j in range(nw):
            w = rng.uniform(0.05, 3.0) / G["diam"]
            o_h = _bop(api, "helmholtz", op, dom, dual, 1j * w, par)
            o_m = _bop(api, "modified", op, dom, dual, w, par)
            d = o_h.descriptor
            ident_ok = (d.identifier == f"modified_helmholtz_{_OPNAME[op]}_boundary" and len(d.options) == 1
                        and float(np.real(d.options[0])) == w and not d.is_complex)
            Ah, Am = _dense(o_h), _dense(o_m)
            eq = _relmax(Ah, Am)
            self.st["b_eq"] = max(self.st["b_eq"], eq)
            res.case(key=("b", op, tags, G["name"]), nontrivial=False,
                     sample=dict(check="i w == modified", op=op, spaces=tags, grid=G["name"], w=w, rel=eq,
                                 identifier=d.identifier))
            if not ident_ok:
                res.counterexample(
                    f"imag-k-dispatch-boundary-{op}",
                    f"helmholtz.{_OPNAME[op]} with k = i*{w:.4g} did not take the modified Helmholtz constructor path: "
                    f"identifier {d.identifier}, options {list(d.options)}, is_complex {d.is_complex}",
                    **_grid_detail(G), spaces=tags, w=w, observed=[d.identifier, [str(x) for x in d.options]],
                    expected=[f"modified_helmholtz_{_OPNAME[op]}_boundary", [w]],
                )
            if not eq <= TOL_EQ:
                res.counterexample(
                    f"imag-k-equals-modified-boundary-{op}-{tags}",
                    f"helmholtz.{_OPNAME[op]}(k=i w) differs from modified_helmholtz.{_OPNAME[op]}(w) by {eq:.3e}",
                    **_grid_detail(G), spaces=tags, w=w, regular=reg, singular=sing, observed=eq,
                    expected=f"<= {TOL_EQ:g}",
                )
            # a real-part-nonzero wavenumber must take the Helmholtz path
            for eps in (1e-3, 1e-6, 1e-9):
                se = rng.choice([-1, 1]) * eps / G["diam"]
                k = complex(se, w)
                o_e = _bop(api, "helmholtz", op, dom, dual, k, par)
                de = o_e.descriptor
                if not (de.identifier == f"helmholtz_{_OPNAME[op]}_boundary"
                        and [float(x) for x in de.options] == [k.real, k.imag] and de.is_complex):
                    res.counterexample(
                        f"complex-k-dispatch-boundary-{op}",
                        f"helmholtz.{_OPNAME[op]} with k = {k} took identifier {de.identifier}, options "
                        f"{list(de.options)}",
                        **_grid_detail(G), spaces=tags, k=str(k), observed=[de.identifier, [str(x) for x in de.options]],
                        expected=[f"helmholtz_{_OPNAME[op]}_boundary", [k.real, k.imag]],
                    )
                Ae = _dense(o_e)
                ae, kabs = abs(se), abs(k)
                if op == "sl":
                    bound = ae * INV4PI * MMt
                elif op in ("dl", "adl"):
                    bound = ae * kabs * INV4PI * MMt
                else:
                    if reg not in POS_REG:
                        continue
                    V0 = _dense(_bop(api, "laplace", "sl", dom, dual, 0.0, par))
                    bound = ae * INV4PI * np.outer(gtt, gs) + ae * (ae + 2 * w) * np.abs(V0) + w * w * ae * INV4PI * MMt
                delta = np.abs(Ae - Am)
                allow = bound * (1 + RND_REL) + RND_ABS * (np.abs(Ae) + np.abs(Am))
                ratio = float((delta / np.maximum(bound, 1e-300)).max()) if float(np.abs(Am).max()) > 0 else 0.0
                big = delta > allow
                if not big.any():
                    self.st["b_eps_ratio"] = max(self.st["b_eps_ratio"], float((delta / np.maximum(allow, 1e-300)).max()))
                res.case(key=("b-eps", op, tags, G["name"], eps), nontrivial=True,
                         sample=dict(check="eps + i w -> modified", op=op, spaces=tags, grid=G["name"], k=str(k),
                                     worst_ratio=ratio))
                if big.any():
                    i, jx = np.unravel_index(int(np.argmax(delta - allow)), delta.shape)
                    res.counterexample(
                        f"eps-limit-to-modified-boundary-{op}-{tags}",
                        f"helmholtz.{_OPNAME[op]}(k={k}) - modified({w:.4g}) is not O(eps): entry ({i},{jx}) "
                        f"|.|={delta[i, jx]:.3e} > provable bound {bound[i, jx]:.3e}",
                        **_grid_detail(G), spaces=tags, k=str(k), regular=reg, singular=sing,
                        observed=float(delta[i, jx]), expected=f"<= {float(bound[i, jx]):.6e}",
                    )

    # ---- (c) boundary
    def conj_k(self, G, op, dom, dual, tags, reg, sing, nk):
        api, rng, res = self.api, self.ctx.rng, self.res
        par = _params(api, reg, sing)
        for j in range(nk):
            r = rng.uniform(0.1, 5.0) / G["diam"]
            if j % 3 == 0:
                k = complex(rng.choice([-1, 1]) * r, 0.0)
            else:
                ph = rng.uniform(0.1, math.pi / 2 - 0.1)
                k = complex(rng.choice([-1, 1]) * r * math.cos(ph), rng.choice([-1, 1]) * r * math.sin(ph))
            k2 = -k.conjugate()
            A = _dense(_bop(api, "helmholtz", op, dom, dual, k, par))
            B = _dense(_bop(api, "helmholtz", op, dom, dual, k2, par))
            e = _relmax(B, A.conj())
            self.st["c_conj"] = max(self.st["c_conj"], e)
            res.case(key=("c", op, tags, _k_kind(k), G["name"]), nontrivial=_k_kind(k) == "complex",
                     sample=dict(check="-conj(k) conjugates", op=op, spaces=tags, grid=G["name"], k=str(k), rel=e))
            if not e <= TOL_EQ:
                res.counterexample(
                    f"minus-conj-k-conjugates-boundary-{op}-{tags}",
                    f"helmholtz.{_OPNAME[op]}(-conj k) differs from conj(helmholtz.{_OPNAME[op]}(k)) by {e:.3e} "
                    f"(relative, max norm)",
                    **_grid_detail(G), spaces=tags, k=str(k), regular=reg, singular=sing, observed=e,
                    expected=f"<= {TOL_EQ:g}",
                )

    # ---- (d)
    def symmetry(self, G, fam_ops, S1, S2, tags, reg):
        """fam_ops: 'sl' / 'hyp' (S1 == S2: A = A') or 'dl' (K'(S1->S2) = K(S2->S1)')."""
        api, rng, res = self.api, self.ctx.rng, self.res
        r = rng.uniform(0.3, 4.0) / G["diam"]
        ph = rng.uniform(0.1, math.pi / 2 - 0.1)
        k = complex(r * math.cos(ph), rng.choice([-1, 1]) * r * math.sin(ph))
        families = [("helmholtz", k), ("modified", r), ("laplace", 0.0)]
        if fam_ops == "hyp":
            families = families[:2]
        fam, kk = families[0] if rng.random() < 0.6 else rng.choice(families[1:])
        a = {}
        for order in SYM_ORDERS:
            par = _params(api, reg, order)
            if fam_ops == "dl":
                A = _dense(_bop(api, fam, "adl", S1, S2, kk, par))
                B = _dense(_bop(api, fam, "dl", S2, S1, kk, par)).T
                As = _dense(_bop(api, fam, "adl", S1, S2, kk, par, assembler="only_singular_part"))
                Bs = _dense(_bop(api, fam, "dl", S2, S1, kk, par, assembler="only_singular_part")).T
            else:
                A = _dense(_bop(api, fam, fam_ops, S1, S1, kk, par))
                B = A.T
                As = _dense(_bop(api, fam, fam_ops, S1, S1, kk, par, assembler="only_singular_part"))
                Bs = As.T
            scale = max(float(np.abs(A).max()), float(np.abs(B).max()))
            if scale < 1e-14:
                return  # e.g. double layer on a flat screen
            a[order] = float(np.abs(A - B).max()) / scale
            rsym = float(np.abs((A - As) - (B - Bs)).max()) / scale
            self.st["d_reg"] = max(self.st["d_reg"], rsym)
            if not rsym <= TOL_REG_SYM:
                res.counterexample(
                    f"regular-part-symmetry-{fam}-{fam_ops}-{tags}",
                    f"regular part (matrix minus only_singular_part) of {fam} "
                    + ("K'(S1->S2) vs K(S2->S1)'" if fam_ops == "dl" else f"{fam_ops}")
                    + f" is not symmetric to rounding: {rsym:.3e} relative",
                    **_grid_detail(G), spaces=tags, k=str(kk), regular=reg, singular=order, observed=rsym,
                    expected=f"<= {TOL_REG_SYM:g}",
                )
        lo, hi = a[SYM_ORDERS[0]], a[SYM_ORDERS[1]]
        s = self.sym.setdefault(fam_ops, dict(lo=0.0, hi=0.0, ratio=0.0))
        s["lo"], s["hi"] = max(s["lo"], lo), max(s["hi"], hi)
        if lo > SYM_FLOOR:
            s["ratio"] = max(s["ratio"], hi / lo)
        res.case(key=("d", fam_ops, fam, tags, G["name"]), nontrivial=fam == "helmholtz",
                 sample=dict(check="symmetry up to singular quadrature", op=fam_ops, family=fam, spaces=tags,
                             grid=G["name"], k=str(kk), asym_lo=lo, asym_hi=hi))
        blo, bhi = SYM_BOUND[fam_ops]
        if lo > blo or hi > bhi or (hi > SYM_FLOOR and hi > SYM_SHRINK * lo):
            res.counterexample(
                f"symmetry-{fam}-{fam_ops}-{tags}",
                ("K'(S1->S2) is not the transpose of K(S2->S1)" if fam_ops == "dl" else f"{fam_ops} matrix is not "
                 "complex-symmetric") + f" up to singular-quadrature error: relative asymmetry {lo:.3e} at singular "
                f"order {SYM_ORDERS[0]}, {hi:.3e} at {SYM_ORDERS[1]} (bounds {blo:g}/{bhi:g}, shrink {SYM_SHRINK:g})",
                **_grid_detail(G), spaces=tags, k=str(kk), regular=reg, observed=[lo, hi],
            )

    # ---- potentials: (b) and (c)
    def potentials(self, G, pop, space, tag, reg, nw):
        api, rng, res = self.api, self.ctx.rng, self.res
        par = _params(api, reg, 4)
        g = G["grid"]
        Vt = np.asarray(g.vertices)
        c = Vt.mean(axis=1)
        npts = 5
        pts = np.zeros((3, npts))
        for j in range(npts):
            v = np.array([rng.gauss(0, 1) for _ in range(3)])
            v /= np.linalg.norm(v)
            pts[:, j] = c + v * G["diam"] * rng.uniform(0.8, 2.0)
        n = space.global_dof_count
        _, mt, _ = self.mvec(space, reg)
        vecs = []
        for j in rng.sample(range(n), min(n, 3)):
            e = np.zeros(n, dtype=complex)
            e[j] = 1.0
            vecs.append(e)
        vecs.append(np.array([complex(rng.uniform(-1, 1), rng.uniform(-1, 1)) for _ in range(n)]))
        H = getattr(api.operators.potential.helmholtz, _OPNAME[pop])
        M = getattr(api.operators.potential.modified_helmholtz, _OPNAME[pop])

        def ev(op, x):
            return np.asarray(op.evaluate(api.GridFunction(space, coefficients=x)))

        for j in range(nw):
            w = rng.uniform(0.05, 3.0) / G["diam"]
            log = []
            try:
                with _record_potential_descriptors(log):
                    o_h = H(space, pts, 1j * w, parameters=par)
            except Exception as ex:
                res.case(key=("b-pot", pop, tag), nontrivial=False)
                res.counterexample(
                    "helmholtz-potential-imag-k",
                    f"potential.helmholtz.{_OPNAME[pop]} with k = i*{w:.4g} raised {type(ex).__name__}: {ex}",
                    **_grid_detail(G), space=tag, w=w, observed=f"{type(ex).__name__}: {ex}",
                    expected="the modified Helmholtz potential for w",
                )
                continue
            o_m = M(space, pts, w, parameters=par)
            d = log[-1] if log else None
            ok = (d is not None and d.identifier == f"modified_helmholtz_{_OPNAME[pop]}_potential"
                  and len(d.options) == 1 and float(np.real(d.options[0])) == w and not d.is_complex)
            if not ok:
                res.counterexample(
                    f"imag-k-dispatch-potential-{pop}",
                    f"potential.helmholtz.{_OPNAME[pop]} with k = i*{w:.4g} did not take the modified Helmholtz "
                    f"constructor path: " + (f"identifier {d.identifier}, options {list(d.options)}" if d else "none"),
                    **_grid_detail(G), space=tag, w=w,
                    observed=None if d is None else [d.identifier, [str(x) for x in d.options]],
                    expected=[f"modified_helmholtz_{_OPNAME[pop]}_potential", [w]],
                )
            worst = 0.0
            for x in vecs:
                a, b = ev(o_h, x), ev(o_m, x)
                worst = max(worst, _relmax(a, b))
            self.st["b_pot_eq"] = max(self.st["b_pot_eq"], worst)
            res.case(key=("b-pot", pop, tag, G["name"]), nontrivial=False,
                     sample=dict(check="potential i w == modified", op=pop, space=tag, grid=G["name"], w=w, rel=worst,
                                 identifier=None if d is None else d.identifier))
            if not worst <= TOL_EQ:
                res.counterexample(
                    f"imag-k-equals-modified-potential-{pop}-{tag}",
                    f"potential.helmholtz.{_OPNAME[pop]}(k=i w) differs from the modified Helmholtz potential by "
                    f"{worst:.3e}",
                    **_grid_detail(G), space=tag, w=w, points=pts.tolist(), observed=worst, expected=f"<= {TOL_EQ:g}",
                )
            for eps in (1e-3, 1e-6, 1e-9):
                se = rng.choice([-1, 1]) * eps / G["diam"]
                k = complex(se, w)
                log = []
                with _record_potential_descriptors(log):
                    o_e = H(space, pts, k, parameters=par)
                de = log[-1] if log else None
                if not (de is not None and de.identifier == f"helmholtz_{_OPNAME[pop]}_potential"
                        and [float(x) for x in de.options] == [k.real, k.imag] and de.is_complex):
                    res.counterexample(
                        f"complex-k-dispatch-potential-{pop}",
                        f"potential.helmholtz.{_OPNAME[pop]} with k = {k} took "
                        + (f"identifier {de.identifier}, options {list(de.options)}" if de else "no descriptor"),
                        **_grid_detail(G), space=tag, k=str(k),
                    )
                fac = abs(se) * INV4PI * (1.0 if pop == "sl" else abs(k))
                for x in vecs:
                    a, b = ev(o_e, x), ev(o_m, x)
                    bound = fac * float(np.abs(x) @ mt)
                    allow = bound * (1 + RND_REL) + RND_ABS * (np.abs(a) + np.abs(b))
                    delta = np.abs(a - b)
                    if (delta > allow).any():
                        res.counterexample(
                            f"eps-limit-to-modified-potential-{pop}-{tag}",
                            f"potential.helmholtz.{_OPNAME[pop]}(k={k}) - modified({w:.4g}) is not O(eps): "
                            f"{float(delta.max()):.3e} > provable bound {bound:.3e}",
                            **_grid_detail(G), space=tag, k=str(k), points=pts.tolist(), coefficients=[str(z) for z in x],
                            observed=float(delta.max()), expected=f"<= {bound:.6e}",
                        )
                    else:
                        self.st["b_pot_eps_ratio"] = max(self.st["b_pot_eps_ratio"],
                                                         float((delta / np.maximum(allow, 1e-300)).max()))
                res.case(key=("b-pot-eps", pop, tag, G["name"], eps), nontrivial=True)
            # (c)
            r = rng.uniform(0.1, 5.0) / G["diam"]
            ph = rng.uniform(0.1, math.pi / 2 - 0.1)
            k = complex(rng.choice([-1, 1]) * r * math.cos(ph), rng.choice([-1, 1]) * r * math.sin(ph))
            if j % 3 == 2:
                k = complex(k.real, 0.0)
            o1 = H(space, pts, k, parameters=par)
            o2 = H(space, pts, -k.conjugate(), parameters=par)
            worst = 0.0
            for x in vecs:
                worst = max(worst, _relmax(ev(o2, x.conj()), ev(o1, x).conj()))
            self.st["c_pot_conj"] = max(self.st["c_pot_conj"], worst)
            res.case(key=("c-pot", pop, tag, _k_kind(k), G["name"]), nontrivial=_k_kind(k) == "complex",
                     sample=dict(check="potential -conj(k) conjugates", op=pop, space=tag, k=str(k), rel=worst))
            if not worst <= TOL_EQ:
                res.counterexample(
                    f"minus-conj-k-conjugates-potential-{pop}-{tag}",
                    f"potential.helmholtz.{_OPNAME[pop]}(-conj k) is not the conjugate operator: {worst:.3e}",
                    **_grid_detail(G), space=tag, k=str(k), points=pts.tolist(), observed=worst,
                    expected=f"<= {TOL_EQ:g}",
                )


def oracle(ctx, deep=False, only=None):
    """only: optional list out of 'sl', 'dl', 'hyp', 'pot-sl', 'pot-dl' (targeted search: one random space pair each)."""
    import numba
    import bempp_cl.api as api

    res = Result()
    rng = ctx.rng
    t0 = time.time()
    # tiny problems: one Numba thread (oversubscribed machines make 16-thread launches of 8-element grids take
    # seconds); thread-count independence is C16's subject.  Restored on exit.
    old_threads = numba.get_num_threads()
    numba.set_num_threads(max(1, min(old_threads, int(os.environ.get("VERIF_ORACLE_THREADS", "1")))))
    try:
        run = _Run(ctx, res, api)
        grids = _make_grids(ctx, rng, deep)
        closed = [G for G in grids if G["closed"]]
        opened = [G for G in grids if not G["closed"]]
        full = ctx.thorough or deep
        def pair_for(fam):
            if fam == "hyp":
                return (rng.choice(KINDS[1:]), rng.choice(KINDS[1:]))
            if fam == "dl":
                kd = rng.choice(KINDS)
                return (kd, kd) if rng.random() < 0.5 else (rng.choice(KINDS), kd)
            return (rng.choice(KINDS), rng.choice(KINDS))

        if only is not None:
            plan = [(f, pair_for(f)) for f in ("sl", "dl", "hyp") if f in only]
            pots = [(pop, rng.choice(KINDS)) for pop in ("sl", "dl") if "pot-" + pop in only]
        elif full:
            pairs = [(a, b) for a in KINDS for b in KINDS]     # (dual kind, domain kind)
            plan = [(fam, p) for fam in ("sl", "dl") for p in pairs]
            plan += [("hyp", p) for p in pairs if p[0][1] == 1 and p[1][1] == 1]
            pots = [(pop, kd) for pop in ("sl", "dl") for kd in KINDS]
        else:
            fam = rng.choice(["sl", "dl", "hyp"])
            p = pair_for(fam)
            plan = [(fam, p)]
            # both potential families on every run (seed C05-b: the imaginary-k dispatch of ONE family was wrong and a
            # run that sampled only the other one missed it); one grid each in the quick tier
            pots = [("sl", rng.choice(KINDS)), ("dl", rng.choice(KINDS))]
        res.stats["plan"] = [f"{f}:{_kname(p[0])}<-{_kname(p[1])}" for f, p in plan]
        res.stats["potentials"] = [f"{pop}:{_kname(kd)}" for pop, kd in pots]
        res.stats["grids"] = [f"{G['name']}:{G['grid'].number_of_elements}el:{G['regular_pairs']}regular-pairs"
                              for G in grids]
        nk = ctx.pick(6, 6) + (6 if deep else 0)
        ngr = ctx.pick(2, 2) + (2 if deep else 0)

        for fam, (kt, kd) in plan:
            tags = f"{_kname(kt)}<-{_kname(kd)}"
            use = [rng.choice(closed), rng.choice(opened)]
            while len(use) < ngr:
                use.append(rng.choice(grids))
            for G in use:
                dom = _space(api, G, kd, rng)
                dual = dom if kt == kd and rng.random() < 0.7 else _space(api, G, kt, rng)
                reg_a, sing_a = rng.choice(ALL_REG), rng.choice(SING_A)
                reg, sing = rng.choice(ALL_REG), rng.choice([2, 3, 4, 5, 6])
                if fam == "sl":
                    run.small_k(G, "sl", dom, dual, tags, reg_a, sing_a, nk)
                    run.imag_k(G, "sl", dom, dual, tags, reg, sing_a, 1)
                    run.conj_k(G, "sl", dom, dual, tags, reg, sing, 3)
                    if full or dom.shapeset.identifier == dual.shapeset.identifier:
                        run.symmetry(G, "sl", dom, dom, f"{_kname(kd)}<-{_kname(kd)}", rng.choice(POS_REG))
                elif fam == "dl":
                    # K : dom -> dual ;  K' : dual -> dom
                    run.small_k(G, "dl", dom, dual, tags, reg_a, sing_a, nk)
                    run.small_k(G, "adl", dual, dom, f"{_kname(kd)}<-{_kname(kt)}", reg_a, sing_a, nk)
                    run.imag_k(G, "dl", dom, dual, tags, reg, sing_a, 1)
                    run.imag_k(G, "adl", dual, dom, f"{_kname(kd)}<-{_kname(kt)}", reg, sing_a, 1)
                    run.conj_k(G, "dl", dom, dual, tags, reg, sing, 2)
                    run.conj_k(G, "adl", dual, dom, f"{_kname(kd)}<-{_kname(kt)}", reg, sing, 2)
                    run.symmetry(G, "dl", dual, dom, f"K'({_kname(kt)}->{_kname(kd)})~K({_kname(kd)}->{_kname(kt)})",
                                 rng.choice(POS_REG))
                else:
                    run.imag_k(G, "hyp", dom, dual, tags, rng.choice(POS_REG), sing_a, 1)
                    run.conj_k(G, "hyp", dom, dual, tags, reg, sing, 3)
                    run.symmetry(G, "hyp", dom, dom, f"{_kname(kd)}<-{_kname(kd)}", rng.choice(POS_REG))
            ctx.log(f"C05 oracle: {fam} {tags} done, {res.evaluations} cases, {time.time() - t0:.0f}s")

        for ipot, (pop, kd) in enumerate(pots):
            for G in ([rng.choice(closed), rng.choice(opened)] if (full or only is not None) else
                      [rng.choice(closed if (ipot + ctx.seed) % 2 == 0 else opened)]):
                sp_ = _space(api, G, kd, rng)
                run.potentials(G, pop, sp_, _kname(kd), rng.choice(ALL_REG), ctx.pick(2, 3))
            ctx.log(f"C05 oracle: potential {pop} {_kname(kd)} done, {res.evaluations} cases, {time.time() - t0:.0f}s")

        if full:
            for G in grids[:3]:
                for kd in KINDS:
                    sp_ = _space(api, G, kd, rng)
                    m, _, _ = run.mvec(sp_, 4)
                    rs = _mass_rowsums(api, sp_)
                    e = float(np.abs(m - rs).max()) / max(float(np.abs(rs).max()), 1e-300)
                    run.st["m_vs_mass"] = max(run.st["m_vs_mass"], e)
                    if not e <= 1e-13:
                        res.notes.append(f"m from rule/evaluate differs from mass-matrix row sums by {e:.2e} "
                                         f"({_kname(kd)}, {G['name']})")

        res.stats.update(
            a_worst_ratio_to_bound=dict(sl=run.st["a_ratio_sl"], dl=run.st["a_ratio_dl"], adl=run.st["a_ratio_adl"]),
            a_worst_ratio_with_plain_m_on_negative_weight_orders=run.st["a_ratio_plain_m_negw"],
            b_boundary_imag_vs_modified_rel=run.st["b_eq"], b_boundary_eps_worst_ratio=run.st["b_eps_ratio"],
            b_potential_imag_vs_modified_rel=run.st["b_pot_eq"], b_potential_eps_worst_ratio=run.st["b_pot_eps_ratio"],
            c_boundary_conj_rel=run.st["c_conj"], c_potential_conj_rel=run.st["c_pot_conj"], tol_rounding=TOL_EQ,
            d_regular_part_asym=run.st["d_reg"], tol_regular_sym=TOL_REG_SYM,
            d_singular_asym={k: v for k, v in run.sym.items()}, sym_orders=list(SYM_ORDERS),
            sym_bounds={k: list(v) for k, v in SYM_BOUND.items()}, sym_shrink=SYM_SHRINK,
            m_vs_mass_matrix_rowsums=run.st["m_vs_mass"],
            oracle_wall_s=round(time.time() - t0, 1),
        )
    finally:
        numba.set_num_threads(old_threads)
    return res


if __name__ == "__main__":
    tier = sys.argv[1] if len(sys.argv) > 1 else "quick"
    seed = int(sys.argv[2]) if len(sys.argv) > 2 else 0
    deep = "deep" in sys.argv[3:]
    only = next((a[5:].split(",") for a in sys.argv[3:] if a.startswith("only=")), None)
    ctx = Ctx("C05", tier, seed)
    t = time.time()
    r = oracle(ctx, deep=deep, only=only)
    print("cases", r.evaluations, "nontrivial", len(r.nontrivial))
    for k_, v_ in r.stats.items():
        print("  stat", k_, v_)
    for n_ in r.notes:
        print("  note", n_)
    for s_ in r.samples[:4]:
        print("  sample", s_)
    for c_ in r.counterexamples:
        c2 = {k_: v_ for k_, v_ in c_.items() if k_ not in ("vertices", "elements", "points", "coefficients")}
        print("COUNTEREXAMPLE", c2)
    print(f"wall {time.time() - t:.1f}s (incl. import), counterexamples {len(r.counterexamples)}")
    sys.exit(1 if r.counterexamples else 0)
