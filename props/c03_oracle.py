"""C03 oracle - boundary operators are equivariant under motion, scaling and relabelling (real bempp_cl code).

What is checked, for every selected operator family x space pair x grid (closed / open / multi-domain):

 (i)   rigid motion   x -> R x + t (vlib.meshgen.rigid)          A' = A                to 1e-11 ||A||_F
 (ii)  scaling        x -> s x, wavenumber k -> k / s             A' = s^p A            to 1e-11 ||A||_F
 (iii) renumbering of vertices and elements (no local rotation)   A' = Q_t A Q_d^T      to 1e-11 ||A||_F; if the full
        matrices differ by more, the regular part (full minus `assembler="only_singular_part"`) must still agree to
        1e-11 and the singular part is subject to the ladder below
 (iv)  cyclic rotation of the local vertex order of elements      A' = Q_t A Q_d^T      up to singular-quadrature error
 (v)   physically reversed orientation of the elements of some domains (local vertices 1 <-> 2) versus the
        `swapped_normals` flag of the spaces on the unchanged grid  A' = Q_t A Q_d^T      up to singular-quadrature error

Q_t, Q_d are the signed permutation matrices induced on the dofs of the test and the domain space.  They are derived
here from the element map, the local vertex map and the `local2global` / `local_multipliers` tables of the two
spaces (and must be well defined: every global dof has one image and one sign, otherwise the case is reported), and for
RWG/SNC the sign is cross-checked against the rule "+1 on the supported neighbour with the smaller element index"
(maxwell_spaces.py:600-603).

"Up to singular-quadrature error" is made precise by an order ladder: with the regular order fixed, the discrepancy
d(o) = ||A'_o - Q_t A_o Q_d^T||_F / ||A_o||_F is measured at two singular orders o_lo < o_hi and compared with the
singular-quadrature error estimate of the same grid and operator e(o) = ||A_o - A_{o_ref}||_F / ||A_{o_ref}||_F
(o_ref = o_hi + 2, all with the same labelling).  Required (floor 1e-11 for discrepancies already at rounding):
        d(o_hi) <= SLACK * e(o_hi)    the statement of Appendix C: 10 x the error estimate of the same grid (SLACK = 10)
        d(o_hi) <= CAP                calibrated bound for the grid pool of this module (CAP = 3e-3)
        d(o_hi) <= DECAY * d(o_lo)    the discrepancy shrinks at the rate of the Duffy rules (DECAY = 0.25)

Homogeneity table (ii) - derived from the local integrals and verified against the code by this oracle.  Under
x -> s x the surface measure scales by s^2 per integral, P0/P1/DP1 basis functions are scale invariant, surface
gradients/curls scale by 1/s, and RWG/SNC basis functions  l_e/(2|T|) (x - p)  are scale invariant with divergence
~ 1/s.  With k -> k/s the products k r are invariant, so exp(ikr) and (ikr - 1) are invariant.

   operator                                    kernel / integrand scaling                  factor s^p
   ------------------------------------------  ------------------------------------------  ----------
   Laplace / Helmholtz / mod. Helmholtz SL      1/r : s^-1 ; dS dS : s^4                     s^3   (all of DP0, DP1, P1)
   ... double layer, adjoint double layer       (x-y).n / r^3 : s^-2 ; s^4                   s^2   (all of DP0, DP1, P1)
   ... hypersingular (P1/DP1 only)              G curl.curl : s^-1 s^-2 ; s^4                s^1
                                                (Helmholtz: k^2 G phi psi n.n : s^-2 s^-1)   s^1
   Maxwell electric field (RWG -> SNC dual)     -ik G f.g : s^-1 s^-1 ; s^4                  s^2
                                                -1/(ik) G div f div g : s^1 s^-1 s^-2 ; s^4  s^2
   Maxwell magnetic field (RWG -> SNC dual)     grad G . (f x g) : s^-2 ; s^4                s^2
   sparse identity (scalar pairs, RWG/SNC)      f g : s^0 ; dS : s^2                         s^2
   Laplace-Beltrami (P1/DP1)                    grad f . grad g : s^-2 ; dS : s^2            s^0

CALIBRATION (this tree, thorough tier with all 34 operator x shapeset-pair specialisations, seeds 0-3, 150 ladder
cases and 360 exact cases per seed, see `res.stats`): exact relations (i)-(iii) and all five relations for the sparse
operators: worst 1.8e-14 relative (rigid motion; tolerance 1e-11).  Ladder o_lo = 3, o_hi = 6, o_ref = 8: d(3) <= 1.0e-2,
d(6) <= 3.3e-4 (CAP 3e-3), d(6)/d(3) <= 0.075 (DECAY 0.25), d(6)/e(6) <= 2.6 (SLACK 10); about 7% of the ladder cases
are at rounding already.  A seeded error in the edge-adjacent Duffy remap (which only slows the convergence of the
singular rule) gives d(6) = 5e-3 and d(6)/d(3) = 0.37.

Non-triviality rule (Appendix C): the transformation is not the identity and the grid has at least one edge-adjacent
and one vertex-adjacent element pair.
"""
import math
import os
import sys
import time

import numpy as np

from vlib import meshgen
from vlib.common import Ctx, Result

TOL_EXACT = 1e-11
SLACK = 10.0
DECAY = 0.25
CAP = 3e-3
O_LO, O_HI, O_REF = 3, 6, 8
REG_ORDER = 4

EDGE_LOCAL = ((0, 1), (2, 0), (1, 2))


def _api():
    import bempp_cl.api as api

    return api


def params(reg=REG_ORDER, sing=4):
    from bempp_cl.api.utils.parameters import DefaultParameters

    p = DefaultParameters()
    p.quadrature.regular = int(reg)
    p.quadrature.singular = int(sing)
    return p


# ----------------------------------------------------------------------------------------------------------------------
# operator catalogue
# ----------------------------------------------------------------------------------------------------------------------

SCALAR_KINDS = ("DP0", "DP1", "P1")


def shapeset_of(kind):
    return {"DP0": "p0", "DP1": "p1", "P1": "p1", "RWG": "rwg", "SNC": "snc"}[kind]


def catalogue(api):
    """key -> dict(mk(dom, dual, k, p, assembler), wn in {None,'helm','mh'}, power, pairs=list of (dom shapeset,
    dual shapeset) the operator supports, sparse=bool)"""
    b = api.operators.boundary
    sc_pairs = [("p0", "p0"), ("p1", "p0"), ("p0", "p1"), ("p1", "p1")]
    cat = {}

    def add(key, fn, wn, power, pairs, sparse=False, family=None):
        if sparse:
            def mk(dom, dual, k, p, assembler=None, fn=fn):
                return fn(dom, dom, dual, parameters=p)
        elif wn is None:
            def mk(dom, dual, k, p, assembler="default_nonlocal", fn=fn):
                return fn(dom, dom, dual, parameters=p, assembler=assembler)
        else:
            def mk(dom, dual, k, p, assembler="default_nonlocal", fn=fn):
                return fn(dom, dom, dual, k, parameters=p, assembler=assembler)
        cat[key] = dict(key=key, mk=mk, wn=wn, power=power, pairs=pairs, sparse=sparse, family=family or key.split("_")[0])

    for fam, mod, wn in (("lap", b.laplace, None), ("helm", b.helmholtz, "helm"), ("mh", b.modified_helmholtz, "mh")):
        add(f"{fam}_sl", mod.single_layer, wn, 3, sc_pairs)
        add(f"{fam}_dl", mod.double_layer, wn, 2, sc_pairs)
        add(f"{fam}_adl", mod.adjoint_double_layer, wn, 2, sc_pairs)
        add(f"{fam}_hyp", mod.hypersingular, wn, 1, [("p1", "p1")])
    add("max_E", b.maxwell.electric_field, "helm", 2, [("rwg", "snc")], family="maxwell")
    add("max_M", b.maxwell.magnetic_field, "helm", 2, [("rwg", "snc")], family="maxwell")
    add("id", b.sparse.identity, None, 2,
        sc_pairs + [("rwg", "snc"), ("rwg", "rwg"), ("snc", "snc"), ("snc", "rwg")], sparse=True, family="sparse")
    add("lb", b.sparse.laplace_beltrami, None, 0, [("p1", "p1")], sparse=True, family="sparse")
    return cat


def dense(op):
    A = op.weak_form()
    if hasattr(A, "to_dense"):
        A = A.to_dense()
    elif hasattr(A, "to_sparse"):
        A = A.to_sparse().toarray()
    return np.asarray(A)


def mkspace(api, grid, kind, **opts):
    name, deg = {"DP0": ("DP", 0), "DP1": ("DP", 1), "P1": ("P", 1), "RWG": ("RWG", 0), "SNC": ("SNC", 0)}[kind]
    opts = {k: v for k, v in opts.items() if v is not None}
    if kind in ("DP0", "DP1"):
        opts.pop("include_boundary_dofs", None)
        opts.pop("truncate_at_segment_edge", None)
    return api.function_space(grid, name, deg, **opts)


# ----------------------------------------------------------------------------------------------------------------------
# grids and transformations
# ----------------------------------------------------------------------------------------------------------------------

def adjacency_counts(E):
    """(#edge-adjacent, #vertex-adjacent) unordered element pairs of a connectivity array."""
    ne = E.shape[1]
    sets = [set(int(v) for v in E[:, j]) for j in range(ne)]
    ea = va = 0
    for a in range(ne):
        for b in range(a + 1, ne):
            n = len(sets[a] & sets[b])
            ea += n == 2
            va += n == 1
    return ea, va


def grid_pool(rng, thorough):
    """list of dict(name, V, E, D, cls)"""
    out = []

    def add(name, V, E, D, cls):
        V = np.asarray(V, float)
        E = np.asarray(E, np.uint32)
        D = np.zeros(E.shape[1], np.uint32) if D is None else np.asarray(D, np.uint32)
        ea, va = adjacency_counts(E)
        out.append(dict(name=name, V=V, E=E, D=D, cls=cls, ea=ea, va=va))

    V, E = meshgen.cube(1)
    add("cube12", meshgen.perturb(V, 0.12, rng), E, None, "closed")
    V, E = meshgen.cube(1, flip_diag=True)
    D = meshgen.random_domains(E.shape[1], rng, labels=(0, 1, 2, 5))
    D[0], D[1], D[2] = 1, 2, 5
    add("cube12-domains", meshgen.perturb(V, 0.1, rng), E, D, "multi")
    V, E = meshgen.screen(2, 2, wobble=0.15, rng=rng)
    add("screen8", meshgen.perturb(V, 0.05, rng), E, None, "open")
    V, E = meshgen.octahedron()
    add("octahedron8", meshgen.perturb(V, 0.15, rng), E, None, "closed")
    V1, E1 = meshgen.tetrahedron()
    V2, E2 = meshgen.octahedron()
    V, E = meshgen.union([(0.5 * V1, E1), (V2 + np.array([[2.6], [0.3], [0.1]]), E2)])
    add("tet+oct-union", meshgen.perturb(V, 0.08, rng), E, np.array([1] * 4 + [3] * 8), "multi")
    V, E = meshgen.screen(3, 2, wobble=0.1, rng=rng)
    D = np.array([(j // 2) % 2 for j in range(E.shape[1])])
    add("screen12-domains", meshgen.perturb(V, 0.04, rng), E, D, "open-multi")
    if thorough:
        V, E = meshgen.lshape()
        D = meshgen.random_domains(E.shape[1], rng, labels=(0, 4))
        add("lshape28", meshgen.perturb(V, 0.06, rng), E, D, "multi")
    return out


def junction_grid(rng):
    """two tetrahedra glued along a face that is itself part of the grid (a multi-domain transmission geometry): every
    edge of the shared face has THREE neighbouring elements.  Domains: 0 = outer faces of the upper tetrahedron,
    1 = outer faces of the lower one, 2 = the shared face.  Any two of the three domains form a closed surface.  The
    element order is shuffled so that the shared face is not always the element with the largest index."""
    V = np.array([[0.0, 0.0, 0.0], [1.0, 0.0, 0.0], [0.1, 0.9, 0.0], [0.35, 0.3, 0.8], [0.3, 0.35, -0.7]]).T
    tris = [((0, 1, 3), 0), ((1, 2, 3), 0), ((2, 0, 3), 0), ((1, 0, 4), 1), ((2, 1, 4), 1), ((0, 2, 4), 1), ((0, 1, 2), 2)]
    rng.shuffle(tris)
    E = np.array([t for t, _ in tris], np.uint32).T
    D = np.array([d for _, d in tris], np.uint32)
    ea, va = adjacency_counts(E)
    return dict(name="two-tets-shared-face", V=meshgen.perturb(V, 0.05, rng), E=E, D=D, cls="junction", ea=ea, va=va)


def relabel_plain(V, E, D, rng):
    """vertex and element permutation WITHOUT local rotation; returns V2, E2, D2, pv (old->new), pe (old->new)."""
    nv, ne = V.shape[1], E.shape[1]
    pv = list(range(nv))
    rng.shuffle(pv)
    pe = list(range(ne))
    rng.shuffle(pe)
    if pe == list(range(ne)):
        pe = pe[1:] + pe[:1]
    V2 = np.zeros_like(V)
    V2[:, pv] = V
    E2 = np.zeros_like(E)
    D2 = np.zeros_like(D)
    for old, new in enumerate(pe):
        E2[:, new] = [pv[int(E[k, old])] for k in range(3)]
        D2[new] = D[old]
    return V2, E2, D2, np.array(pv), np.array(pe)


def rotate_local(E, rng):
    """cyclic rotation of the local vertex order: new local k = old local (k + r_e) % 3; at least one r_e != 0."""
    ne = E.shape[1]
    r = [rng.randrange(3) for _ in range(ne)]
    if not any(r):
        r[rng.randrange(ne)] = 1 + rng.randrange(2)
    E2 = np.zeros_like(E)
    sig = np.zeros((ne, 3), int)
    for e in range(ne):
        for k in range(3):
            sig[e, k] = (k + r[e]) % 3
            E2[k, e] = E[sig[e, k], e]
    return E2, sig


def flip_domains(E, D, flipped):
    """reverse the orientation of the elements whose domain index is in `flipped` (local vertices 1 <-> 2)."""
    ne = E.shape[1]
    E2 = E.copy()
    sig = np.tile(np.arange(3), (ne, 1))
    for e in range(ne):
        if int(D[e]) in flipped:
            E2[1, e], E2[2, e] = E[2, e], E[1, e]
            sig[e] = (0, 2, 1)
    return E2, sig


# ----------------------------------------------------------------------------------------------------------------------
# induced dof maps
# ----------------------------------------------------------------------------------------------------------------------

class DofMapError(Exception):
    pass


def local_index_map(shapeset, sig):
    """new local dof j  ->  old local dof, given new local vertex k = old local vertex sig[k]."""
    if shapeset == "p0":
        return [0]
    if shapeset == "p1":
        return [int(sig[k]) for k in range(3)]
    out = []
    for a, b in EDGE_LOCAL:
        old = {int(sig[a]), int(sig[b])}
        out.append(next(j for j, (c, d) in enumerate(EDGE_LOCAL) if {c, d} == old))
    return out


def induced_dof_map(old, new, pe, sig, shapeset):
    """old, new: spaces on the old / transformed grid; pe[e_old] = e_new; sig[e_old] = local vertex map.
    Returns (image, sign): new dof and sign of every old global dof.  Raises DofMapError when the tables of the two
    spaces are not related by a signed permutation."""
    n_old, n_new = old.global_dof_count, new.global_dof_count
    if n_old != n_new:
        raise DofMapError(f"dof counts differ: {n_old} vs {n_new}")
    sup_old = np.asarray(old.support, bool)
    sup_new = np.asarray(new.support, bool)
    if not np.array_equal(sup_new[pe], sup_old):
        raise DofMapError("supports are not mapped onto each other")
    image = -np.ones(n_old, int)
    sign = np.zeros(n_old)
    l2g_o, l2g_n = old.local2global, new.local2global
    m_o, m_n = old.local_multipliers, new.local_multipliers
    for e in np.flatnonzero(sup_old):
        en = int(pe[e])
        lm = local_index_map(shapeset, sig[e])
        for jn, jo in enumerate(lm):
            mo, mn = float(m_o[e, jo]), float(m_n[en, jn])
            if (mo == 0) != (mn == 0):
                raise DofMapError(f"zero multiplier not preserved on element {e}->{en}, local {jo}->{jn}")
            if mo == 0:
                continue
            do, dn = int(l2g_o[e, jo]), int(l2g_n[en, jn])
            s = mo * mn
            if image[do] == -1:
                image[do], sign[do] = dn, s
            elif image[do] != dn or sign[do] != s:
                raise DofMapError(f"global dof {do} has two images/signs ({image[do]},{sign[do]}) vs ({dn},{s})")
    # dofs that no element refers to with a non-zero multiplier (the phantom dof of an empty space) carry zero rows and
    # columns: pair them in ascending order
    free_old = np.flatnonzero(image < 0)
    if len(free_old):
        free_new = sorted(set(range(n_new)) - set(image[image >= 0].tolist()))
        if len(free_new) != len(free_old):
            raise DofMapError("induced dof map is not a bijection")
        image[free_old], sign[free_old] = free_new, 1.0
    if len(set(image.tolist())) != n_old:
        raise DofMapError("induced dof map is not a bijection")
    return image, sign


def min_index_sign_violations(space):
    """RWG/SNC: for every global dof shared by two supported elements the multiplier must be +1 on the element with
    the smaller index and -1 on the other; +1 if there is a single supported element.  Returns a list of dofs."""
    bad = []
    sup = np.asarray(space.support, bool)
    per = {}
    for e in np.flatnonzero(sup):
        for j in range(3):
            m = float(space.local_multipliers[e, j])
            if m != 0:
                per.setdefault(int(space.local2global[e, j]), []).append((int(e), m))
    for d, lst in per.items():
        lst.sort()
        want = [1.0] if len(lst) == 1 else [1.0, -1.0]
        if [m for _, m in lst] != want:
            bad.append((d, lst))
    return bad


def conjugate(A, img_t, sg_t, img_d, sg_d):
    """expected matrix on the transformed grid: B[img_t[i], img_d[j]] = sg_t[i] sg_d[j] A[i, j]."""
    B = np.zeros_like(A)
    B[np.ix_(img_t, img_d)] = (sg_t[:, None] * A) * sg_d[None, :]
    return B


def rel(A, B, ref=None):
    n = np.linalg.norm(A if ref is None else ref)
    return float(np.linalg.norm(A - B) / n) if n > 0 else float(np.linalg.norm(A - B))


# ----------------------------------------------------------------------------------------------------------------------
# the oracle
# ----------------------------------------------------------------------------------------------------------------------

def _wavenumber(spec, rng, variant):
    if spec["wn"] is None:
        return None
    if spec["wn"] == "mh":
        return round(rng.uniform(0.4, 2.5), 3)
    if variant == "real":
        return round(rng.uniform(0.5, 3.0), 3)
    return complex(round(rng.uniform(0.5, 3.0), 3), round(rng.uniform(0.1, 1.2), 3))


def _kinds_for(shapeset, rng):
    return {"p0": "DP0", "p1": rng.choice(["P1", "DP1"]), "rwg": "RWG", "snc": "SNC"}[shapeset]


def _plan(ctx, cat, deep):
    """ordered list of (spec key, (dom shapeset, dual shapeset), wavenumber variant).  Every entry costs one Numba
    specialisation (regular + singular kernels); the list is cut by the time budget at run time."""
    rng = ctx.rng
    sc_pairs = [("p0", "p0"), ("p1", "p0"), ("p0", "p1"), ("p1", "p1")]
    plan = []
    if ctx.thorough or deep:
        for fam in ("lap", "helm", "mh"):
            prs = sc_pairs[:]
            rng.shuffle(prs)
            # SL gets all four shapeset pairs for Laplace, two for the others; DL/ADL two each, rotating so that every
            # pair occurs in every family
            n_sl = 4 if fam == "lap" else 2
            for i in range(n_sl):
                plan.append((f"{fam}_sl", prs[i], "complex" if i % 2 == 0 else "real"))
            for i in range(2):
                plan.append((f"{fam}_dl", prs[(i + 2) % 4], "real" if i % 2 == 0 else "complex"))
                plan.append((f"{fam}_adl", prs[(i + 1) % 4], "complex" if i % 2 == 0 else "real"))
            plan.append((f"{fam}_hyp", ("p1", "p1"), "complex"))
        plan.append(("max_E", ("rwg", "snc"), "complex"))
        plan.append(("max_M", ("rwg", "snc"), "real"))
        # interleave so that a budget cut still leaves every family represented: round-robin by family
        byfam = {}
        for it in plan:
            byfam.setdefault(cat[it[0]]["family"], []).append(it)
        order = []
        while any(byfam.values()):
            for f in ("lap", "maxwell", "helm", "mh"):
                if byfam.get(f):
                    order.append(byfam[f].pop(0))
        plan = order
        sparse = [("id", p, None) for p in cat["id"]["pairs"]] + [("lb", ("p1", "p1"), None)]
    else:
        # quick: one Laplace operator, one wavenumber operator (Helmholtz or modified Helmholtz or Maxwell), by seed
        lap = rng.choice(["lap_sl", "lap_dl", "lap_adl", "lap_hyp"])
        plan.append((lap, rng.choice(cat[lap]["pairs"]), None))
        other = rng.choice(["helm_sl", "helm_dl", "helm_adl", "helm_hyp", "mh_sl", "mh_dl", "mh_adl", "mh_hyp",
                            "max_E", "max_M", "max_E", "max_M"])
        plan.append((other, rng.choice(cat[other]["pairs"]), rng.choice(["real", "complex"])))
        sparse = [("id", rng.choice(cat["id"]["pairs"]), None), ("lb", ("p1", "p1"), None)]
    return plan, sparse


class _Runner:
    def __init__(self, ctx, res, api, cat, deep):
        self.ctx, self.res, self.api, self.cat, self.deep = ctx, res, api, cat, deep
        self.rng = ctx.rng
        self.worst = {"rigid": 0.0, "scale": 0.0, "relabel": 0.0, "sparse": 0.0}
        self.lad = {"d_lo_max": 0.0, "d_hi_max": 0.0, "ratio_max": 0.0, "d_over_e_max": 0.0, "cases": 0,
                    "at_rounding": 0}
        self.lad_rows = []
        self.skipped = []
        self.reported = set()

    # -- helpers -----------------------------------------------------------------------------------------------------
    def cex(self, key, what, **detail):
        if key in self.reported:
            return
        self.reported.add(key)
        self.res.counterexample(key, what, **detail)

    def spaces(self, grid, dk, tk, **opts):
        return mkspace(self.api, grid, dk, **opts), mkspace(self.api, grid, tk, **opts)

    def assemble(self, spec, dom, dual, k, sing, assembler=None):
        p = params(REG_ORDER, sing)
        if spec["sparse"]:
            return dense(spec["mk"](dom, dual, k, p))
        return dense(spec["mk"](dom, dual, k, p, assembler or "default_nonlocal"))

    def maps(self, spec_key, tag, dom, dual, dom2, dual2, pe, sig, dsh, tsh, detail):
        try:
            img_d, sg_d = induced_dof_map(dom, dom2, pe, sig, dsh)
            img_t, sg_t = induced_dof_map(dual, dual2, pe, sig, tsh)
        except DofMapError as e:
            self.cex(f"{tag}-dofmap-not-a-signed-permutation-{dsh}-{tsh}",
                     f"{tag}: the dof tables of the spaces on the transformed grid are not a signed permutation of "
                     f"those on the original grid: {e}", **detail)
            return None
        for sp, nm in ((dom, "domain"), (dual, "dual"), (dom2, "domain'"), (dual2, "dual'")):
            if sp.shapeset.identifier == "rwg0" or sp.identifier in ("rwg0", "snc0"):
                bad = min_index_sign_violations(sp)
                if bad:
                    self.cex(f"{tag}-edge-sign-not-min-index-rule-{sp.identifier}",
                             f"{tag}: {sp.identifier} multipliers violate the minimum-element-index sign rule",
                             dofs=str(bad[:3]), space=nm, **detail)
        return img_t, sg_t, img_d, sg_d

    # -- one (spec, pair, grid) ----------------------------------------------------------------------------------------
    def run_case(self, spec, pair, kvar, g, segment=False, force_opts=None):
        api, rng, res = self.api, self.rng, self.res
        dsh, tsh = pair
        dk, tk = _kinds_for(dsh, rng), _kinds_for(tsh, rng)
        k = _wavenumber(spec, rng, kvar)
        V, E, D = g["V"], g["E"], g["D"]
        nontriv = g["ea"] >= 1 and g["va"] >= 1
        opts = {}
        labels = sorted(set(int(x) for x in D))
        if segment and len(labels) > 1:
            opts = dict(segments=[labels[rng.randrange(len(labels))]] if len(labels) == 2 else
                        rng.sample(labels, len(labels) - 1))
            if dk in ("P1", "RWG") or tk in ("P1", "SNC", "RWG"):
                opts.update(include_boundary_dofs=rng.choice([True, False]),
                            truncate_at_segment_edge=rng.choice([True, False]))
        if force_opts is not None:
            opts = dict(force_opts)
        base = dict(operator=spec["key"], domain=dk, dual=tk, grid=g["name"], wavenumber=str(k), space_options=str(opts),
                    seed=self.ctx.seed)
        ktag = "" if k is None else ("-complex-k" if isinstance(k, complex) else "-real-k")
        opk = f"{spec['key']}-{dk.lower()}-{tk.lower()}{ktag}"
        grid = api.Grid(V, E, D)
        sparse = spec["sparse"]
        orders = [O_LO] if sparse else [O_LO, O_HI]
        # natural size of an entry: (element area)^(p/2); a matrix below 1e-8 of it is rounding noise around an exactly
        # vanishing matrix (e.g. <RWG, n x RWG> of functions with disjoint supports) and cannot carry a relative test
        tri = V[:, E.astype(int)]
        area = 0.5 * np.linalg.norm(np.cross(tri[:, 1] - tri[:, 0], tri[:, 2] - tri[:, 0], axis=0), axis=0).mean()
        floor = 1e-8 * area ** (spec["power"] / 2.0)
        A = None
        for cand in ([opts, {}] if opts else [{}]):
            try:
                dom, dual = self.spaces(grid, dk, tk, **cand)
            except Exception as e:  # noqa
                self.skipped.append(f"{opk}/{g['name']}: space construction failed: {type(e).__name__}: {str(e)[:80]}")
                return
            if dom.global_dof_count == 0 or dual.global_dof_count == 0:
                continue
            A0 = self.assemble(spec, dom, dual, k, O_LO)
            if np.linalg.norm(A0) > floor:
                opts = cand
                base["space_options"] = str(opts)
                A = {O_LO: A0}
                break
        if A is None:
            self.skipped.append(f"{opk}/{g['name']}: vanishing matrix")
            return
        if not sparse:
            A[O_HI] = self.assemble(spec, dom, dual, k, O_HI)
        nA = np.linalg.norm(A[O_LO])
        est = None

        def estimate():
            nonlocal est
            if est is None:
                Aref = self.assemble(spec, dom, dual, k, O_REF)
                est = {o: rel(A[o], Aref, ref=Aref) for o in orders}
            return est

        def sample(tr, **kw):
            return dict(check=tr, **base, **kw)

        # (i) rigid motion ------------------------------------------------------------------------------------------------
        V2, R, t = meshgen.rigid(V, rng)
        g2 = api.Grid(V2, E, D)
        d2, t2 = self.spaces(g2, dk, tk, **opts)
        B = self.assemble(spec, d2, t2, k, O_LO)
        r = rel(B, A[O_LO], ref=A[O_LO]) if B.shape == A[O_LO].shape else float("inf")
        self.worst["rigid"] = max(self.worst["rigid"], r)
        res.case(f"rigid/{opk}/{g['cls']}", nontrivial=nontriv, sample=sample("rigid", rel_diff=r))
        if not r <= TOL_EXACT:
            self.cex(f"rigid-motion-changes-matrix-{opk}",
                     "operator matrix on a rotated and translated copy of the grid differs beyond rounding",
                     rel_diff=r, tol=TOL_EXACT, rotation=R.tolist(), translation=t.tolist(),
                     vertices=V.tolist(), elements=E.tolist(), **base)

        # (ii) scaling ----------------------------------------------------------------------------------------------------
        s = rng.choice([0.5, 2.0, round(rng.uniform(0.3, 0.9), 3), round(rng.uniform(1.2, 3.5), 3)])
        g2 = api.Grid(s * V, E, D)
        d2, t2 = self.spaces(g2, dk, tk, **opts)
        B = self.assemble(spec, d2, t2, None if k is None else k / s, O_LO)
        fac = s ** spec["power"]
        r = rel(B, fac * A[O_LO], ref=fac * A[O_LO]) if B.shape == A[O_LO].shape else float("inf")
        self.worst["scale"] = max(self.worst["scale"], r)
        res.case(f"scale/{opk}/{g['cls']}", nontrivial=nontriv, sample=sample("scale", s=s, power=spec["power"], rel_diff=r))
        if not r <= TOL_EXACT:
            # which power would fit?
            fit = None
            nb = np.linalg.norm(B)
            if nb > 0 and s != 1:
                fit = math.log(nb / nA) / math.log(s)
            self.cex(f"scaling-homogeneity-{opk}",
                     f"matrix on the grid scaled by s (wavenumber k/s) is not s^{spec['power']} times the matrix",
                     s=s, expected_power=spec["power"], fitted_power=fit, rel_diff=r, tol=TOL_EXACT,
                     vertices=V.tolist(), elements=E.tolist(), **base)

        # (iii) renumbering ----------------------------------------------------------------------------------------------
        V2, E2, D2, pv, pe = relabel_plain(V, E, D, rng)
        g2 = api.Grid(V2, E2, D2)
        d2, t2 = self.spaces(g2, dk, tk, **opts)
        ident = np.tile(np.arange(3), (E.shape[1], 1))
        det = dict(vertices=V.tolist(), elements=E.tolist(), domain_indices=D.tolist(), vertex_perm=pv.tolist(),
                   element_perm=pe.tolist(), **base)
        mp = self.maps(spec["key"], "relabel", dom, dual, d2, t2, pe, ident, dsh, tsh, det)
        if mp is not None:
            B = self.assemble(spec, d2, t2, k, O_LO)
            X = conjugate(A[O_LO], *mp)
            r = rel(B, X, ref=X)
            self.worst["relabel"] = max(self.worst["relabel"], r)
            res.case(f"relabel/{opk}/{g['cls']}", nontrivial=nontriv, sample=sample("relabel", rel_diff=r))
            if not r <= TOL_EXACT:
                if sparse:
                    self.cex(f"relabel-not-conjugated-{opk}", "sparse operator on the renumbered grid is not the matrix "
                             "conjugated by the induced dof permutation", rel_diff=r, tol=TOL_EXACT, **det)
                else:
                    # split: regular part must agree to rounding, singular part by the ladder
                    S1 = self.assemble(spec, dom, dual, k, O_LO, "only_singular_part")
                    S2 = self.assemble(spec, d2, t2, k, O_LO, "only_singular_part")
                    rr = rel(B - S2, conjugate(A[O_LO] - S1, *mp), ref=X)
                    if not rr <= TOL_EXACT:
                        self.cex(f"relabel-regular-part-not-conjugated-{opk}",
                                 "regular (non-adjacent) part of the operator on the renumbered grid is not the matrix "
                                 "conjugated by the induced dof permutation", rel_diff_regular=rr, rel_diff=r,
                                 tol=TOL_EXACT, **det)
                    else:
                        B_hi = self.assemble(spec, d2, t2, k, O_HI)
                        self.ladder("relabel", opk, r, rel(B_hi, conjugate(A[O_HI], *mp), ref=A[O_HI]), estimate(), det)

        if sparse:
            # (iv), (v) for sparse operators: exact relations (the triangle rule integrates the products exactly)
            self.sparse_rot_flip(spec, pair, dk, tk, k, g, opts, A[O_LO], dom, dual, opk, nontriv, base)
            return

        # (iv) local rotation ---------------------------------------------------------------------------------------------
        E2, sig = rotate_local(E, rng)
        g2 = api.Grid(V, E2, D)
        d2, t2 = self.spaces(g2, dk, tk, **opts)
        pe_id = np.arange(E.shape[1])
        det = dict(vertices=V.tolist(), elements=E.tolist(), rotated_elements=E2.tolist(), **base)
        mp = self.maps(spec["key"], "local-rotation", dom, dual, d2, t2, pe_id, sig, dsh, tsh, det)
        if mp is not None:
            dd = {o: rel(self.assemble(spec, d2, t2, k, o), conjugate(A[o], *mp), ref=A[o]) for o in orders}
            res.case(f"rotate/{opk}/{g['cls']}", nontrivial=nontriv,
                     sample=sample("local-rotation", d_lo=dd[O_LO], d_hi=dd[O_HI]))
            self.ladder("local-rotation", opk, dd[O_LO], dd[O_HI], estimate(), det)

        # (v) reversed orientation vs swapped_normals -----------------------------------------------------------------------
        labels = sorted(set(int(x) for x in D))
        flipped = labels if len(labels) == 1 else rng.sample(labels, rng.randrange(1, len(labels)))
        E2, sig = flip_domains(E, D, set(flipped))
        g2 = api.Grid(V, E2, D)
        d2, t2 = self.spaces(g2, dk, tk, **opts)
        try:
            ds, ts = self.spaces(grid, dk, tk, swapped_normals=list(flipped), **opts)
        except Exception as e:  # noqa
            self.skipped.append(f"{opk}/{g['name']}: swapped_normals space failed: {type(e).__name__}: {str(e)[:80]}")
            return
        det = dict(vertices=V.tolist(), elements=E.tolist(), domain_indices=D.tolist(), flipped_domains=list(flipped), **base)
        mp = self.maps(spec["key"], "orientation-flip", ds, ts, d2, t2, pe_id, sig, dsh, tsh, det)
        if mp is not None:
            As = {o: self.assemble(spec, ds, ts, k, o) for o in orders}
            dd = {o: rel(self.assemble(spec, d2, t2, k, o), conjugate(As[o], *mp), ref=As[o]) for o in orders}
            # the flag must do something for operators with a normal: compare with the unflagged matrix
            eff = rel(As[O_HI], A[O_HI], ref=A[O_HI])
            res.case(f"flip/{opk}/{g['cls']}", nontrivial=nontriv,
                     sample=sample("orientation-flip", d_lo=dd[O_LO], d_hi=dd[O_HI], flag_effect=eff))
            self.ladder("orientation-flip-vs-swapped-normals", opk, dd[O_LO], dd[O_HI], estimate(), det)

    def ladder(self, tag, opk, d_lo, d_hi, est, det):
        e_hi = est[O_HI]
        L = self.lad
        L["cases"] += 1
        if d_hi <= TOL_EXACT:
            L["at_rounding"] += 1
        else:
            L["d_lo_max"] = max(L["d_lo_max"], d_lo)
            L["d_hi_max"] = max(L["d_hi_max"], d_hi)
            if d_lo > 0:
                L["ratio_max"] = max(L["ratio_max"], d_hi / d_lo)
            if e_hi > 0:
                L["d_over_e_max"] = max(L["d_over_e_max"], d_hi / e_hi)
        if d_hi > TOL_EXACT:
            self.lad_rows.append((d_hi / d_lo if d_lo > 0 else float("inf"), d_hi, d_lo, e_hi, f"{tag}/{opk}/{det.get('grid')}"))
        ok_bound = d_hi <= max(TOL_EXACT, min(CAP, SLACK * e_hi))
        ok_decay = d_hi <= max(TOL_EXACT, DECAY * d_lo)
        if not (ok_bound and ok_decay):
            self.cex(f"{tag}-beyond-singular-quadrature-error-{opk}",
                     f"{tag}: the matrix differs from the permuted/sign-changed matrix by more than singular-quadrature "
                     f"error (d({O_LO})={d_lo:.3e}, d({O_HI})={d_hi:.3e}, error estimate e({O_HI})={e_hi:.3e}; required "
                     f"d_hi <= {SLACK} e_hi and d_hi <= {DECAY} d_lo)",
                     d_lo=d_lo, d_hi=d_hi, e_lo=est[O_LO], e_hi=e_hi, bound_ok=ok_bound, decay_ok=ok_decay, **det)

    def sparse_rot_flip(self, spec, pair, dk, tk, k, g, opts, A, dom, dual, opk, nontriv, base):
        api, rng, res = self.api, self.rng, self.res
        dsh, tsh = pair
        V, E, D = g["V"], g["E"], g["D"]
        pe_id = np.arange(E.shape[1])
        E2, sig = rotate_local(E, rng)
        g2 = api.Grid(V, E2, D)
        d2, t2 = self.spaces(g2, dk, tk, **opts)
        det = dict(vertices=V.tolist(), elements=E.tolist(), rotated_elements=E2.tolist(), **base)
        mp = self.maps(spec["key"], "local-rotation", dom, dual, d2, t2, pe_id, sig, dsh, tsh, det)
        if mp is not None:
            X = conjugate(A, *mp)
            r = rel(self.assemble(spec, d2, t2, k, O_LO), X, ref=X)
            self.worst["sparse"] = max(self.worst["sparse"], r)
            res.case(f"rotate/{opk}/{g['cls']}", nontrivial=nontriv, sample=dict(check="local-rotation", rel_diff=r, **base))
            if not r <= TOL_EXACT:
                self.cex(f"local-rotation-not-conjugated-{opk}", "sparse operator after cyclic rotation of local vertex "
                         "order is not the permuted matrix", rel_diff=r, tol=TOL_EXACT, **det)
        labels = sorted(set(int(x) for x in D))
        flipped = labels if len(labels) == 1 else rng.sample(labels, rng.randrange(1, len(labels)))
        E2, sig = flip_domains(E, D, set(flipped))
        g2 = api.Grid(V, E2, D)
        d2, t2 = self.spaces(g2, dk, tk, **opts)
        ds, ts = self.spaces(api.Grid(V, E, D), dk, tk, swapped_normals=list(flipped), **opts)
        det = dict(vertices=V.tolist(), elements=E.tolist(), domain_indices=D.tolist(), flipped_domains=list(flipped), **base)
        mp = self.maps(spec["key"], "orientation-flip", ds, ts, d2, t2, pe_id, sig, dsh, tsh, det)
        if mp is not None:
            X = conjugate(self.assemble(spec, ds, ts, k, O_LO), *mp)
            r = rel(self.assemble(spec, d2, t2, k, O_LO), X, ref=X)
            self.worst["sparse"] = max(self.worst["sparse"], r)
            res.case(f"flip/{opk}/{g['cls']}", nontrivial=nontriv, sample=dict(check="orientation-flip", rel_diff=r, **base))
            if not r <= TOL_EXACT:
                self.cex(f"orientation-flip-vs-swapped-normals-{opk}", "sparse operator on the grid with reversed "
                         "elements differs from the one with swapped_normals on the original grid", rel_diff=r,
                         tol=TOL_EXACT, **det)


def _parse_only(only, cat):
    """"lap_dl:p1/p0,max_E" -> [(key, (dom shapeset, dual shapeset), "complex")]"""
    out = []
    for item in (only.split(",") if isinstance(only, str) else only):
        key, _, pr = item.strip().partition(":")
        pair = tuple(pr.split("/")) if pr else cat[key]["pairs"][-1]
        out.append((key, pair, "complex"))
    return out


def oracle(ctx, deep=False, only=None):
    """only (or env VERIF_C03_ONLY): comma separated "operator[:domshapeset/dualshapeset]" to restrict the run (replays,
    sensitivity runs), e.g. "lap_dl:p1/p0,max_E"."""
    res = Result()
    api = _api()
    cat = catalogue(api)
    t_start = time.time()
    only = only or os.environ.get("VERIF_C03_ONLY")
    budget = float(os.environ.get("VERIF_C03_BUDGET", 780.0 if (ctx.thorough or deep) else 125.0))
    run = _Runner(ctx, res, api, cat, deep)
    grids = grid_pool(ctx.rng, ctx.thorough or deep)
    plan, sparse = _plan(ctx, cat, deep)
    if only:
        sel = _parse_only(only, cat)
        sparse = [x for x in sel if cat[x[0]]["sparse"]]
        plan = [x for x in sel if not cat[x[0]]["sparse"]]
    n_grids = ctx.pick(2, 3) + (1 if deep else 0)
    done, cut = [], []
    per_spec = []

    def pick_grids(i):
        # always one closed or multi-domain grid with both adjacency kinds; rotate the rest so that open, closed and
        # multi-domain grids all occur
        order = grids[i % len(grids):] + grids[: i % len(grids)]
        return order[:n_grids]

    # one dense operator first (so that a run cut short by the budget on a loaded machine still has ladder cases), then
    # the sparse ones, then the remaining dense ones until the budget is used
    for i, (key, pair, kvar) in enumerate(plan[:1] + sparse + plan[1:]):
        el = time.time() - t_start
        avg = (sum(per_spec) / len(per_spec)) if per_spec else 30.0
        if done and el + avg > budget:
            cut.append(f"{key}:{pair[0]}/{pair[1]}")
            continue
        t1 = time.time()
        for gi, g in enumerate(pick_grids(i)):
            seg = (gi % 2 == 1) and g["cls"] in ("multi", "open-multi")
            try:
                run.run_case(cat[key], pair, kvar, g, segment=seg)
            except Exception as e:  # noqa  (an exception of the real code on a legal input is itself a violation)
                import traceback
                tb = traceback.format_exc().splitlines()[-6:]
                run.cex(f"exception-{key}-{pair[0]}-{pair[1]}", f"assembling on a transformed grid raised "
                        f"{type(e).__name__}: {str(e)[:200]}", grid=g["name"], traceback=tb, seed=ctx.seed)
        per_spec.append(time.time() - t1)
        done.append(f"{key}:{pair[0]}/{pair[1]}")
        ctx.log(f"C03 oracle {key} {pair} done in {per_spec[-1]:.1f}s")
    # junction edges (three elements on an edge): sparse edge-space operators on every pair of domains, always (cheap; the
    # seeded change C03-b, edge-function sign taken from the smallest of ALL neighbours, shows only here)
    t1 = time.time()
    gj = junction_grid(ctx.rng)
    jpairs = [("rwg", "snc"), ("rwg", "rwg")] if not (ctx.thorough or deep) else [("rwg", "snc"), ("rwg", "rwg"), ("snc", "snc")]
    for segs in ([0, 2], [1, 2], [0, 1]):
        for pair in jpairs:
            try:
                run.run_case(cat["id"], pair, None, gj, force_opts=dict(segments=segs))
            except Exception as e:  # noqa
                import traceback
                run.cex(f"exception-id-{pair[0]}-{pair[1]}-junction", f"assembling on the junction grid raised "
                        f"{type(e).__name__}: {str(e)[:200]}", grid=gj["name"], segments=segs,
                        traceback=traceback.format_exc().splitlines()[-6:])
    if (ctx.thorough or deep) and "max_E" in cat and time.time() - t_start < budget:
        for segs in ([0, 2], [0, 1]):
            run.run_case(cat["max_E"], ("rwg", "snc"), "complex", gj, force_opts=dict(segments=segs))
    ctx.log(f"C03 oracle junction grid done in {time.time() - t1:.1f}s")
    res.stats.update({
        "c03_specialisations_done": len(done), "c03_specialisations_cut_by_budget": len(cut),
        "c03_worst_rel_rigid": run.worst["rigid"], "c03_worst_rel_scale": run.worst["scale"],
        "c03_worst_rel_relabel": run.worst["relabel"], "c03_worst_rel_sparse_rot_flip": run.worst["sparse"],
        "c03_tol_exact": TOL_EXACT,
        "c03_ladder_cases": run.lad["cases"], "c03_ladder_at_rounding": run.lad["at_rounding"],
        "c03_ladder_d_lo_max": run.lad["d_lo_max"], "c03_ladder_d_hi_max": run.lad["d_hi_max"],
        "c03_ladder_ratio_max": run.lad["ratio_max"], "c03_ladder_decay_required": DECAY,
        "c03_ladder_d_over_estimate_max": run.lad["d_over_e_max"], "c03_ladder_slack_allowed": SLACK,
        "c03_ladder_cap": CAP,
        "c03_ladder_worst_by_ratio": [f"{r:.3f} d_hi={dh:.2e} d_lo={dl:.2e} e_hi={eh:.2e} {w}"
                                      for r, dh, dl, eh, w in sorted(run.lad_rows, reverse=True)[:4]],
        "c03_ladder_worst_by_d_hi": [f"d_hi={dh:.2e} ratio={r:.3f} e_hi={eh:.2e} {w}"
                                     for r, dh, dl, eh, w in sorted(run.lad_rows, key=lambda x: -x[1])[:4]],
        "c03_oracle_wall_s": round(time.time() - t_start, 1),
    })
    res.notes.append("C03 oracle operators: " + ", ".join(done))
    if cut:
        res.notes.append("C03 oracle: not run (time budget): " + ", ".join(cut))
    for s in run.skipped[:10]:
        res.notes.append("C03 oracle skipped: " + s)
    return res


if __name__ == "__main__":
    tier = sys.argv[1] if len(sys.argv) > 1 else "quick"
    seed = int(sys.argv[2]) if len(sys.argv) > 2 else 0
    ctx = Ctx("C03", tier, seed)
    t0 = time.time()
    r = oracle(ctx, deep=(len(sys.argv) > 3 and sys.argv[3] == "deep"))
    print(f"cases {r.evaluations}, nontrivial {len(r.nontrivial)}, counterexamples {len(r.counterexamples)}")
    for c in r.counterexamples:
        short = {k: (v if not isinstance(v, (list, str)) or len(str(v)) < 200 else str(v)[:200] + "...") for k, v in c.items()}
        print("COUNTEREXAMPLE", short)
    for k, v in r.stats.items():
        print(f"  {k}: {v}")
    for n in r.notes:
        print("  note:", n)
    print(f"wall {time.time() - t0:.1f}s (plus import)")
