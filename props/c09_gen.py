"""Tie A / Tie B for C09.

Tie A (source text, `ast`, no import): bempp_cl/api/space/scalar_dual_spaces.py -> lean/BemppVerif/Gen/SpaceTables.lean
  * the two barycentric-element index formulas of `dual0_function_space`
    (`_bary_dofs.append(6 * face_n + <expr in vertex>)`), translated to Lean `Int` expressions (Python `%` with a
    positive modulus = `Int.emod`),
  * the three dof tables of the fill loop of `dual1_function_space`: the barycentre list of `for n in [...]` and the
    two `enumerate([[..], [..], [..]])` tables (edge midpoints, vertices).
Tie B (symbolic tracing of the undecorated functions): bempp_cl/api/space/shapesets.py ->
lean/BemppVerif/Gen/SpaceShapes.lean: the P0, P1 and RWG reference shape functions as polynomials in the local
coordinates (`_p0_shapeset_evaluate`, `_p1_disc_shapeset_evaluate`, `_rwg0_shapeset_evaluate`; SNC uses the RWG one).
"""
import ast
import os

from vlib import tables as T
from vlib.common import LEAN, GenError

REL = "bempp_cl/api/space/scalar_dual_spaces.py"


def _expr_to_lean(n, var):
    """restricted integer arithmetic in the variable `var` -> Lean Int expression"""
    if isinstance(n, ast.Constant) and isinstance(n.value, int) and not isinstance(n.value, bool):
        return f"({n.value} : Int)" if n.value >= 0 else f"(({n.value}) : Int)"
    if isinstance(n, ast.Name) and n.id == var:
        return var
    if isinstance(n, ast.BinOp):
        a, b = _expr_to_lean(n.left, var), _expr_to_lean(n.right, var)
        if isinstance(n.op, ast.Add):
            return f"({a} + {b})"
        if isinstance(n.op, ast.Sub):
            return f"({a} - {b})"
        if isinstance(n.op, ast.Mult):
            return f"({a} * {b})"
        if isinstance(n.op, ast.Mod):
            if not (isinstance(n.right, ast.Constant) and isinstance(n.right.value, int) and n.right.value > 0):
                raise T.ExtractError("modulus is not a positive literal")
            return f"(Int.emod {a} {b})"
    raise T.ExtractError(f"unsupported index expression: {ast.dump(n)[:100]}")


def extract_dual0(tree):
    fn = T.find_function(tree, "dual0_function_space")
    found = []
    for node in ast.walk(fn):
        if (isinstance(node, ast.Call) and isinstance(node.func, ast.Attribute) and node.func.attr == "append"
                and isinstance(node.func.value, ast.Name) and node.func.value.id == "_bary_dofs"):
            found.append(node)
    found.sort(key=lambda c: (c.lineno, c.col_offset))
    if len(found) != 2:
        raise T.ExtractError(f"expected two _bary_dofs.append calls, found {len(found)}")
    out = []
    for c in found:
        a = c.args[0]
        # 6 * face_n + <expr>
        if not (isinstance(a, ast.BinOp) and isinstance(a.op, ast.Add) and isinstance(a.left, ast.BinOp)
                and isinstance(a.left.op, ast.Mult) and isinstance(a.left.left, ast.Constant) and a.left.left.value == 6
                and isinstance(a.left.right, ast.Name) and a.left.right.id == "face_n"):
            raise T.ExtractError("barycentric dof index is not of the form 6 * face_n + expr")
        out.append((_expr_to_lean(a.right, "vertex"), ast.unparse(a.right)))
    # the guard of the append block
    guard = None
    for node in ast.walk(fn):
        if isinstance(node, ast.If) and any(c in ast.walk(node) for c in found):
            guard = ast.unparse(node.test)
    return out, guard


def extract_dual1(tree):
    fn = T.find_function(tree, "dual1_function_space")
    fors = [n for n in ast.walk(fn) if isinstance(n, ast.For)]
    fors.sort(key=lambda n: n.lineno)
    bary = [n for n in fors if isinstance(n.iter, ast.List) and isinstance(n.target, ast.Name) and n.target.id == "n"]
    enum = [n for n in fors if isinstance(n.iter, ast.Call) and isinstance(n.iter.func, ast.Name)
            and n.iter.func.id == "enumerate" and n.iter.args and isinstance(n.iter.args[0], ast.List)]
    if len(bary) != 1 or len(enum) != 2:
        raise T.ExtractError(f"dual1 tables: {len(bary)} literal `for n in [...]`, {len(enum)} enumerate tables")
    b = T._lit(bary[0].iter)
    e = T._lit(enum[0].iter.args[0])
    v = T._lit(enum[1].iter.args[0])
    # which table belongs to edges / vertices: the comparison in the loop body names element_edges / elements
    def kind(loop):
        src = ast.unparse(loop)
        return "edge" if "element_edges" in src.split("\n")[1] else "vertex"
    if kind(enum[0]) != "edge" or kind(enum[1]) != "vertex":
        raise T.ExtractError("dual1 enumerate tables are not (edge table, vertex table) in source order")
    # the value stored with the barycentre dofs
    for t in (b, e, v):
        flat = t if t is b else [x for r in t for x in r]
        if not all(isinstance(x, int) and 0 <= x < 18 for x in flat):
            raise T.ExtractError(f"dual1 table out of range: {t}")
    return b, e, v


def _trace_shapesets():
    """trace the three reference shapesets at one symbolic point (xi, eta)"""
    import numpy as np
    from vlib import symtrace as st
    try:
        from bempp_cl.api.space import shapesets as ss
    except Exception as ex:  # noqa
        raise GenError(f"cannot import shapesets: {type(ex).__name__}: {ex}")
    pts = np.empty((2, 1), dtype=object)
    pts[0, 0] = st.Sym.var("xi")
    pts[1, 0] = st.Sym.var("eta")

    def py(f):
        return getattr(f, "py_func", f)

    out = {}
    try:
        p0 = py(ss._p0_shapeset_evaluate)(pts)
        p1 = py(ss._p1_disc_shapeset_evaluate)(pts)
        rw = py(ss._rwg0_shapeset_evaluate)(pts)
    except Exception as ex:  # noqa
        raise GenError(f"tracing the shapesets failed: {type(ex).__name__}: {ex}")
    if p0.shape != (1, 1, 1) or p1.shape != (1, 3, 1) or rw.shape != (2, 3, 1):
        raise GenError(f"unexpected shapeset shapes {p0.shape} {p1.shape} {rw.shape}")
    out["p0"] = [st.Sym.lift(p0[0, 0, 0]).t]
    out["p1"] = [st.Sym.lift(p1[0, i, 0]).t for i in range(3)]
    out["rwg"] = [(st.Sym.lift(rw[0, i, 0]).t, st.Sym.lift(rw[1, i, 0]).t) for i in range(3)]
    return out


def _term(t):
    """Lean term over a commutative ring K in the variables xi eta (polynomials only)"""
    k = t[0]
    if k == "var":
        return t[1]
    if k == "const":
        fr = t[1]
        if fr.denominator != 1:
            raise GenError(f"non-integer constant {fr} in a reference shape function")
        return f"({int(fr)} : K)" if fr >= 0 else f"(({int(fr)}) : K)"
    if k in ("add", "sub", "mul"):
        op = {"add": "+", "sub": "-", "mul": "*"}[k]
        return f"({_term(t[1])} {op} {_term(t[2])})"
    if k == "neg":
        return f"(-{_term(t[1])})"
    raise GenError(f"non-polynomial node {k} in a reference shape function")


def generate():
    try:
        tree = T.parse(REL)
        d0, guard = extract_dual0(tree)
        b, e, v = extract_dual1(tree)
    except (T.ExtractError, SyntaxError, OSError) as ex:
        raise GenError(f"dual-space table extraction failed: {ex}")

    def nl(l):
        return "[" + ", ".join(str(int(x)) for x in l) + "]"
    body = [
        "-- GENERATED by props/c09_gen.py from bempp_cl/api/space/scalar_dual_spaces.py -- do not edit",
        "namespace BemppVerif.Gen.SpaceTables",
        f"/-- `dual0_function_space`: first barycentric element of local vertex `vertex`: `{d0[0][1]}` -/",
        f"def dual0First (vertex : Int) : Int := {d0[0][0]}",
        f"/-- second barycentric element: `{d0[1][1]}` -/",
        f"def dual0Second (vertex : Int) : Int := {d0[1][0]}",
        "/-- `dual1_function_space`: local dofs (0..17 on the six sub-triangles) at the barycentre -/",
        f"def dual1Barycentre : List Nat := {nl(b)}",
        "/-- local dofs at the midpoint of local edge i -/",
        "def dual1Edge : List (List Nat) := [" + ", ".join(nl(r) for r in e) + "]",
        "/-- local dofs at local vertex i -/",
        "def dual1Vertex : List (List Nat) := [" + ", ".join(nl(r) for r in v) + "]",
        "end BemppVerif.Gen.SpaceTables",
        "",
    ]
    ch1 = T.write_if_changed(os.path.join(LEAN, "BemppVerif/Gen/SpaceTables.lean"), "\n".join(body))
    sh = _trace_shapesets()
    body = [
        "-- GENERATED by props/c09_gen.py by tracing bempp_cl/api/space/shapesets.py -- do not edit",
        "import Mathlib.Algebra.Ring.Defs",
        "namespace BemppVerif.Gen.SpaceShapes",
        "set_option linter.unusedVariables false",
        "variable {K : Type} [CommRing K]",
        "/-- `_p0_shapeset_evaluate` -/",
        f"def p0Shape (xi eta : K) : K := {_term(sh['p0'][0])}",
        "/-- `_p1_disc_shapeset_evaluate`, shape function i -/",
        "def p1Shape (xi eta : K) : Nat → K",
    ]
    for i in range(2):
        body.append(f"  | {i} => {_term(sh['p1'][i])}")
    body.append(f"  | _ => {_term(sh['p1'][2])}")
    body += ["/-- `_rwg0_shapeset_evaluate`, shape function i: (first, second) reference component -/",
             "def rwgShape (xi eta : K) : Nat → K × K"]
    for i in range(2):
        body.append(f"  | {i} => ({_term(sh['rwg'][i][0])}, {_term(sh['rwg'][i][1])})")
    body.append(f"  | _ => ({_term(sh['rwg'][2][0])}, {_term(sh['rwg'][2][1])})")
    body += ["end BemppVerif.Gen.SpaceShapes", ""]
    ch2 = T.write_if_changed(os.path.join(LEAN, "BemppVerif/Gen/SpaceShapes.lean"), "\n".join(body))
    return {"SpaceTables": dict(dual0=[d0[0][1], d0[1][1]], dual0_guard=guard, dual1_barycentre=b, dual1_edge=e,
                                dual1_vertex=v, changed=ch1),
            "SpaceShapes": dict(traced=["p0", "p1 x3", "rwg x3"], changed=ch2)}


if __name__ == "__main__":
    print(generate())
