"""Tie for the operator CONSTRUCTORS (bempp_cl/api/operators/{boundary,potential,far_field}/*.py).

The real constructors are called with a fixed set of wavenumber probes; the `OperatorDescriptor` each of them hands to the
assembler is recorded (boundary operators: `op.descriptor`; potential / far-field operators: the descriptor given to
`PotentialAssembler`, which is replaced by a recorder so that nothing is compiled).  The recorded strings are parsed into
the structured names of `Model/Ctor.lean` (and rendered back: the round trip must reproduce the string), and
`Gen/CtorTable.lean` is written: one list of (call, descriptor) per group and one theorem per group,
    theorem ctor_<group> : forall r in rows_<group>, spec r.1 = r.2 := by decide +kernel
A constructor that changes its kernel name, assembly type, option order, dispatch rule, complex flag or kernel dimension
breaks the theorem of its group.

Second table: for every distinct recorded descriptor, `select_numba_kernels(descriptor, mode)` is called (modes regular and
singular for boundary operators, potential for potentials and far fields); the two selected functions must BE the module
attributes of their `__name__` (object identity: these are the functions the kernel and assembler tracers translate), the
names are parsed into (assembly type | kernel name, mode), and
    theorem select_<group> : forall r in select_rows_<group>, selectSpec r.1 r.2.1 = r.2.2 := by decide +kernel
A swapped entry of one of the dictionaries in `select_numba_kernels` breaks the theorem of its group.
"""
import os

import numpy as np

from vlib import tables as T
from vlib.common import LEAN, GenError

FAMILIES = {"laplace": "laplace", "helmholtz": "helmholtz", "modified_helmholtz": "modified", "maxwell": "maxwell"}
LAYERS = {"single_layer": "sl", "double_layer": "dl", "adjoint_double_layer": "adl", "hypersingular": "hyp",
          "electric_field": "efield", "magnetic_field": "mfield"}
KINDS = {"boundary": "boundary", "potential": "potential", "far_field": "farField"}
SCALE = 100

# probes: (label, k) for Helmholtz / Maxwell; omega for modified Helmholtz
K_PROBES = [2.5, 1.5j, -0.5j, 2.0 + 0.75j, 1.25 - 0.5j, -3.0]
OM_PROBES = [1.25, -0.75]


def _scaled(x):
    v = float(x) * SCALE
    if abs(v - round(v)) > 1e-9:
        raise GenError(f"constructor tie: option value {x!r} is not one of the probe values")
    return int(round(v))


def parse_name(s):
    """'<family>[_far_field]_<layer>' -> (family, far, layer) in the Lean constructor names."""
    for fam in sorted(FAMILIES, key=len, reverse=True):
        if s.startswith(fam + "_"):
            rest = s[len(fam) + 1:]
            far = rest.startswith("far_field_")
            if far:
                rest = rest[len("far_field_"):]
            if rest in LAYERS:
                return FAMILIES[fam], far, LAYERS[rest]
    raise GenError(f"constructor tie: cannot parse the name {s!r} as <family>[_far_field]_<layer>")


def render_name(fam, far, layer):
    f = {v: k for k, v in FAMILIES.items()}[fam]
    l_ = {v: k for k, v in LAYERS.items()}[layer]
    return f + ("_far_field_" if far else "_") + l_


def parse_asm(s):
    if s == "default_scalar":
        return ".defaultScalar"
    if s.endswith("_hypersingular") and s[:-len("_hypersingular")] in FAMILIES:
        return f"(.hypersingular .{FAMILIES[s[:-len('_hypersingular')]]})"
    if s in ("maxwell_electric_field", "maxwell_magnetic_field"):
        return f"(.maxwell .{LAYERS[s[len('maxwell_'):]]})"
    if s in ("maxwell_electric_far_field", "maxwell_magnetic_far_field"):
        return f"(.maxwellFar .{'efield' if 'electric' in s else 'mfield'})"
    raise GenError(f"constructor tie: unknown assembly type {s!r}")


MODES = {"regular": "regular", "singular": "singular", "potential": "potential"}
EM = {"efield": "efield", "mfield": "mfield"}


def parse_asm_fn(name):
    """assembly function __name__ -> (Asm term, mode)"""
    for mode in ("regular", "singular", "potential"):
        if name == f"default_scalar_{mode}_kernel":
            return ".defaultScalar", mode
    for fam in FAMILIES:
        for mode in ("regular", "singular"):
            if name == f"{fam}_hypersingular_{mode}":
                return f"(.hypersingular .{FAMILIES[fam]})", mode
    for f in EM:
        if name == f"maxwell_{f}_regular_assembler":
            return f"(.maxwell .{f})", "regular"
        if name == f"maxwell_{f}_singular":
            return f"(.maxwell .{f})", "singular"
        if name == f"maxwell_{f}_potential":
            return f"(.maxwell .{f})", "potential"
        if name == f"maxwell_{f}_far_field":
            return f"(.maxwellFar .{f})", "potential"
    raise GenError(f"constructor tie: unknown assembly function {name!r}")


def parse_kernel_fn(name):
    """kernel function __name__ -> (Name term, mode)"""
    for mode in ("regular", "singular"):
        if name.endswith("_" + mode):
            f, far, l_ = parse_name(name[:-len(mode) - 1])
            if far:
                break
            return f"⟨.{f}, false, .{l_}⟩", mode
    f, far, l_ = parse_name(name)
    if not far:
        raise GenError(f"constructor tie: kernel function {name!r} has no _regular/_singular suffix")
    return f"⟨.{f}, true, .{l_}⟩", "regular"


def _select_rows(kind, d, seen):
    """rows of select_numba_kernels(d, mode) for the modes the assemblers of this kind use"""
    import bempp_cl.core.numba_kernels as nk
    out = []
    for mode in (("regular", "singular") if kind == "boundary" else ("potential",)):
        key = (d.kernel_type, d.assembly_type, mode)
        if key in seen:
            continue
        seen.add(key)
        try:
            af, kf = nk.select_numba_kernels(d, mode=mode)
        except Exception as e:  # noqa
            raise GenError(f"constructor tie: select_numba_kernels({d.identifier}, {mode}) raised {type(e).__name__}: {e}")
        an, kn = af.__name__, kf.__name__
        if getattr(nk, an, None) is not af or getattr(nk, kn, None) is not kf:
            raise GenError(f"constructor tie: select_numba_kernels returns an object that is not numba_kernels.{an}/{kn}")
        a_t, a_m = parse_asm_fn(an)
        k_t, k_m = parse_kernel_fn(kn)
        out.append((f"({_desc_term(d)}, .{mode}, (⟨({a_t}, .{a_m}), ({k_t}, .{k_m})⟩ : Selected))",
                    f"select_numba_kernels({d.identifier}, {mode}) -> {an}, {kn}"))
    return out


def _desc_term(d):
    ident = d.identifier
    if ident.endswith("_boundary"):
        isb, nm = True, ident[:-len("_boundary")]
    elif ident.endswith("_potential"):
        isb, nm = False, ident[:-len("_potential")]
    else:
        raise GenError(f"constructor tie: identifier {ident!r} ends neither in _boundary nor in _potential")
    i_f, i_far, i_l = parse_name(nm)
    k_f, k_far, k_l = parse_name(d.kernel_type)
    if render_name(i_f, i_far, i_l) != nm or render_name(k_f, k_far, k_l) != d.kernel_type:
        raise GenError("constructor tie: name round trip failed")
    opts = ", ".join(str(_scaled(x)) for x in d.options)
    b = lambda x: "true" if x else "false"  # noqa: E731
    return (f"⟨⟨.{i_f}, {b(i_far)}, .{i_l}⟩, {b(isb)}, [{opts}], ⟨.{k_f}, {b(k_far)}, .{k_l}⟩, {parse_asm(d.assembly_type)}, "
            f"{b(bool(d.is_complex))}, {int(d.kernel_dimension)}, {b(d.singular_part is not None)}⟩")


def record():
    """-> dict group -> list of (call term, descriptor term, human readable record)"""
    import bempp_cl.api as api
    import bempp_cl.api.assembly.assembler as asm
    import bempp_cl.api.assembly.potential_operator as po
    from vlib import meshgen as mg
    V, E = mg.octahedron()
    g = api.Grid(V, E)
    p1 = api.function_space(g, "P", 1)
    dp0 = api.function_space(g, "DP", 0)
    rwg = api.function_space(g, "RWG", 0)
    snc = api.function_space(g, "SNC", 0)
    pts = np.array([[2.0], [0.1], [0.3]])
    log = []

    class Recorder:
        def __init__(self, space, points, operator_descriptor, device_interface=None, assembler=None, parameters=None, *a, **k):
            log.append(operator_descriptor)
            plog.append(parameters)
    plog = []
    SENT = api.utils.parameters.DefaultParameters() if hasattr(api, "utils") else None
    if SENT is None:
        from bempp_cl.api.utils.parameters import DefaultParameters
        SENT = DefaultParameters()
    SENT.quadrature.regular = 7  # a value no default has

    def same_params(got, where):
        # every constructor must hand the caller's parameter object (or its values) on to the assembler
        if got is not SENT and getattr(getattr(got, "quadrature", None), "regular", None) != 7:
            raise GenError(f"constructor tie: {where} does not pass the caller's parameters object on to the assembler "
                           f"(the assembler received {'None' if got is None else 'another object with regular order ' + str(getattr(getattr(got, 'quadrature', None), 'regular', None))})")
    B, P, F = api.operators.boundary, api.operators.potential, api.operators.far_field
    groups = {}

    seen_sel = set()
    sel_rows = groups.setdefault("__select__", {})

    def add(group, kind, fam, layer, kre, kim, om, d, call_txt):
        sel_rows.setdefault(group, []).extend(_select_rows(kind, d, seen_sel))
        call = f"⟨.{KINDS[kind]}, .{FAMILIES[fam]}, .{LAYERS[layer]}, {kre}, {kim}, {om}⟩"
        groups.setdefault(group, []).append((call, _desc_term(d), f"{call_txt} -> {d.identifier} {list(map(float, d.options))} "
                                             f"{d.kernel_type} {d.assembly_type} complex={bool(d.is_complex)} "
                                             f"dim={d.kernel_dimension}"))

    def probes(fam):
        if fam == "laplace":
            return [((), 0, 0, 0)]
        if fam == "modified_helmholtz":
            return [((w,), 0, 0, _scaled(w)) for w in OM_PROBES]
        return [((k,), _scaled(np.real(k)), _scaled(np.imag(k)), 0) for k in K_PROBES]

    saved = (asm.PotentialAssembler, po.PotentialOperator)
    try:
        asm.PotentialAssembler = Recorder
        po.PotentialOperator = lambda a: a
        sc_spaces = {"single_layer": (dp0, dp0, dp0), "double_layer": (p1, p1, dp0), "adjoint_double_layer": (dp0, dp0, p1),
                     "hypersingular": (p1, p1, p1)}
        for fam in ("laplace", "helmholtz", "modified_helmholtz"):
            mod = getattr(B, fam)
            for layer, sp in sc_spaces.items():
                for args, kre, kim, om in probes(fam):
                    op = getattr(mod, layer)(*sp, *args, parameters=SENT)
                    same_params(op.assembler.parameters, f"boundary.{fam}.{layer}({', '.join(map(str, args))})")
                    add(f"{FAMILIES[fam]}_boundary", "boundary", fam, layer, kre, kim, om, op.descriptor,
                        f"boundary.{fam}.{layer}({', '.join(map(str, args))})")
            modp = getattr(P, fam)
            for layer, sp in (("single_layer", dp0), ("double_layer", p1)):
                for args, kre, kim, om in probes(fam):
                    log.clear()
                    plog.clear()
                    getattr(modp, layer)(sp, pts, *args, parameters=SENT)
                    same_params(plog[-1], f"potential.{fam}.{layer}({', '.join(map(str, args))})")
                    add(f"{FAMILIES[fam]}_potential", "potential", fam, layer, kre, kim, om, log[-1],
                        f"potential.{fam}.{layer}({', '.join(map(str, args))})")
        for layer, sp in (("single_layer", dp0), ("double_layer", p1)):
            for args, kre, kim, om in probes("helmholtz"):
                log.clear()
                plog.clear()
                getattr(F.helmholtz, layer)(sp, pts, *args, parameters=SENT)
                same_params(plog[-1], f"far_field.helmholtz.{layer}({args[0]})")
                add("helmholtz_far_field", "far_field", "helmholtz", layer, kre, kim, om, log[-1],
                    f"far_field.helmholtz.{layer}({args[0]})")
        for layer in ("electric_field", "magnetic_field"):
            for args, kre, kim, om in probes("maxwell"):
                op = getattr(B.maxwell, layer)(rwg, rwg, snc, *args, parameters=SENT)
                same_params(op.assembler.parameters, f"boundary.maxwell.{layer}({args[0]})")
                add("maxwell_boundary", "boundary", "maxwell", layer, kre, kim, om, op.descriptor,
                    f"boundary.maxwell.{layer}({args[0]})")
                log.clear()
                plog.clear()
                getattr(P.maxwell, layer)(rwg, pts, *args, parameters=SENT)
                same_params(plog[-1], f"potential.maxwell.{layer}({args[0]})")
                add("maxwell_potential", "potential", "maxwell", layer, kre, kim, om, log[-1],
                    f"potential.maxwell.{layer}({args[0]})")
                log.clear()
                plog.clear()
                getattr(F.maxwell, layer)(rwg, pts, *args, parameters=SENT)
                same_params(plog[-1], f"far_field.maxwell.{layer}({args[0]})")
                add("maxwell_far_field", "far_field", "maxwell", layer, kre, kim, om, log[-1],
                    f"far_field.maxwell.{layer}({args[0]})")
    except GenError:
        raise
    except Exception as e:  # noqa
        raise GenError(f"constructor tie: calling a constructor raised {type(e).__name__}: {e}")
    finally:
        asm.PotentialAssembler, po.PotentialOperator = saved
    return groups


def generate():
    groups = record()
    select = groups.pop("__select__")
    L = ["/- GENERATED by props/ctor_gen.py from descriptors recorded while calling the real constructors of /repo.",
         "   Do not edit. -/", "import BemppVerif.Model.Ctor", "", "namespace BemppVerif.Gen.CtorTable",
         "open BemppVerif.Model.Ctor", ""]
    thms = []
    nrows = 0
    for gname in sorted(groups):
        rows = groups[gname]
        nrows += len(rows)
        L.append(f"def rows_{gname} : List (Call × Desc) := [")
        for i, (call, desc, txt) in enumerate(rows):
            L.append(f"  -- {txt}")
            L.append(f"  ({call}, {desc})" + ("," if i + 1 < len(rows) else ""))
        L.append("]")
        L.append(f"/-- every descriptor recorded from the real `{gname}` constructors is the one the specification prescribes -/")
        L.append(f"theorem ctor_{gname} : ∀ r ∈ rows_{gname}, spec r.1 = r.2 := by decide +kernel")
        L.append("")
        thms.append(f"BemppVerif.Gen.CtorTable.ctor_{gname}")
        srows = select.get(gname, [])
        if srows:
            nrows += len(srows)
            L.append(f"def select_rows_{gname} : List (Desc × Mode × Selected) := [")
            for i, (term, txt) in enumerate(srows):
                L.append(f"  -- {txt}")
                L.append(f"  {term}" + ("," if i + 1 < len(srows) else ""))
            L.append("]")
            L.append(f"/-- `select_numba_kernels` hands the `{gname}` descriptors to the assembly / kernel functions the "
                     "specification names -/")
            L.append(f"theorem select_{gname} : ∀ r ∈ select_rows_{gname}, selectSpec r.1 r.2.1 = r.2.2 := by decide +kernel")
            L.append("")
            thms.append(f"BemppVerif.Gen.CtorTable.select_{gname}")
    L.append("end BemppVerif.Gen.CtorTable")
    ch = T.write_if_changed(os.path.join(LEAN, "BemppVerif/Gen/CtorTable.lean"), "\n".join(L) + "\n")
    return dict(ctor_rows=nrows, ctor_groups=len(groups), ctor_table_changed=bool(ch)), thms
