"""C07 oracle -- boundary operators between two disjoint grids equal Galerkin-tested potentials.

Checked on the REAL code (`bempp_cl.api`), for test space on grid A and trial space on a non-touching grid B:

  (scalar)   A_ij = sum_tau sum_p  w_p * ie_tau * phi_i(x_p) * Pot_j(x_p)                          rel. 1e-11
  (Maxwell M) M_ij = sum_tau sum_p w_p * ie_tau * t_i(x_p) . ( H_j(x_p) x n_tau )                   rel. 1e-11
  (Maxwell E) E_ij = the same sum with the electric potential E_j -- only up to quadrature error (the boundary form
              is integrated by parts on the test side): order ladder 2..6 with a calibrated shrink criterion.

`Pot_j`, `H_j`, `E_j` are the library's *potential operators* applied to the j-th trial basis function and evaluated
at the regular quadrature points of the test grid (`triangle_gauss.rule(order)`, element-major order, which is also
checked against `grid.map_to_point_cloud(order)`); `phi_i` / `t_i` (test basis, SNC for Maxwell) are evaluated by
closed formulas written here (only `local2global`, `local_multipliers`, `support` are read from the space), `n_tau`
is the unit normal of the test element.  Convention found in the source (`maxwell_mfield_regular_assembler` versus
`maxwell_mfield_potential`): the regular assembler integrates  G (ikr-1)/r^2 (x-y).(t^rwg_i(x) x f_j(y)) with the
RWG-Piola image t^rwg of the SNC test function t = n x t^rwg; since (x-y).(t^rwg x f) = -t^rwg.((x-y) x f) and
t^rwg = t x n this is  + t_i . (H_j x n)  with  H_j = grad_x G x f_j  -- "field x n" with the test normal.

Non-trivial case (Appendix C): the two grids have different sizes and are in general position (random rigid motion).
Tolerance 1e-11 relative to max|A|; measured worst deviations are a few 1e-16 (see stats).
"""
import math
import os
import sys
import time

import numpy as np

from vlib import meshgen as mg
from vlib.common import Ctx, Result

TOL = 1e-11
# E-field ladder, calibrated on the repaired tree (quick seeds 0..5, gaps 0.4..1.2 between the bounding spheres, 4..12
# element grids; see stats `efield_*`): the relative difference between the boundary matrix and the tested potential at
# orders 2,..,6 was e.g. 1.5e-2, 1.9e-2, 1.2e-3, 4.5e-4, 3.1e-5 -- order 3 can be worse than order 2 (up to 1.9x in
# the thorough tier), the overall decay from order 2 to 6 was 2.0e-3..2.3e-3 and the last rung <= 1.4e-4 (thorough,
# order 8: decay <= 3e-4, last <= 1.3e-5).  Required: last <=
# E_SHRINK * first, last <= E_LAST_ABS, no rung above E_BUMP * first.  (A wrong sign / factor gives a flat ladder ~1.)
E_SHRINK = 0.05
E_LAST_ABS = 2e-3
E_BUMP = 4.0


# ----------------------------------------------------------------------------------------------------------------
# independent evaluation of basis functions
# ----------------------------------------------------------------------------------------------------------------
class RefSpace:
    """Closed-form basis of a bempp space on flat triangles (shape functions written here, dof maps from the space)."""

    def __init__(self, space):
        g = space.grid
        self.ident = space.identifier
        self.V = np.array(g.vertices, float)
        self.E = np.array(g.elements, np.int64)
        self.l2g = np.array(space.local2global, np.int64)
        self.mult = np.array(space.local_multipliers, float)
        self.support = [int(e) for e in space.support_elements]
        self.nm = np.array(space.normal_multipliers, float)
        self.ndof = int(space.global_dof_count)
        P0, P1, P2 = (self.V[:, self.E[i]] for i in range(3))
        cr = np.cross((P1 - P0).T, (P2 - P0).T)
        self.ie = np.linalg.norm(cr, axis=1)
        self.normals = cr / self.ie[:, None]
        self.codim = 3 if self.ident in ("rwg0", "snc0") else 1
        self.nshape = 1 if self.ident == "p0_discontinuous" else 3

    def points(self, e, uv):
        p0, p1, p2 = (self.V[:, self.E[i, e]] for i in range(3))
        return p0[:, None] * (1 - uv[0] - uv[1]) + p1[:, None] * uv[0] + p2[:, None] * uv[1]

    def values(self, e, uv):
        """(codim, nshape, npts) values of the local basis functions (incl. local multipliers) on element e."""
        n = uv.shape[1]
        if self.ident == "p0_discontinuous":
            out = np.ones((1, 1, n))
        elif self.ident in ("p1_discontinuous", "p1_continuous"):
            out = np.array([1 - uv[0] - uv[1], uv[0], uv[1]])[None]
        elif self.ident in ("rwg0", "snc0"):
            p = [self.V[:, self.E[i, e]] for i in range(3)]
            x = self.points(e, uv)
            opp = (2, 1, 0)  # local function i lives on the edge opposite to vertex opp[i]
            elen = (np.linalg.norm(p[0] - p[1]), np.linalg.norm(p[2] - p[0]), np.linalg.norm(p[1] - p[2]))
            out = np.empty((3, 3, n))
            for i in range(3):
                out[:, i, :] = elen[i] / self.ie[e] * (x - p[opp[i]][:, None])
            if self.ident == "snc0":
                nrm = self.normals[e] * self.nm[e]
                out = np.cross(nrm[:, None, None], out, axis=0)
        else:
            raise ValueError(self.ident)
        return out * self.mult[e][None, :, None]


def test_against(ref, uv, w, U, tangential=False):
    """sum_e sum_p w_p ie_e phi_i(x_p) U[:, p-th point of e, :]   ->  (ndof_test, ncols)."""
    npt = len(w)
    out = np.zeros((ref.ndof, U.shape[2]), dtype=U.dtype)
    for e in ref.support:
        vals = ref.values(e, uv)  # (codim, nshape, npt)
        blk = U[:, npt * e:npt * (e + 1), :]
        if tangential:
            blk = np.cross(blk, ref.normals[e][:, None, None], axis=0)  # field x n
        loc = np.einsum("dip,p,dpn->in", vals, w * ref.ie[e], blk)
        for i in range(ref.nshape):
            out[ref.l2g[e, i]] += loc[i]
    return out


# ----------------------------------------------------------------------------------------------------------------
# inputs
# ----------------------------------------------------------------------------------------------------------------
def _bbox_gap(VA, VB):
    """Lower bound of the distance of two point sets' convex hulls via bounding spheres."""
    ca, cb = VA.mean(axis=1), VB.mean(axis=1)
    ra = np.linalg.norm(VA - ca[:, None], axis=0).max()
    rb = np.linalg.norm(VB - cb[:, None], axis=0).max()
    return np.linalg.norm(ca - cb) - ra - rb, ra, rb


def _mesh(name, rng):
    if name == "octahedron":
        V, E = mg.octahedron()
        return mg.perturb(V, 0.15, rng), E, None
    if name == "tetrahedron":
        V, E = mg.tetrahedron()
        return mg.perturb(V * 0.7, 0.1, rng), E, None
    if name == "cube1":
        V, E = mg.cube(1, flip_diag=rng.random() < 0.5)
        return mg.perturb(V * 1.3, 0.1, rng), E, None
    if name == "cube2":
        V, E = mg.cube(2)
        D = np.array([j // (E.shape[1] // 3) for j in range(E.shape[1])], dtype=np.uint32)
        return mg.perturb(V * 1.5, 0.08, rng), E, D
    if name == "screen":
        V, E = mg.screen(3, 2, wobble=0.1, rng=rng)
        return V * 1.4, E, None
    if name == "lshape":
        V, E = mg.lshape()
        return mg.perturb(V * 0.8, 0.05, rng), E, None
    raise ValueError(name)


def make_pair(api, nameA, nameB, rng):
    VA, EA, DA = _mesh(nameA, rng)
    VA, _, _ = mg.rigid(VA, rng)
    if nameB == "=copy":
        # the second grid is a TRANSLATED COPY of the first (multiple-scattering set-up): identical element arrays and
        # element shapes on two distinct Grid objects (seeded change C07-c: a structural Grid.__eq__ made such a pair
        # "the same grid" for the assemblers)
        VB, EB, DB = VA.copy(), EA.copy(), (None if DA is None else DA.copy())
    else:
        VB, EB, DB = _mesh(nameB, rng)
        VB, _, _ = mg.rigid(VB, rng)
    VA = VA - VA.mean(axis=1)[:, None]
    VB = VB - VB.mean(axis=1)[:, None]
    _, ra, rb = _bbox_gap(VA, VB)
    d = np.array([rng.gauss(0, 1) for _ in range(3)])
    d /= np.linalg.norm(d)
    gap = rng.uniform(0.4, 1.2)
    VB = VB + ((ra + rb + gap) * d)[:, None]
    gA = api.Grid(VA, EA, DA)
    gB = api.Grid(VB, EB, DB)
    return gA, gB, dict(A=nameA, B=nameB, nA=int(EA.shape[1]), nB=int(EB.shape[1]), gap=round(gap, 3))


SCALAR_KINDS = {"p0": [("DP", 0)], "p1": [("DP", 1), ("P", 1)]}


def _rand_k(rng, complex_):
    re = rng.uniform(0.5, 3.0)
    return complex(re, rng.uniform(0.1, 1.0)) if complex_ else re


def scalar_families(api):
    B, P = api.operators.boundary, api.operators.potential
    return {
        "laplace-sl": (B.laplace.single_layer, P.laplace.single_layer, "none"),
        "laplace-dl": (B.laplace.double_layer, P.laplace.double_layer, "none"),
        "helmholtz-sl": (B.helmholtz.single_layer, P.helmholtz.single_layer, "k"),
        "helmholtz-dl": (B.helmholtz.double_layer, P.helmholtz.double_layer, "k"),
        "modhelmholtz-sl": (B.modified_helmholtz.single_layer, P.modified_helmholtz.single_layer, "omega"),
        "modhelmholtz-dl": (B.modified_helmholtz.double_layer, P.modified_helmholtz.double_layer, "omega"),
    }


def potential_columns(api, pot_ctor, trial, pts, args, params):
    """(kdim, npoints, ndof) array: the potential of every trial basis function at pts (3 x npoints)."""
    pot = pot_ctor(trial, pts, *args, parameters=params)
    n = trial.global_dof_count
    out = None
    for j in range(n):
        c = np.zeros(n)
        c[j] = 1.0
        v = np.asarray(pot.evaluate(api.GridFunction(trial, coefficients=c)))
        if out is None:
            out = np.zeros((v.shape[0], v.shape[1], n), dtype=v.dtype)
        out[:, :, j] = v
    return out


def quad_points(api, ref, grid, order, res, info):
    from bempp_cl.api.integration.triangle_gauss import rule

    uv, w = rule(order)
    uv = np.asarray(uv, float)
    w = np.asarray(w, float)
    ne = ref.E.shape[1]
    own = np.hstack([ref.points(e, uv) for e in range(ne)])  # element-major
    lib = np.asarray(grid.map_to_point_cloud(order)).T
    dev = float(np.abs(own - lib).max()) if own.shape == lib.shape else float("inf")
    res.stats["pointcloud_max_dev"] = max(res.stats.get("pointcloud_max_dev", 0.0), dev)
    if not dev <= 1e-13:
        res.counterexample("map-to-point-cloud-order", "grid.map_to_point_cloud(order) is not the element-major list "
                           "of rule(order) points mapped by local2global", order=order, deviation=dev, **info)
    return uv, w, own


# ----------------------------------------------------------------------------------------------------------------
# the oracle
# ----------------------------------------------------------------------------------------------------------------
def oracle(ctx, deep=False):
    import numba
    import bempp_cl.api as api
    from bempp_cl.api.utils.parameters import DefaultParameters

    res = Result()
    rng = ctx.rng
    t_start, c_start = time.time(), time.process_time()
    old_threads = numba.get_num_threads()
    # The matrices here are tiny; OpenMP fork/join with all cores costs seconds per call on a loaded machine.
    numba.set_num_threads(max(1, min(old_threads, int(os.environ.get("VERIF_ORACLE_THREADS", "1")))))
    try:
        _run(ctx, api, DefaultParameters, res, rng, deep)
    finally:
        numba.set_num_threads(old_threads)
    res.stats["oracle_wall_s"] = round(time.time() - t_start, 1)
    res.stats["oracle_cpu_s"] = round(time.process_time() - c_start, 1)
    res.stats["tolerance"] = TOL
    return res


def _run(ctx, api, DefaultParameters, res, rng, deep):
    thorough = ctx.thorough or deep
    orders = [2, 3, 4, 5, 6]
    fam = scalar_families(api)
    names = sorted(fam)
    if thorough:
        pairs = [("octahedron", "cube1"), ("tetrahedron", "cube2"), ("screen", "lshape")]
        chosen = names
        shape_pairs = [("p0", "p0"), ("p0", "p1"), ("p1", "p0"), ("p1", "p1")]
        per_family_pairs = {n: shape_pairs for n in names}
    else:
        pairs = [rng.choice([("octahedron", "cube1"), ("cube1", "octahedron"), ("tetrahedron", "cube1")])]
        # always one single-layer and one double-layer family, at least one p1 side (a p0/p0 pair cannot see an
        # exchange of the two quadrature indices)
        chosen = [rng.choice([n for n in names if n.endswith("-sl")]), rng.choice([n for n in names if n.endswith("-dl")])]
        sp = [("p0", "p1"), ("p1", "p0"), ("p1", "p1")]
        per_family_pairs = {n: [rng.choice(sp)] for n in chosen}
    # every run also takes one mesh together with a translated copy of itself (same connectivity, two Grid objects)
    pairs = pairs + [(pairs[0][0], "=copy")]
    maxwell_parts = ["M", "E"] if thorough else [rng.choice(["M", "M", "E"])]
    if not thorough and "M" not in maxwell_parts and rng.random() < 0.5:
        maxwell_parts.append("M")
    focus = [f for f in os.environ.get("VERIF_ORACLE_FOCUS", "").split(",") if f]
    if focus and not thorough:  # for mutation experiments: force the families of the quick tier
        chosen = [f for f in focus if f in fam]
        per_family_pairs = {n: [rng.choice(sp)] for n in chosen}
        maxwell_parts = [f.split("-")[1] for f in focus if f in ("maxwell-M", "maxwell-E")]
    worst = {}
    ladder_rows = []
    seen = {}

    def cex(key, what, **detail):  # keep at most three counterexamples per key, count the rest
        seen[key] = seen.get(key, 0) + 1
        if seen[key] <= 3:
            res.counterexample(key, what, **detail)

    for pi, (nA, nB) in enumerate(pairs):
        gA, gB, info = make_pair(api, nA, nB, rng)
        ctx.log(f"pair {info}")
        nontrivial = info["nA"] != info["nB"] or nB == "=copy"
        orders_here = orders if nB != "=copy" else [3, 4]
        spaces_A, spaces_B = {}, {}

        def space(grid, cache, kind, deg, **kw):
            key = (kind, deg, repr(sorted(kw.items())))
            if key not in cache:
                cache[key] = api.function_space(grid, kind, deg, scatter=False, **kw)
            return cache[key]

        # ------------------------------------------------------------------ scalar families
        for name in chosen:
            bctor, pctor, ptype = fam[name]
            for (st, sr) in per_family_pairs[name]:
                t0 = time.time()
                kind_pairs = [(a, b) for a in SCALAR_KINDS[st] for b in SCALAR_KINDS[sr]]
                if not thorough:
                    kind_pairs = [rng.choice(kind_pairs)] if pi else kind_pairs
                for (tk, rk) in kind_pairs:
                    test = space(gA, spaces_A, *tk)
                    variants = [dict()]
                    if thorough and gB.domain_indices is not None and len(set(gB.domain_indices)) > 1 and rk != ("DP", 0):
                        variants.append(dict(segments=[1], include_boundary_dofs=True, truncate_at_segment_edge=True))
                    for kw in variants:
                        trial = space(gB, spaces_B, *rk, **kw)
                        rt, rr = RefSpace(test), RefSpace(trial)
                        if ptype == "none":
                            arglist = [("", ())]
                        elif ptype == "omega":
                            arglist = [("w", (rng.uniform(0.3, 2.5),))]
                        else:
                            arglist = [("real-k", (_rand_k(rng, False),)), ("complex-k", (_rand_k(rng, True),))]
                            if thorough:
                                arglist.append(("imag-k", (complex(0.0, rng.uniform(0.3, 2.0)),)))
                        for tag, args in arglist:
                            for order in orders_here:
                                p = DefaultParameters()
                                p.quadrature.regular = order
                                cinfo = dict(info, family=name, test=f"{tk[0]}{tk[1]}", trial=f"{rk[0]}{rk[1]}",
                                             segment=bool(kw), order=order, args=[str(a) for a in args])
                                uv, w, pts = quad_points(api, rt, gA, order, res, cinfo)
                                A = np.asarray(bctor(trial, test, test, *args, parameters=p).weak_form().to_dense())
                                U = potential_columns(api, pctor, trial, pts, args, p)
                                T = test_against(rt, uv, w, U)
                                scale = float(np.abs(A).max())
                                err = float(np.abs(A - T).max()) / scale if scale > 0 else float("inf")
                                k = f"{name}{'-' + tag if tag else ''}"
                                worst[k] = max(worst.get(k, 0.0), err)
                                res.case((name, tag, tk, rk, bool(kw), order, info["A"], info["B"]),
                                         nontrivial=nontrivial,
                                         sample=dict(cinfo, rel_err=err, max_abs=scale) if order == 4 else None)
                                if not err <= TOL:
                                    cex(
                                        f"{name}-vs-tested-potential-{tk[0]}{tk[1]}-{rk[0]}{rk[1]}".lower(),
                                        f"{name} boundary matrix between disjoint grids differs from the Galerkin-tested "
                                        f"potential: relative deviation {err:.3e} (tolerance {TOL:g})",
                                        rel_err=err, max_abs_entry=scale, **cinfo,
                                        vertices_A=gA.vertices.tolist(), elements_A=gA.elements.tolist(),
                                        vertices_B=gB.vertices.tolist(), elements_B=gB.elements.tolist())
                ctx.log(f"  {name} {st}/{sr}: {time.time() - t0:.1f}s worst {max(worst.values()):.2e}")

        # ------------------------------------------------------------------ Maxwell
        if (not thorough and pi > 0) or (thorough and pi > 1 and not deep):
            continue
        t0 = time.time()
        snc = space(gA, spaces_A, "SNC", 0)
        rwgA = space(gA, spaces_A, "RWG", 0)
        rwgB_whole = space(gB, spaces_B, "RWG", 0)
        rt = RefSpace(snc)
        ks = [("real-k", _rand_k(rng, False)), ("complex-k", _rand_k(rng, True))]
        trial_variants = [(rwgB_whole, "")]
        labelsB = [int(x) for x in gB.domain_indices]
        if thorough and len(set(labelsB)) > 1:
            # a trial space on the segment of the LAST element: its support is not a leading block of the element list
            # (seed C07-b indexed the coefficient vector of the magnetic potential by the position in the support list)
            trial_variants.append((space(gB, spaces_B, "RWG", 0, segments=[labelsB[-1]], include_boundary_dofs=True), "-segment"))
        for part, (rwgB, vtag) in [(p_, v_) for p_ in maxwell_parts for v_ in trial_variants]:
            bctor = api.operators.boundary.maxwell.magnetic_field if part == "M" else api.operators.boundary.maxwell.electric_field
            pctor = api.operators.potential.maxwell.magnetic_field if part == "M" else api.operators.potential.maxwell.electric_field
            for tag, k in ks:
                tag = tag + vtag
                rungs = []
                for order in orders + ([8] if part == "E" and thorough else []):
                    p = DefaultParameters()
                    p.quadrature.regular = order
                    cinfo = dict(info, family=f"maxwell-{part}", test="SNC0", trial="RWG0", order=order, k=str(k))
                    uv, w, pts = quad_points(api, rt, gA, order, res, cinfo)
                    A = np.asarray(bctor(rwgB, rwgA, snc, k, parameters=p).weak_form().to_dense())
                    U = potential_columns(api, pctor, rwgB, pts, (k,), p)
                    T = test_against(rt, uv, w, U, tangential=True)
                    scale = float(np.abs(A).max())
                    err = float(np.abs(A - T).max()) / scale
                    if part == "M":
                        kk = f"maxwell-M-{tag}"
                        worst[kk] = max(worst.get(kk, 0.0), err)
                        res.case(("maxwell-M", tag, order, info["A"], info["B"]), nontrivial=nontrivial,
                                 sample=dict(cinfo, rel_err=err, max_abs=scale) if order == 3 else None)
                        if not err <= TOL:
                            cex(
                                "maxwell-mfield-vs-tested-potential-snc0-rwg0",
                                f"Maxwell magnetic field boundary matrix differs from the tested tangential trace (H x n) "
                                f"of the magnetic potential: relative deviation {err:.3e} (tolerance {TOL:g})",
                                rel_err=err, max_abs_entry=scale, **cinfo,
                                vertices_A=gA.vertices.tolist(), elements_A=gA.elements.tolist(),
                                vertices_B=gB.vertices.tolist(), elements_B=gB.elements.tolist())
                    else:
                        rungs.append((order, err))
                if part == "E":
                    errs = [e for _, e in rungs]
                    first, last = errs[0], errs[-1]
                    ok = last <= E_SHRINK * first and last <= E_LAST_ABS and max(errs) <= E_BUMP * first
                    ladder_rows.append(dict(pair=f"{info['A']}/{info['B']}", gap=info["gap"], k=str(k),
                                            rungs=[(o, float(f"{e:.3e}")) for o, e in rungs]))
                    res.case(("maxwell-E", tag, info["A"], info["B"]), nontrivial=nontrivial,
                             sample=dict(info, family="maxwell-E", k=str(k), ladder=rungs))
                    res.stats["efield_worst_shrink"] = max(res.stats.get("efield_worst_shrink", 0.0), last / first)
                    res.stats["efield_worst_last"] = max(res.stats.get("efield_worst_last", 0.0), last)
                    if not ok:
                        cex(
                            "maxwell-efield-vs-tested-potential-ladder-snc0-rwg0",
                            f"Maxwell electric field boundary matrix does not approach the tested electric potential as the "
                            f"quadrature order grows: relative differences {[(o, float(f'{e:.2e}')) for o, e in rungs]} "
                            f"(need last <= {E_SHRINK}*first, last <= {E_LAST_ABS}, no rung above {E_BUMP}*first)",
                            ladder=rungs, k=str(k), **info,
                            vertices_A=gA.vertices.tolist(), elements_A=gA.elements.tolist(),
                            vertices_B=gB.vertices.tolist(), elements_B=gB.elements.tolist())
        ctx.log(f"  maxwell {maxwell_parts}: {time.time() - t0:.1f}s")

    res.stats["counterexamples_seen"] = dict(seen)
    res.stats["worst_rel_err"] = {k: float(f"{v:.3e}") for k, v in sorted(worst.items())}
    res.stats["worst_rel_err_overall"] = max(worst.values()) if worst else None
    res.stats["margin_tol_over_worst"] = (TOL / max(worst.values())) if worst and max(worst.values()) > 0 else None
    if ladder_rows:
        res.stats["efield_ladders"] = ladder_rows[:6]
    res.stats["families_run"] = chosen + [f"maxwell-{p}" for p in maxwell_parts]


if __name__ == "__main__":
    tier = sys.argv[1] if len(sys.argv) > 1 else "quick"
    seed = int(sys.argv[2]) if len(sys.argv) > 2 else int(os.environ.get("VERIF_SEED", "0"))
    deep = len(sys.argv) > 3 and sys.argv[3] == "deep"
    ctx = Ctx("C07", tier, seed)
    r = oracle(ctx, deep=deep)
    print("cases", r.evaluations, "nontrivial", len(r.nontrivial))
    print("stats", {k: v for k, v in r.stats.items()})
    print("counterexamples", len(r.counterexamples))
    for c in r.counterexamples[:8]:
        print("  CEX", c["key"], "|", c["what"], "|", {k: v for k, v in c.items() if k in ("order", "test", "trial", "A", "B", "args", "k")})
    print(f"wall {time.time() - ctx.t0:.1f}s")
