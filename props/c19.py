"""C19 — grid and grid-function export / import round trip.

Model: lean/BemppVerif/Model/IOMap.lean (what `export` hands to meshio, what `import_grid` does with what a reader
returns; meshio's file writers/readers are the identity on that record).  Correspondence: the record the real
`export` passes to meshio is intercepted (meshio's write entry points are replaced from here, nothing is written) and
compared with the model; `import_grid` is run on synthetic reader results (meshio.read replaced).  Oracle: real files
in a temporary directory.
"""
import contextlib
import itertools
import json
import math
import os
import shutil
import tempfile
import traceback
from fractions import Fraction as F

from vlib.common import Result, run_driver, build_driver

PID = "C19"
LEAN_MODULES = ["BemppVerif.Props.C19"]
N = "BemppVerif.C19."
THEOREMS = [N + t for t in [
    "roundtrip_msh_partial", "zero_domain_gives_ones", "zero_domain_counterexample", "roundtrip_other_formats",
    "export_node_data_is_evaluation", "export_element_data_is_evaluation", "complex_element_data_exported",
    "transform_defs", "default_data_type", "import_domain_choice", "import_keeps_triangles",
]]
PARTIAL = {
    N + "roundtrip_msh_partial": "needs 'some domain index is non-zero': for an all-zero index array the unchanged code "
    "returns all ones (zero_domain_gives_ones for every grid, zero_domain_counterexample on a witness; finding "
    "msh-zero-domain-indices).  meshio's gmsh22 writer/reader is the identity by assumption (oracle: real files).",
}
TRUSTED = [
    "meshio 5.3.5 file writers and readers (gmsh22 ASCII/binary, vtu, ply, ...) are modelled as the identity on the "
    "record (points, cell blocks, point data, cell data); exercised by the oracle with real files, never verified",
    "meshio.Mesh.__init__'s consistency check and the accessors cells_dict / cell_data_dict are mirrored by "
    "MeshRec.accepted / trianglesOf / cellDataOf and compared with the real meshio objects in the correspondence",
    "hand model lean/BemppVerif/Model/IOMap.lean of export / import_grid / _transform_array (2-D input), tied by "
    "differential comparison through the native driver; the iteration order of Python's set(domain_indices) is an "
    "uninterpreted parameter (gmsh:geometrical is compared up to the induced renumbering)",
    "evaluate_on_vertices / evaluate_on_element_centers are inputs of the model (their correctness is C09/C13)",
    "sqrt and log are uninterpreted in the model (abs, log_abs compared numerically at 1e-13)",
]
ASSUMPTIONS = [
    "grids are uint32/float64 arrays as produced by Grid.__init__ (domain indices and vertex numbers < 2^32), points are 3-D",
    "oracle tolerances: integers and binary-format floats exact; abs/abs_squared/log_abs against an independent "
    "reference 1e-13 relative; meshio's ASCII vtu writer prints 11 significant digits (1e-10 relative)",
    "_transform_array's 1-D branch is unreachable from export (evaluate_* always return 2-D arrays) and is not modelled",
]
RULE = ("a grid case is non-trivial when its domain indices contain 0, are not all equal and are not a contiguous range; "
        "a grid-function case is non-trivial when the coefficients are complex and the space is vector valued (RWG/SNC); "
        "an import case is non-trivial when the reader result has more than one cell block or exercises the "
        "physical->geometrical fallback; distinct by (kind, format, binary, labels, space, dtype, data_type, transformation)")

TRANSFORMS = ["none", "real", "imag", "abs", "abs_squared", "log_abs", "unknown",
              "custom:conj", "custom:twice", "custom:first", "custom:timesi"]
INEXACT = {"abs", "abs_squared", "log_abs"}
LABEL_SETS = [
    (0, 3, 7, 12), (0, 5, 2**31 + 5, 2**32 - 1), (0,), (4,), (1, 2, 3), (0, 1), (9, 2), (0, 1000000, 17),
]


def _node_identifier():
    """The string `export` compares `grid_function.space.identifier` with to default to node data (read from the
    source text, so that the harness follows a repair of that comparison)."""
    import ast
    from vlib.common import REPO, GenError
    path = os.path.join(REPO, "bempp_cl", "api", "grid", "io.py")
    try:
        with open(path) as f:
            tree = ast.parse(f.read())
    except (OSError, SyntaxError) as e:
        raise GenError(f"cannot parse {path}: {e}")
    for fn in ast.walk(tree):
        if isinstance(fn, ast.FunctionDef) and fn.name == "export":
            for n in ast.walk(fn):
                if isinstance(n, ast.Compare) and isinstance(n.left, ast.Attribute) and n.left.attr == "identifier" \
                        and len(n.comparators) == 1 and isinstance(n.comparators[0], ast.Constant) \
                        and isinstance(n.comparators[0].value, str) and isinstance(n.ops[0], ast.Eq):
                    return n.comparators[0].value
    raise GenError("export(): comparison of space.identifier with a string constant not found")


def generate(ctx):
    return {"node_default_identifier": _node_identifier()}


class _SpaceStub:
    def __init__(self, space, identifier):
        self.identifier = identifier
        self.grid = space.grid


class _FunctionStub:
    """A grid function whose space reports a chosen identifier (export only reads space.identifier, space.grid and
    the two evaluate_on_* methods); used to exercise the node default, which no space of the library triggers."""

    def __init__(self, f, identifier):
        self.space = _SpaceStub(f.space, identifier)
        self.evaluate_on_vertices = f.evaluate_on_vertices
        self.evaluate_on_element_centers = f.evaluate_on_element_centers


# ------------------------------------------------------------------------------------------------
# helpers


def _rat(x):
    fr = F(float(x))
    return f"{fr.numerator}/{fr.denominator}" if fr.denominator != 1 else str(fr.numerator)


def _py_transform(name):
    import numpy as np
    return {
        "none": None, "real": "real", "imag": "imag", "abs": "abs", "abs_squared": "abs_squared", "log_abs": "log_abs",
        "unknown": "phase",
        "custom:conj": (lambda a: np.conj(a)),
        "custom:twice": (lambda a: 2 * a),
        "custom:first": (lambda a: a[:1]),
        "custom:timesi": (lambda a: a * 1j),
    }[name]


def _nontrivial_labels(D):
    s = sorted(set(int(d) for d in D))
    return 0 in s and len(s) >= 2 and s != list(range(s[0], s[0] + len(s)))


def _grids(ctx, count):
    """Small valid grids (V 3xn float64 dyadic, E 3xm uint32, D uint32) with assorted domain labels."""
    import numpy as np
    from vlib import meshgen as mg
    rng = ctx.rng
    base = [
        ("two-triangles", np.array([[0, 0, 0], [1, 0, 0], [0, 1, 0], [1, 1, 0]], float).T,
         np.array([[0, 1, 2], [1, 3, 2]], np.uint32).T),
        ("one-triangle", np.array([[0, 0, 0.25], [1, 0, 0], [0, 1, 0.5]], float).T, np.array([[0, 1, 2]], np.uint32).T),
        ("tetrahedron",) + tuple(mg.tetrahedron()),
        ("octahedron",) + tuple(mg.octahedron()),
        ("screen",) + tuple(mg.screen(2, 2, 0.125, rng)),
        ("cube",) + tuple(mg.cube(1)),
        ("lshape",) + tuple(mg.lshape()),
    ]
    out = []
    for i in range(count):
        name, V, E = base[i % len(base)] if i < len(base) else base[rng.randrange(len(base))]
        V = mg.perturb(np.array(V, float), 0.125, rng, dyadic_bits=10)
        E = np.array(E, np.uint32)
        labels = LABEL_SETS[i % len(LABEL_SETS)] if i < len(LABEL_SETS) else rng.choice(LABEL_SETS)
        D = mg.random_domains(E.shape[1], rng, labels=labels).astype(np.uint32)
        if len(labels) > 1 and E.shape[1] >= len(labels):  # make sure every label occurs
            for k, lab in enumerate(rng.sample(range(E.shape[1]), len(labels))):
                D[lab] = labels[k]
        if i >= 2:
            V, E, D = mg.relabel(V, E, rng, D)
        out.append((name, V, E, D, labels))
    return out


def _grid_tokens(V, E, D):
    t = [str(V.shape[1]), str(E.shape[1])]
    for j in range(V.shape[1]):
        t += [_rat(V[i, j]) for i in range(3)]
    for j in range(E.shape[1]):
        t += [str(int(E[i, j])) for i in range(3)]
    t += [str(int(d)) for d in D]
    return t


def _values_tokens(vals):
    """comp x n array -> n*comp pairs, column by column"""
    import numpy as np
    t = []
    for j in range(vals.shape[1]):
        for c in range(vals.shape[0]):
            z = vals[c, j]
            t += [_rat(np.real(z)), _rat(np.imag(z))]
    return t


@contextlib.contextmanager
def _intercept():
    """Replace meshio's write entry points by a recorder (nothing is written)."""
    import meshio
    from meshio import _helpers
    calls = []

    def rec(filename, mesh, file_format=None, **kwargs):
        calls.append(dict(filename=filename, mesh=mesh, file_format=file_format, kwargs=kwargs))

    saved = (_helpers.write, meshio.write)
    _helpers.write = rec
    meshio.write = rec
    try:
        yield calls
    finally:
        _helpers.write, meshio.write = saved


def _classify(exc):
    tb = traceback.extract_tb(exc.__traceback__)
    in_meshio = bool(tb) and (os.sep + "meshio" + os.sep) in tb[-1].filename
    if isinstance(exc, ValueError):
        return "mesh-rejected" if in_meshio else "value-error"
    if isinstance(exc, KeyError):
        return "key-error"
    return "other-error"


def _fr(x):
    x = float(x)
    return F(x) if math.isfinite(x) else x


def _block(a):
    import numpy as np
    a = np.asarray(a)
    if a.dtype.kind in "iu":
        if a.ndim == 1:
            return dict(kind="ints", v=[int(x) for x in a], dtype=str(a.dtype))
        return dict(kind=f"ints{a.ndim}d", v=a.tolist(), dtype=str(a.dtype))
    if a.dtype.kind == "f":
        if a.ndim == 1:
            return dict(kind="vec", v=[_fr(x) for x in a], dtype=str(a.dtype))
        if a.ndim == 2:
            return dict(kind="mat", v=[[_fr(x) for x in r] for r in a], dtype=str(a.dtype))
    return dict(kind=f"{a.dtype.kind}{a.ndim}d", v=None, dtype=str(a.dtype))


def _impl_record(call):
    import numpy as np
    m = call["mesh"]
    pts = np.asarray(m.points)
    rec = dict(status="ok", file_format=call["file_format"], binary=call["kwargs"].get("binary"),
               extra_kwargs=sorted(k for k in call["kwargs"] if k != "binary"),
               points=[[F(float(x)) for x in r] for r in pts], points_dtype=str(pts.dtype),
               cells=[dict(type=c.type, data=np.asarray(c.data).tolist(), dtype=str(np.asarray(c.data).dtype))
                      for c in m.cells],
               point_data=sorted(((k, _block(v)) for k, v in m.point_data.items()), key=lambda p: p[0]),
               cell_data=sorted(((k, [_block(b) for b in list(v)]) for k, v in m.cell_data.items()),
                                key=lambda p: p[0]))
    return rec


def _val_close(model_tok, x, tol):
    """model token ("p/q", "sqrt:p/q", "logsqrt:p/q") against an implementation float (as Fraction)."""
    if model_tok.startswith("sqrt:"):
        ref = math.sqrt(F(model_tok[5:]))
    elif model_tok.startswith("logsqrt:"):
        q = F(model_tok[8:])
        ref = 0.5 * math.log(q) if q > 0 else -math.inf
    else:
        q = F(model_tok)
        if tol == 0:
            return q == x
        ref = float(q)
    xf = float(x)
    if ref == xf:
        return True
    if math.isinf(ref) or math.isinf(xf):
        return False
    return abs(ref - xf) <= max(tol, 1e-13) * max(1.0, abs(ref))


def _canon_geom(v):
    """relabel by first occurrence; returns (canonical list, set of values)"""
    seen = {}
    return [seen.setdefault(x, len(seen) + 1) for x in v], set(v)


def _cmp_block(mb, ib, tol, name):
    if mb["kind"] != ib["kind"]:
        return f"{name}: array kind {ib['kind']} (dtype {ib['dtype']}), model {mb['kind']}"
    if mb["kind"] == "ints":
        if ib["dtype"] != "int32":
            return f"{name}: dtype {ib['dtype']}, expected int32"
        if name == "gmsh:geometrical":
            cm, sm = _canon_geom(mb["v"])
            ci, si = _canon_geom(ib["v"])
            if cm != ci or sm != si:
                return f"{name}: {ib['v'][:8]} is not a renumbering 1..k of the model's {mb['v'][:8]}"
            return None
        return None if mb["v"] == ib["v"] else f"{name}: {ib['v'][:8]} vs model {mb['v'][:8]}"
    if ib["dtype"] != "float64":
        return f"{name}: dtype {ib['dtype']}, expected float64"
    if mb["kind"] == "vec":
        if len(mb["v"]) != len(ib["v"]) or not all(_val_close(a, b, tol) for a, b in zip(mb["v"], ib["v"])):
            return f"{name}: values differ"
        return None
    if len(mb["v"]) != len(ib["v"]):
        return f"{name}: {len(ib['v'])} rows, model {len(mb['v'])}"
    for r, (ra, rb) in enumerate(zip(mb["v"], ib["v"])):
        if len(ra) != len(rb) or not all(_val_close(a, b, tol) for a, b in zip(ra, rb)):
            return f"{name}: row {r} differs: impl {[float(x) for x in rb][:4]} model {ra[:4]}"
    return None


def _cmp_export(model, impl, tol):
    """None if the model's answer and the implementation's record agree, else a description."""
    if model["status"] != impl["status"]:
        return f"status: impl {impl.get('error', 'ok')}, model {model.get('error', 'ok')}"
    if model["status"] == "err":
        return None if model["error"] == impl["error"] else f"error: impl {impl['error']}, model {model['error']}"
    if model["file_format"] != impl["file_format"]:
        return f"file_format: impl {impl['file_format']}, model {model['file_format']}"
    if model["binary"] != impl["binary"] or impl["extra_kwargs"]:
        return f"writer kwargs: impl binary={impl['binary']} extra={impl['extra_kwargs']}, model binary={model['binary']}"
    if impl["points_dtype"] != "float64":
        return f"points dtype {impl['points_dtype']}"
    if [[F(x) for x in r] for r in model["points"]] != impl["points"]:
        return "points differ"
    if len(model["cells"]) != len(impl["cells"]):
        return f"{len(impl['cells'])} cell blocks, model {len(model['cells'])}"
    for cm, ci in zip(model["cells"], impl["cells"]):
        if cm["type"] != ci["type"] or cm["data"] != ci["data"] or ci["dtype"] != "int32":
            return f"cell block differs: impl {ci['type']} {ci['dtype']} {ci['data'][:3]}, model {cm['type']} {cm['data'][:3]}"
    mpd = sorted(((p["name"], p["block"]) for p in model["point_data"]), key=lambda p: p[0])
    if [k for k, _ in mpd] != [k for k, _ in impl["point_data"]]:
        return f"point_data names: impl {[k for k, _ in impl['point_data']]}, model {[k for k, _ in mpd]}"
    for (k, mb), (_, ib) in zip(mpd, impl["point_data"]):
        d = _cmp_block(mb, ib, tol, "point_data " + k)
        if d:
            return d
    mcd = sorted(((p["name"], p["blocks"]) for p in model["cell_data"]), key=lambda p: p[0])
    if [k for k, _ in mcd] != [k for k, _ in impl["cell_data"]]:
        return f"cell_data names: impl {[k for k, _ in impl['cell_data']]}, model {[k for k, _ in mcd]}"
    for (k, mbs), (_, ibs) in zip(mcd, impl["cell_data"]):
        if len(mbs) != len(ibs):
            return f"cell_data {k}: {len(ibs)} blocks, model {len(mbs)}"
        for mb, ib in zip(mbs, ibs):
            d = _cmp_block(mb, ib, tol, k if k.startswith("gmsh:") else "cell_data " + k)
            if d:
                return d
    return None


def _make_function(api, grid, kind, cplx, rng):
    import numpy as np
    sp = api.function_space(grid, *kind)
    n = sp.global_dof_count
    c = np.array([rng.randrange(-64, 65) / 16 for _ in range(n)], float)
    if cplx:
        c = c + 1j * np.array([rng.randrange(-64, 65) / 16 for _ in range(n)], float)
    return api.GridFunction(sp, coefficients=c)


SPACES = [("P", 1), ("DP", 0), ("RWG", 0), ("DP", 1), ("SNC", 0)]
VECTOR = {("RWG", 0), ("SNC", 0)}


# ------------------------------------------------------------------------------------------------
# correspondence


def correspondence(ctx):
    import numpy as np
    import meshio
    import bempp_cl.api as api
    from bempp_cl.api.grid import io as bio
    res = Result()
    build_driver()
    rng = ctx.rng
    reqs, handlers = [], []

    def add(line, h):
        reqs.append(line)
        handlers.append(h)

    def run_export(**kw):
        with _intercept() as calls:
            try:
                api.export(**kw)
            except Exception as e:  # noqa
                return dict(status="err", error=_classify(e), message=f"{type(e).__name__}: {e}"[:160]), None
        if len(calls) != 1:
            return dict(status="err", error=f"{len(calls)}-write-calls"), None
        return _impl_record(calls[0]), calls[0]

    sampled_kinds = set()

    def export_case(desc, line, impl, tol, nontrivial):
        def h(ans, desc=desc, impl=impl, tol=tol):
            try:
                model = json.loads(ans)
            except ValueError:
                res.disagree("export: driver rejected the request", case=desc, answer=ans[:80])
                return
            d = _cmp_export(model, impl, tol)
            if d:
                res.disagree("export record: " + d, case=desc, impl_error=impl.get("message"))
        add(line, h)
        skey = (desc.get("src"), nontrivial)
        res.case(("export",) + tuple(desc.values()), nontrivial=nontrivial,
                 sample=None if skey in sampled_kinds else dict(kind="export", **desc, impl_status=impl.get("error", "ok")))
        sampled_kinds.add(skey)

    grids = _grids(ctx, ctx.pick(8, 24))
    exts = [".msh", ".vtu", ".ply", ".obj"]
    node_ident = _node_identifier()
    res.stats["node_default_identifier"] = node_ident
    # 1. grids alone, every extension, both binary flags; 'both' and 'neither'
    for gi, (name, V, E, D, labels) in enumerate(grids):
        grid = api.Grid(V, E, D)
        gt = _grid_tokens(grid.vertices, grid.elements, grid.domain_indices)
        for ext in exts:
            for b in (True, False):
                impl, _ = run_export(filename="x" + ext, grid=grid, write_binary=b)
                export_case(dict(mesh=name, labels=list(labels), ext=ext, binary=b, src="grid"),
                            " ".join(["ioexport", ext, str(int(b)), "grid", "unset", "none"] + gt), impl, 0,
                            _nontrivial_labels(D))
        if gi == 0:
            impl, _ = run_export(filename="x.msh")
            export_case(dict(mesh=name, src="neither"), "ioexport .msh 1 neither unset none", impl, 0, False)
    # 2. grid functions
    full = ctx.pick(1, 3)        # number of grids with the full option product
    sampled = ctx.pick(40, 400)  # random option combinations on the other grids
    dts = [None, "node", "element", "vertex"]
    dtname = {None: "unset", "node": "node", "element": "element", "vertex": "other"}
    spaces = SPACES[:ctx.pick(3, 5)]
    combos = list(itertools.product(spaces, (False, True), dts, TRANSFORMS))
    plan = []
    fgrids = [g for g in grids if g[2].shape[1] <= 12]
    for gi, g in enumerate(fgrids[:full + 3]):
        if gi < full:
            plan += [(g, c, rng.choice(exts[:3]), rng.random() < 0.5) for c in combos]
        else:
            plan += [(g, rng.choice(combos), rng.choice(exts[:3]), rng.random() < 0.5)
                     for _ in range(sampled // 3)]
    cache = {}
    for (name, V, E, D, labels), (kind, cplx, dt, tr), ext, b in plan:
        key = (name, tuple(D.tolist()), kind, cplx)
        if key not in cache:
            grid = cache.get((name, tuple(D.tolist())))
            if grid is None:
                grid = cache[(name, tuple(D.tolist()))] = api.Grid(V, E, D)
            f = _make_function(api, grid, kind, cplx, rng)
            cache[key] = (grid, f, f.evaluate_on_vertices(), f.evaluate_on_element_centers())
        grid, f, vv, cv = cache[key]
        ident = f.space.identifier
        if dt is None and rng.random() < 0.5:
            ident = node_ident
        if ident == node_ident:
            res.count("node_default_cases")
        fx = f if ident == f.space.identifier else _FunctionStub(f, ident)
        impl, _ = run_export(filename="x" + ext, grid_function=fx, data_type=dt, transformation=_py_transform(tr),
                             write_binary=b)
        gt = _grid_tokens(grid.vertices, grid.elements, grid.domain_indices)
        ft = [str(int(ident == node_ident)), str(int(np.iscomplexobj(vv))), str(vv.shape[0])] \
            + _values_tokens(vv) + _values_tokens(cv)
        export_case(dict(mesh=name, labels=list(labels), ext=ext, binary=b, src="gf", space=f"{kind[0]}{kind[1]}",
                         identifier=ident, complex=cplx, data_type=dtname[dt], transformation=tr),
                    " ".join(["ioexport", ext, str(int(b)), "gf", dtname[dt], tr] + gt + ft), impl,
                    1e-13 if tr in INEXACT else 0, cplx and kind in VECTOR)
        res.count("export_gf_cases")
    # 'both'
    name, V, E, D, labels = grids[0]
    grid = api.Grid(V, E, D)
    f = _make_function(api, grid, ("DP", 0), False, rng)
    impl, _ = run_export(filename="x.msh", grid=grid, grid_function=f)
    vv, cv = f.evaluate_on_vertices(), f.evaluate_on_element_centers()
    export_case(dict(mesh=name, src="both"),
                " ".join(["ioexport", ".msh", "1", "both", "unset", "none"]
                         + _grid_tokens(grid.vertices, grid.elements, grid.domain_indices)
                         + ["0", "0", "1"] + _values_tokens(vv) + _values_tokens(cv)), impl, 0, False)

    # 3. import_grid on synthetic reader results
    saved_read = meshio.read
    variants = ["both", "phys", "geom", "none", "phys0+geom", "phys0", "phys0-tri+geom", "negative", "domain_index",
                "int64", "no-triangles"]
    try:
        for it in range(ctx.pick(33, 220)):
            name, V, E, D, labels = grids[it % len(grids)]
            var = variants[it % len(variants)]
            ne = E.shape[1]
            # split the triangles into 1-3 blocks, interleave line / vertex / quad blocks
            nsplit = min(ne, rng.randrange(1, 4))
            cuts = sorted(rng.sample(range(1, ne), nsplit - 1)) if nsplit > 1 else []
            parts = [list(range(a, b)) for a, b in zip([0] + cuts, cuts + [ne])]
            blocks = []
            for part in parts:
                if rng.random() < 0.5:
                    k = rng.choice([("line", 2), ("vertex", 1), ("quad", 4)])
                    n = rng.randrange(1, 4)
                    blocks.append((k[0], np.array([[rng.randrange(V.shape[1]) for _ in range(k[1])] for _ in range(n)],
                                                  dtype="int64")))
                blocks.append(("triangle", np.array(E[:, part].T, dtype=rng.choice(["int64", "int32", "uint64"]))))
            if rng.random() < 0.4:
                blocks.append(("line", np.array([[0, 1]], dtype="int64")))
            if var == "no-triangles":
                blocks = [b for b in blocks if b[0] != "triangle"] or [("line", np.array([[0, 1]], dtype="int64"))]
            lab = [l for l in labels if l < 2**31] or [3]

            def tags(zero_tri=False, zero_all=False, neg=False, dtype="int32"):
                out = []
                for ty, arr in blocks:
                    if zero_all or (zero_tri and ty == "triangle"):
                        out.append(np.zeros(len(arr), dtype=dtype))
                    else:
                        t = [rng.choice(lab) if rng.random() < 0.8 else rng.randrange(1, 40) for _ in range(len(arr))]
                        if neg:
                            t[0] = -1
                        out.append(np.array(t, dtype=dtype))
                return out
            cd = {}
            if var == "both":
                cd = {"gmsh:physical": tags(), "gmsh:geometrical": tags()}
            elif var == "phys":
                cd = {"gmsh:physical": tags()}
            elif var == "geom":
                cd = {"gmsh:geometrical": tags()}
            elif var == "phys0+geom":
                cd = {"gmsh:physical": tags(zero_all=True), "gmsh:geometrical": tags()}
            elif var == "phys0":
                cd = {"gmsh:physical": tags(zero_all=True)}
            elif var == "phys0-tri+geom":
                cd = {"gmsh:geometrical": tags(), "gmsh:physical": tags(zero_tri=True)}
            elif var == "negative":
                cd = {"gmsh:physical": tags(neg=True), "gmsh:geometrical": tags()}
            elif var == "domain_index":
                cd = {"domain_index": tags()}
            elif var == "int64":
                cd = {"gmsh:physical": tags(dtype="int64"), "gmsh:geometrical": tags(dtype="int64")}
            elif var == "no-triangles":
                cd = {"gmsh:physical": tags()}
            mesh = meshio.Mesh(V.T.copy(), [(t, a.copy()) for t, a in blocks], cell_data={k: [x.copy() for x in v]
                                                                                          for k, v in cd.items()})
            meshio.read = lambda filename, mesh=mesh: mesh
            try:
                g2 = api.import_grid("synthetic.msh")
                impl = dict(status="ok", vertices=[[F(float(x)) for x in g2.vertices[:, j]]
                                                   for j in range(g2.vertices.shape[1])],
                            elements=g2.elements.T.tolist(), domain=[int(x) for x in g2.domain_indices],
                            dtypes=[str(g2.vertices.dtype), str(g2.elements.dtype), str(g2.domain_indices.dtype)])
            except Exception as e:  # noqa
                impl = dict(status="err", error=_classify(e), message=f"{type(e).__name__}: {e}"[:160])
            finally:
                meshio.read = saved_read
            t = ["ioimport", str(V.shape[1]), "3"] + [_rat(V[i, j]) for j in range(V.shape[1]) for i in range(3)]
            t.append(str(len(blocks)))
            for ty, arr in blocks:
                t += [ty, str(arr.shape[1]), str(arr.shape[0])] + [str(int(x)) for x in arr.flatten()]
            t.append(str(len(cd)))
            for k, v in cd.items():
                t += [k, str(len(v))]
                for arr in v:
                    t += [str(len(arr))] + [str(int(x)) for x in arr]
            desc = dict(mesh=name, variant=var, blocks=[b[0] for b in blocks])

            def h(ans, impl=impl, desc=desc):
                try:
                    model = json.loads(ans)
                except ValueError:
                    res.disagree("import: driver rejected the request", case=desc, answer=ans[:80])
                    return
                if model["status"] != impl["status"] or model.get("error") != impl.get("error"):
                    res.disagree("import status", case=desc, impl=impl.get("message", impl["status"]),
                                 model=model.get("error", "ok"))
                    return
                if model["status"] == "err":
                    return
                if impl["dtypes"] != ["float64", "uint32", "uint32"]:
                    res.disagree("import dtypes", case=desc, impl=impl["dtypes"])
                if [[F(x) for x in r] for r in model["vertices"]] != impl["vertices"]:
                    res.disagree("import vertices", case=desc)
                if model["elements"] != impl["elements"]:
                    res.disagree("import elements", case=desc, impl=impl["elements"][:4], model=model["elements"][:4])
                if model["domain"] != impl["domain"]:
                    res.disagree("import domain indices", case=desc, impl=impl["domain"][:8], model=model["domain"][:8])
            add(" ".join(t), h)
            res.case(("import", name, var, tuple(b[0] for b in blocks)),
                     nontrivial=len(blocks) > 1 or var in ("phys0+geom", "phys0-tri+geom", "geom", "phys0"),
                     sample=dict(kind="import", **desc, impl_status=impl.get("error", "ok")) if it in (4, 6) else None)
            res.count("import_cases")
    finally:
        meshio.read = saved_read

    # 4. _transform_array on dyadic arrays (exact)
    for it in range(ctx.pick(30, 150)):
        comp = rng.choice([1, 1, 3, 2])
        n = rng.randrange(1, 6)
        cplx = rng.random() < 0.6
        a = np.array([[rng.randrange(-32, 33) / 8 for _ in range(n)] for _ in range(comp)], float)
        if cplx:
            a = a + 1j * np.array([[rng.randrange(-32, 33) / 8 for _ in range(n)] for _ in range(comp)], float)
        for tr in TRANSFORMS:
            try:
                out = bio._transform_array(a.copy(), _py_transform(tr))
                impl = dict(status="ok", complex=bool(np.iscomplexobj(out)), shape=list(out.shape), out=np.array(out))
            except Exception as e:  # noqa
                impl = dict(status="err", error=_classify(e))

            def h(ans, impl=impl, tr=tr, a=a):
                try:
                    model = json.loads(ans)
                except ValueError:
                    res.disagree("transform: driver rejected the request", transformation=tr, answer=ans[:80])
                    return
                if model["status"] != impl["status"] or model.get("error") != impl.get("error"):
                    res.disagree("transform status", transformation=tr, impl=impl.get("error", "ok"),
                                 model=model.get("error", "ok"))
                    return
                if model["status"] == "err":
                    return
                out = impl["out"]
                ok = model["complex"] == impl["complex"] and out.ndim == 2 and len(model["re"]) == out.shape[1] \
                    and all(len(c) == out.shape[0] for c in model["re"])
                if ok:
                    for j, (cr, ci) in enumerate(zip(model["re"], model["im"])):
                        for c, (vr, vi) in enumerate(zip(cr, ci)):
                            z = out[c, j]
                            # |z| is computed with hypot: |z|**2 is not exact for complex input
                            tol = 1e-13 if tr in INEXACT and np.iscomplexobj(a) else 0
                            ok = ok and _val_close(vr, _fr(np.real(z)), tol) and _val_close(vi, _fr(np.imag(z)), tol)
                if not ok:
                    res.disagree("transform values", transformation=tr, input=a.tolist(), impl=out.tolist(),
                                 model=[model["complex"], model["re"]])
            add(" ".join(["iotransform", tr, str(int(cplx)), str(n), str(comp)] + _values_tokens(a)), h)
            res.case(("transform", tr, comp, cplx), nontrivial=cplx and comp > 1)
            res.count("transform_cases")

    answers = run_driver(reqs)
    for a, h in zip(answers, handlers):
        h(a)
    res.count("driver_requests", len(reqs))
    return res


# ------------------------------------------------------------------------------------------------
# oracle: real files


def _ref_transform(vals, tr):
    """independent reference for the named transformations on a (components x n) array"""
    import numpy as np
    if tr == "none":
        return vals
    if tr == "real":
        return np.real(vals)
    if tr == "imag":
        return np.imag(vals)
    s = np.zeros((1, vals.shape[1]))
    for c in range(vals.shape[0]):
        s[0] += np.real(vals[c]) ** 2 + np.imag(vals[c]) ** 2
    if tr == "abs_squared":
        return s
    if tr == "abs":
        return np.sqrt(s)
    if tr == "log_abs":
        with np.errstate(divide="ignore"):
            return 0.5 * np.log(s)
    raise ValueError(tr)


_ASCII_MSH_DATA = {}


def _meshio_ascii_msh_data_ok(tmp):
    """Control experiment: can meshio read back ASCII gmsh22 point data it wrote itself (no bempp involved)?
    With meshio 5.3.5 + numpy 2 it cannot (the writer prints `np.float64(1.0)`)."""
    import numpy as np
    import meshio
    if "ok" not in _ASCII_MSH_DATA:
        fn = os.path.join(tmp, "control.msh")
        try:
            meshio.write_points_cells(fn, np.array([[0., 0, 0], [1, 0, 0], [0, 1, 0]]),
                                      [("triangle", np.array([[0, 1, 2]], dtype="int32"))],
                                      point_data={"data": np.array([1., 2, 3])}, file_format="gmsh22", binary=False)
            m = meshio.read(fn)
            _ASCII_MSH_DATA["ok"] = bool(np.array_equal(m.point_data["data"], [1., 2, 3]))
        except Exception:  # noqa
            _ASCII_MSH_DATA["ok"] = False
    return _ASCII_MSH_DATA["ok"]


def oracle(ctx, deep=False):
    import numpy as np
    import meshio
    import bempp_cl.api as api
    res = Result()
    rng = ctx.rng
    deep = deep or ctx.thorough
    tmp = tempfile.mkdtemp(prefix="c19-")
    worst = dict(vtu_ascii_vertices=0.0, data_exact_formats=0.0, data_derived=0.0, data_vtu_ascii=0.0)
    try:
        grids = _grids(ctx, 24 if deep else 10)
        # general binary64 coordinates on some grids (not only dyadic)
        for i in range(0, len(grids), 2):
            name, V, E, D, labels = grids[i]
            V = V * (1 + np.array([[rng.uniform(-1e-3, 1e-3) for _ in range(V.shape[1])] for _ in range(3)])) + math.pi * 1e-3
            grids[i] = (name, V, E, D, labels)
        # (a) grids: .msh exact incl. domain indices; .vtu / .ply (+ .mdpa ASCII) vertices and connectivity
        for name, V, E, D, labels in grids:
            grid = api.Grid(V, E, D)
            for ext, b in [(".msh", True), (".msh", False), (".vtu", True), (".vtu", False), (".ply", True),
                           (".ply", False), (".mdpa", False)]:
                fn = os.path.join(tmp, f"g{ext}")
                desc = dict(mesh=name, labels=list(labels), ext=ext, binary=b)
                res.case(("file-grid", name, ext, b, tuple(labels)), nontrivial=ext == ".msh" and _nontrivial_labels(D),
                         sample=dict(kind="file-grid", **desc) if ext == ".msh" and _nontrivial_labels(D) else None)
                try:
                    api.export(fn, grid=grid, write_binary=b)
                    g2 = api.import_grid(fn)
                except Exception as e:  # noqa
                    if ext == ".mdpa":
                        res.count("mdpa_unavailable")
                        continue
                    res.counterexample(f"grid-roundtrip-raises-{ext}", f"exporting/importing a grid as {ext} "
                                       f"(write_binary={b}) raises {type(e).__name__}: {e}"[:300], **desc)
                    continue
                same_shape = g2.vertices.shape == grid.vertices.shape and g2.elements.shape == grid.elements.shape
                if not same_shape or not np.array_equal(g2.elements, grid.elements):
                    res.counterexample(f"grid-roundtrip-elements-{ext}", f"{ext} round trip (write_binary={b}) changes "
                                       "the connectivity", **desc, got=g2.elements.T.tolist()[:4],
                                       expected=grid.elements.T.tolist()[:4])
                    continue
                if ext == ".vtu" and not b:
                    dev = float(np.max(np.abs(g2.vertices - grid.vertices) / np.maximum(np.abs(grid.vertices), 1e-300)
                                       * (grid.vertices != 0))) if grid.vertices.size else 0.0
                    dev0 = float(np.max(np.abs(g2.vertices[grid.vertices == 0]), initial=0.0))
                    worst["vtu_ascii_vertices"] = max(worst["vtu_ascii_vertices"], dev)
                    okv = dev <= 1e-10 and dev0 <= 1e-300
                else:
                    okv = np.array_equal(g2.vertices, grid.vertices)
                if not okv:
                    res.counterexample(f"grid-roundtrip-vertices-{ext}", f"{ext} round trip (write_binary={b}) changes "
                                       "the vertices", **desc,
                                       max_abs_dev=float(np.max(np.abs(g2.vertices - grid.vertices))))
                if ext == ".msh":
                    if not np.array_equal(g2.domain_indices, grid.domain_indices):
                        if not np.any(grid.domain_indices):
                            res.counterexample("msh-zero-domain-indices",
                                               "an all-zero domain index array comes back as "
                                               f"{g2.domain_indices.tolist()[:6]} after a .msh export/import round trip "
                                               f"(write_binary={b})", **desc, got=g2.domain_indices.tolist(),
                                               expected=grid.domain_indices.tolist())
                        else:
                            res.counterexample("msh-domain-indices", f".msh round trip (write_binary={b}) changes the "
                                               "domain indices", **desc, got=g2.domain_indices.tolist()[:12],
                                               expected=grid.domain_indices.tolist()[:12])
                elif np.any(g2.domain_indices):
                    res.notes.append(f"{ext}: imported domain indices are not zero ({g2.domain_indices.tolist()[:6]}); "
                                     "the model says import_grid ignores 'domain_index'")
        # (b) grid functions: data read back with meshio == transformed evaluate_on_*
        ascii_msh_ok = _meshio_ascii_msh_data_ok(tmp)
        res.stats["meshio_reads_own_ascii_msh_data"] = "yes" if ascii_msh_ok else "no (meshio 5.3.5 + numpy 2 writes np.float64(...) reprs)"
        spaces = SPACES[:5 if deep else 3]
        fgrids = [g for g in grids if 2 <= g[2].shape[1] <= 12][:4 if deep else 2]
        formats = [(".msh", True), (".msh", False), (".vtu", True), (".vtu", False), (".ply", True)]
        trs = ["none", "real", "imag", "abs", "abs_squared", "log_abs"]
        for name, V, E, D, labels in fgrids:
            grid = api.Grid(V, E, D)
            for kind in spaces:
                for cplx in (False, True):
                    f = _make_function(api, grid, kind, cplx, rng)
                    vv, cv = f.evaluate_on_vertices(), f.evaluate_on_element_centers()
                    for dt, tr, (ext, b) in itertools.product(("node", "element"), trs, formats):
                        if not deep and rng.random() < 0.5 and not (cplx and kind in VECTOR):
                            continue
                        desc = dict(mesh=name, space=f"{kind[0]}{kind[1]}", complex=cplx, data_type=dt,
                                    transformation=tr, ext=ext, binary=b)
                        res.case(("file-data",) + tuple(desc.values()), nontrivial=cplx and kind in VECTOR,
                                 sample=dict(kind="file-data", **desc) if cplx and kind in VECTOR and tr == "none" else None)
                        vals = vv if dt == "node" else cv
                        ref = _ref_transform(vals, tr).T  # n x comp'
                        is_complex = np.iscomplexobj(ref)
                        fn = os.path.join(tmp, f"f{ext}")
                        try:
                            api.export(fn, grid_function=f, data_type=dt, transformation=_py_transform(tr),
                                       write_binary=b)
                        except Exception as e:  # noqa
                            if is_complex and dt == "element":
                                # regression key of the defect repaired in /repo (known_findings kind "fixed")
                                res.counterexample("export-complex-element-data",
                                                   "export of complex element data raises "
                                                   f"{type(e).__name__}: {e}"[:200] + " (real data and complex node "
                                                   "data are written)", **desc)
                            else:
                                res.counterexample(f"export-data-raises-{dt}-{tr}", f"export of {dt} data "
                                                   f"(transformation {tr}) raises {type(e).__name__}: {e}"[:300], **desc)
                            continue
                        if ext == ".msh" and not b and not ascii_msh_ok:
                            res.count("msh_ascii_data_not_readable_by_meshio")
                            continue
                        try:
                            m = meshio.read(fn)
                        except Exception as e:  # noqa
                            res.counterexample(f"export-data-unreadable-{ext}", f"meshio cannot read the {ext} file "
                                               f"written for {dt} data: {type(e).__name__}: {e}"[:300], **desc)
                            continue
                        if not np.array_equal(m.points, grid.vertices.T) and not (ext == ".vtu" and not b):
                            res.counterexample(f"export-data-geometry-{ext}", "grid-function export changes the vertices",
                                               **desc)
                        if not np.array_equal(m.cells_dict["triangle"], grid.elements.T):
                            res.counterexample(f"export-data-geometry-{ext}", "grid-function export changes the "
                                               "connectivity", **desc)
                        store = m.point_data if dt == "node" else {k: np.concatenate(v) for k, v in m.cell_data.items()}
                        if ext == ".ply":
                            if not any(k in store for k in ("data", "real", "imag")):
                                res.count("ply_data_dropped_by_meshio_writer")
                                continue
                        want = {"real": np.real(ref), "imag": np.imag(ref)} if is_complex else {"data": ref}
                        for k, w in want.items():
                            if k not in store:
                                res.counterexample(f"export-data-missing-{dt}", f"{dt} data array '{k}' is not in the "
                                                   f"{ext} file (arrays: {sorted(store)})", **desc)
                                continue
                            got = np.asarray(store[k], float).reshape(w.shape[0], -1)
                            if got.shape != w.shape:
                                res.counterexample(f"export-data-shape-{dt}", f"{dt} data '{k}' has shape {got.shape}, "
                                                   f"expected {w.shape}", **desc)
                                continue
                            fin = np.isfinite(w)
                            if not np.array_equal(np.isfinite(got), fin) or not np.array_equal(got[~fin], w[~fin]):
                                dev = math.inf
                            else:
                                dev = float(np.max(np.abs(got[fin] - w[fin]) / np.maximum(1.0, np.abs(w[fin])), initial=0.0))
                            if ext == ".vtu" and not b:
                                tol, slot = 1e-10, "data_vtu_ascii"
                            elif tr in INEXACT:
                                tol, slot = 1e-13, "data_derived"
                            else:
                                tol, slot = 0.0, "data_exact_formats"
                            worst[slot] = max(worst[slot], dev)
                            if dev > tol:
                                res.counterexample(f"export-data-values-{dt}-{k}", f"{dt} data '{k}' read back from the "
                                                   f"{ext} file differs from the transformed evaluate_on_"
                                                   f"{'vertices' if dt == 'node' else 'element_centers'} values "
                                                   f"(max deviation {dev:.3e}, tolerance {tol:g})", **desc)
        res.stats["worst_deviation"] = worst
    finally:
        shutil.rmtree(tmp, ignore_errors=True)
    return res


def search(ctx, broken):
    return oracle(ctx, deep=True)


LEVEL_TEXT = ("Lean 4 theorems on a hand model of the export/import mapping (meshio's file I/O = identity): for EVERY grid "
              "with uint32 arrays the Gmsh round trip returns the same vertices, elements and domain indices provided some "
              "index is non-zero (all-zero arrays provably come back as all ones: recorded finding); every other format "
              "preserves vertices/elements and zeroes the indices; node data = transformed evaluate_on_vertices under "
              "'data' or 'real'/'imag'; element data = transformed evaluate_on_element_centers under 'data' or "
              "'real'/'imag' in one cell block; transformation definitions, data_type default and the "
              "physical->geometrical fallback.  The model is compared on every run with the record the real export passes "
              "to meshio and with import_grid on synthetic reader results; real .msh/.vtu/.ply files are round-tripped by "
              "the oracle.")
LEVEL_NOTE = ("partial: one hypothesis marks the recorded finding (all-zero domain indices come back as ones); meshio's "
              "writers/readers and file formats are trusted (oracle only); sqrt/log uninterpreted; evaluate_on_* are inputs.")
TECHNIQUE = "Lean 4 proof on a hand model (simp/omega/decide +kernel) + differential correspondence by call interception"
