"""C13 oracle -- sparse operators, projections and integrals are exact L2 quantities.

Checked on the REAL code (`bempp_cl.api`) on non-uniform meshes (perturbed cube with three domain labels, bent open
screen, L-shape), spaces DP0 / DP1 / P1 / RWG / SNC on whole grids and on segments, quadrature orders 1..20:

 (1) identity(domain, ., dual).weak_form()  ==  exact Gram matrix  int psi_i . phi_j   for every order that integrates
     the product exactly (deg 0 for P0xP0, 1 for P0xP1, 2 otherwise); for the remaining low orders it equals the rule
     sum.  Equal spaces: symmetric, positive definite; partition-of-unity bases: entries sum to the area.
 (2) laplace_beltrami == exact matrix of int grad_G psi_i . grad_G phi_j  (all orders), symmetric, positive
     semi-definite, K 1 = 0 when the basis is a partition of unity.
 (3) GridFunction(space, fun=f) for f = sum_j c_j phi_j returns c, for all callable flavours: `real_callable` /
     `complex_callable` (jit), `jit=False`, `callable(vectorized=True)`, `callable(parameterized=True)` with
     `function_parameters`; and for analytic f in the space (affine -> P1 / DP1, normal- and domain-index dependent
     piecewise constant -> DP0).
 (4) integrate, l2_norm, projections(dual), evaluate, evaluate_on_vertices, evaluate_on_element_centers agree with
     the exact values for the represented function (scalar and RWG / SNC).
 (5) MultiplicationOperator(g, domain, range, dual, mode) == exact matrix of  int psi_i (g * phi_j)  (component
     mode) or  int psi_i (g . phi_j)  (inner mode), incl. segment spaces, complex g, every order >= 3.

The exact values are computed here in closed form: every local basis function is affine on the flat triangle,
phi = sum_a lambda_a v_a, and  int lambda^alpha = ie * alpha! / (|alpha| + 2)!  (ie = 2 * area).  Only `local2global`,
`local_multipliers`, `support_elements`, `normal_multipliers` are read from a space.

Non-trivial case (Appendix C): a segment space or an edge space is involved and the order is not 4.
Tolerance 1e-12 relative to the largest entry (coefficients after a mass-matrix solve: 1e-11); measured worst
deviations are in `stats["worst"]`.
"""
import math
import os
import sys
import time

import numpy as np

from vlib import meshgen as mg
from vlib.common import Ctx, Result

TOL = 1e-12
TOL_SOLVE = 1e-11  # coefficients obtained through the inverse mass matrix (conditioning of a non-uniform mesh)


# ----------------------------------------------------------------------------------------------------------------
class RefSpace:
    """Closed-form (nodal, affine) representation of the local basis functions of a bempp space."""

    def __init__(self, space):
        g = space.grid
        self.ident = space.identifier
        self.V = np.array(g.vertices, float)
        self.E = np.array(g.elements, np.int64)
        self.l2g = np.array(space.local2global, np.int64)
        self.mult = np.array(space.local_multipliers, float)
        self.support = [int(e) for e in space.support_elements]
        self.nm = np.array(space.normal_multipliers, float)
        self.ndof = int(space.global_dof_count)
        P0, P1, P2 = (self.V[:, self.E[i]] for i in range(3))
        cr = np.cross((P1 - P0).T, (P2 - P0).T)
        self.ie = np.linalg.norm(cr, axis=1)
        self.normals = cr / self.ie[:, None]
        self.codim = 3 if self.ident in ("rwg0", "snc0") else 1
        self.nshape = 1 if self.ident == "p0_discontinuous" else 3
        self._nodal = {}

    def verts(self, e):
        return [self.V[:, self.E[i, e]] for i in range(3)]

    def nodal(self, e):
        """(codim, nshape, 3): value of local function i at vertex a (the functions are affine on the element)."""
        if e in self._nodal:
            return self._nodal[e]
        if self.ident == "p0_discontinuous":
            out = np.ones((1, 1, 3))
        elif self.ident in ("p1_discontinuous", "p1_continuous"):
            out = np.eye(3)[None]
        elif self.ident in ("rwg0", "snc0"):
            p = self.verts(e)
            elen = (np.linalg.norm(p[0] - p[1]), np.linalg.norm(p[2] - p[0]), np.linalg.norm(p[1] - p[2]))
            opp = (2, 1, 0)
            out = np.empty((3, 3, 3))
            for i in range(3):
                for a in range(3):
                    out[:, i, a] = elen[i] / self.ie[e] * (p[a] - p[opp[i]])
            if self.ident == "snc0":
                out = np.cross((self.normals[e] * self.nm[e])[:, None, None], out, axis=0)
        else:
            raise ValueError(self.ident)
        out = out * self.mult[e][None, :, None]
        self._nodal[e] = out
        return out

    @staticmethod
    def bary(uv):
        return np.array([1 - uv[0] - uv[1], uv[0], uv[1]])

    def values(self, e, uv):
        return np.einsum("dia,ap->dip", self.nodal(e), self.bary(uv))

    def points(self, e, uv):
        p = self.verts(e)
        lam = self.bary(uv)
        return p[0][:, None] * lam[0] + p[1][:, None] * lam[1] + p[2][:, None] * lam[2]

    def grad_lambda(self, e):
        """(3 vertices, 3) surface gradients of the barycentric coordinates."""
        p = self.verts(e)
        n = self.normals[e]
        return np.array([np.cross(n, p[(a + 2) % 3] - p[(a + 1) % 3]) / self.ie[e] for a in range(3)])

    def fun_nodal(self, c, e):
        """(codim, 3) nodal values on element e of f = sum_j c_j phi_j."""
        return np.einsum("dia,i->da", self.nodal(e), c[self.l2g[e]])

    def area(self):
        return float(sum(self.ie[e] for e in self.support) / 2)

    def partition_of_unity(self):
        """True when the scalar basis sums to 1 on every support element (e.g. not for P1 without boundary dofs)."""
        if self.codim != 1:
            return False
        return all(np.abs(self.nodal(e)[0].sum(axis=0) - 1.0).max() < 1e-14 for e in self.support)


M2 = (np.ones((3, 3)) + np.eye(3)) / 24.0  # int lambda_a lambda_b / ie
M3 = np.empty((3, 3, 3))
for _a in range(3):
    for _b in range(3):
        for _c in range(3):
            _k = len({_a, _b, _c})
            M3[_a, _b, _c] = {1: 1 / 20.0, 2: 1 / 60.0, 3: 1 / 120.0}[_k]


def exact_gram(rt, rd):
    """int psi_i . phi_j  (rows: test/dual space rt, columns: domain rd)."""
    out = np.zeros((rt.ndof, rd.ndof))
    common = sorted(set(rt.support) & set(rd.support))
    for e in common:
        loc = np.einsum("dia,djb,ab->ij", rt.nodal(e), rd.nodal(e), M2) * rt.ie[e]
        np.add.at(out, (rt.l2g[e][:, None], rd.l2g[e][None, :]), loc)
    return out


def rule_gram(rt, rd, uv, w):
    out = np.zeros((rt.ndof, rd.ndof))
    for e in sorted(set(rt.support) & set(rd.support)):
        loc = np.einsum("dip,djp,p->ij", rt.values(e, uv), rd.values(e, uv), w) * rt.ie[e]
        np.add.at(out, (rt.l2g[e][:, None], rd.l2g[e][None, :]), loc)
    return out


def exact_lb(rt, rd):
    out = np.zeros((rt.ndof, rd.ndof))
    for e in sorted(set(rt.support) & set(rd.support)):
        g = rt.grad_lambda(e)  # (3,3)
        gt = np.einsum("ia,ax->ix", rt.nodal(e)[0], g)
        gd = np.einsum("ja,ax->jx", rd.nodal(e)[0], g)
        np.add.at(out, (rt.l2g[e][:, None], rd.l2g[e][None, :]), gt @ gd.T * rt.ie[e] / 2)
    return out


def exact_mult(rt, rd, rg, cg, mode):
    dtype = complex if np.iscomplexobj(cg) else float
    out = np.zeros((rt.ndof, rd.ndof), dtype=dtype)
    for e in sorted(set(rt.support) & set(rd.support) & set(rg.support)):
        G = rg.fun_nodal(cg, e)  # (codim_g, 3)
        if mode == "component":
            loc = np.einsum("dia,djb,dc,abc->ij", rt.nodal(e), rd.nodal(e), G, M3)
        else:
            loc = np.einsum("ia,djb,dc,abc->ij", rt.nodal(e)[0], rd.nodal(e), G, M3)
        np.add.at(out, (rt.l2g[e][:, None], rd.l2g[e][None, :]), loc * rt.ie[e])
    return out


def degree_needed(ra, rb, extra=0):
    d = lambda r: 0 if r.ident == "p0_discontinuous" else 1
    return d(ra) + d(rb) + extra


# ----------------------------------------------------------------------------------------------------------------
# callables: f = sum_j c_j phi_j through an element locator (works for every space)
# ----------------------------------------------------------------------------------------------------------------
def _locate_eval(x, res, P):
    nel = int(P[0].real)
    cd = int(P[1].real)
    stride = 9 + 3 * cd
    best = 1e300
    bo = 2
    b0 = 0.0
    b1 = 0.0
    b2 = 0.0
    for e in range(nel):
        o = 2 + e * stride
        ax = P[o].real
        ay = P[o + 1].real
        az = P[o + 2].real
        ux = P[o + 3].real - ax
        uy = P[o + 4].real - ay
        uz = P[o + 5].real - az
        vx = P[o + 6].real - ax
        vy = P[o + 7].real - ay
        vz = P[o + 8].real - az
        wx = x[0] - ax
        wy = x[1] - ay
        wz = x[2] - az
        nx = uy * vz - uz * vy
        ny = uz * vx - ux * vz
        nz = ux * vy - uy * vx
        nn = nx * nx + ny * ny + nz * nz
        # lambda_1 = ((w x v).n)/nn, lambda_2 = ((u x w).n)/nn
        cx = wy * vz - wz * vy
        cy = wz * vx - wx * vz
        cz = wx * vy - wy * vx
        l1 = (cx * nx + cy * ny + cz * nz) / nn
        cx = uy * wz - uz * wy
        cy = uz * wx - ux * wz
        cz = ux * wy - uy * wx
        l2 = (cx * nx + cy * ny + cz * nz) / nn
        l0 = 1.0 - l1 - l2
        pen = abs(wx * nx + wy * ny + wz * nz) / math.sqrt(nn)
        if l0 < 0:
            pen -= l0
        if l1 < 0:
            pen -= l1
        if l2 < 0:
            pen -= l2
        if pen < best:
            best = pen
            bo = o
            b0 = l0
            b1 = l1
            b2 = l2
    for d in range(cd):
        q = bo + 9 + 3 * d
        res[d] = b0 * P[q] + b1 * P[q + 1] + b2 * P[q + 2]


def pack(ref, c):
    cplx = np.iscomplexobj(c)
    rows = [np.array([len(ref.support), ref.codim], dtype=complex if cplx else float)]
    for e in ref.support:
        p = ref.verts(e)
        rows.append(np.concatenate(p).astype(complex if cplx else float))
        rows.append(ref.fun_nodal(c, e).reshape(-1).astype(complex if cplx else float))
    return np.concatenate(rows)


def make_callable(api, flavour, ref, c):
    """Return (fun, function_parameters) implementing f = sum_j c_j phi_j in the requested flavour."""
    import numba

    cplx = np.iscomplexobj(c)
    P = pack(ref, c)
    loc = numba.njit(_locate_eval)
    if flavour == "jit":
        dec = api.complex_callable if cplx else api.real_callable

        @dec
        def f(x, n, domain_index, res):
            loc(x, res, P)
        return f, None
    if flavour == "nojit":
        dec = api.complex_callable(jit=False) if cplx else api.real_callable(jit=False)

        @dec
        def f(x, n, domain_index, res):
            _locate_eval(x, res, P)
        return f, None
    if flavour == "parameterized":
        @api.callable(complex=cplx, parameterized=True)
        def f(x, n, domain_index, res, parameters):
            loc(x, res, parameters)
        return f, P
    if flavour == "vectorized":
        @api.callable(complex=cplx, vectorized=True)
        def f(x, n, domain_index, res):
            tmp = np.empty(ref.codim, dtype=res.dtype)
            for j in range(x.shape[1]):
                _locate_eval(x[:, j], tmp, P)
                res[:, j] = tmp
        return f, None
    if flavour == "vectorized-parameterized":
        @api.callable(complex=cplx, vectorized=True, parameterized=True)
        def f(x, n, domain_index, res, parameters):
            tmp = np.empty(ref.codim, dtype=res.dtype)
            for j in range(x.shape[1]):
                _locate_eval(x[:, j], tmp, parameters)
                res[:, j] = tmp
        return f, P
    raise ValueError(flavour)


# ----------------------------------------------------------------------------------------------------------------
# inputs
# ----------------------------------------------------------------------------------------------------------------
def make_grids(api, rng, thorough):
    out = {}
    V, E = mg.cube(2, flip_diag=rng.random() < 0.5)
    D = np.array([j // (E.shape[1] // 3) for j in range(E.shape[1])], dtype=np.uint32)
    V = mg.perturb(V * 1.3, 0.12, rng)
    V, E, D = mg.relabel(V, E, rng, D)
    V, _, _ = mg.rigid(V, rng)
    out["cube"] = api.Grid(V, E, D)
    V, E = mg.screen(3, 2, wobble=0.15, rng=rng)
    D = np.array([0 if j < E.shape[1] // 2 else 3 for j in range(E.shape[1])], dtype=np.uint32)
    V = mg.perturb(V * 1.4, 0.05, rng)
    V, _, _ = mg.rigid(V, rng)
    out["screen"] = api.Grid(V, E, D)
    if thorough:
        V, E = mg.lshape()
        V, _, _ = mg.rigid(mg.perturb(V * 0.9, 0.08, rng), rng)
        out["lshape"] = api.Grid(V, E)
    return out


def space_list(api, gname, g, thorough):
    """[(label, kindlabel, space, partition_of_unity_on_support)]"""
    seg = {"cube": [1], "screen": [3]}.get(gname)
    out = []

    def add(lab, kind, deg, pou, **kw):
        sp = api.function_space(g, kind, deg, scatter=False, **kw)
        if sp.global_dof_count > 0 and not sp.requires_dof_transformation and len(sp.support_elements) > 0:
            out.append((f"{gname}:{lab}", f"{kind}{deg}".lower(), sp, RefSpace(sp).partition_of_unity()))

    for kind, deg in (("DP", 0), ("DP", 1), ("P", 1), ("RWG", 0), ("SNC", 0)):
        add(f"{kind}{deg}".lower(), kind, deg, kind in ("DP", "P"))
    if seg:
        add("dp0-seg", "DP", 0, True, segments=seg)
        add("dp1-seg", "DP", 1, True, segments=seg)
        add("p1-seg", "P", 1, False, segments=seg)
        add("p1-seg-bd", "P", 1, True, segments=seg, include_boundary_dofs=True)
        add("rwg0-seg", "RWG", 0, False, segments=seg)
        add("rwg0-seg-bd", "RWG", 0, False, segments=seg, include_boundary_dofs=True)
        add("snc0-seg-bd", "SNC", 0, False, segments=seg, include_boundary_dofs=True)
        if thorough:
            add("p1-seg-bd-notrunc", "P", 1, False, segments=seg, include_boundary_dofs=True, truncate_at_segment_edge=False)
            add("snc0-seg", "SNC", 0, False, segments=seg)
    return out


def rand_coeffs(n, rng, complex_):
    c = np.array([rng.uniform(-1, 1) for _ in range(n)])
    if complex_:
        c = c + 1j * np.array([rng.uniform(-1, 1) for _ in range(n)])
    return c


def dense(op):
    A = op.weak_form()
    try:
        return np.asarray(A.to_dense())
    except AttributeError:
        return np.asarray(A.to_sparse().todense())


# ----------------------------------------------------------------------------------------------------------------
class Runner:
    def __init__(self, ctx, api, res, deep):
        from bempp_cl.api.utils.parameters import DefaultParameters
        from bempp_cl.api.integration.triangle_gauss import rule

        self.ctx, self.api, self.res, self.rng = ctx, api, res, ctx.rng
        self.thorough = ctx.thorough or deep
        self.DP, self.rule = DefaultParameters, rule
        self.worst = {}
        self.refs = {}

    def ref(self, sp):
        if id(sp) not in self.refs:
            self.refs[id(sp)] = RefSpace(sp)
        return self.refs[id(sp)]

    def params(self, order):
        p = self.DP()
        p.quadrature.regular = order
        return p

    def interior_orders(self, lo, hi):
        """Orders whose rule has all points inside the closed reference triangle.  The rules of order 11, 15, 16, 18
        and 20 have points OUTSIDE the element (barycentric coordinate down to -0.069): a callable that is defined
        piecewise (element by element) is then sampled on the wrong element / off the surface, so exactness of the
        projection can only be demanded for globally polynomial callables at those orders (see check_analytic)."""
        if not hasattr(self, "_interior"):
            self._interior = []
            for o in range(1, 21):
                uv = np.asarray(self.rule(o)[0], float)
                if min(uv.min(), (1 - uv[0] - uv[1]).min()) >= 0:
                    self._interior.append(o)
            self.res.stats["orders_with_points_outside_the_element"] = [o for o in range(1, 21) if o not in self._interior]
        return [o for o in self._interior if lo <= o <= hi and o != 4]

    def note(self, key, v):
        self.worst[key] = max(self.worst.get(key, 0.0), float(v))

    def geometry(self, sp):
        g = sp.grid
        return dict(vertices=np.asarray(g.vertices).tolist(), elements=np.asarray(g.elements).tolist(),
                    domain_indices=np.asarray(g.domain_indices).tolist())

    @staticmethod
    def nontrivial(order, *labs_kinds):
        return order != 4 and any(("seg" in l) or k in ("rwg0", "snc0") for l, k in labs_kinds)

    def orders(self, dmin, nquick):
        if self.thorough:
            return list(range(1, 21))
        lo = max(1, dmin)
        pool = [o for o in range(lo, 21) if o != 4]
        sel = sorted(self.rng.sample(pool, nquick))
        if dmin > 1 and self.rng.random() < 0.5:
            sel = [1] + sel
        return sel

    # ---- (1) identity
    def check_identity(self, dom, dual):
        (ld, kd, sd, poud), (lt, kt, st, pout) = dom, dual
        rd, rt = self.ref(sd), self.ref(st)
        if not set(rd.support) & set(rt.support):
            return
        need = degree_needed(rt, rd)
        G = exact_gram(rt, rd)
        scale = float(np.abs(G).max())
        if not scale > 0:
            return
        for order in self.orders(need, 3):
            A = dense(self.api.operators.boundary.sparse.identity(sd, sd, st, parameters=self.params(order)))
            exact = order >= need
            if exact:
                refm = G
            else:
                uv, w = (np.asarray(a, float) for a in self.rule(order))
                refm = rule_gram(rt, rd, uv, w)
            err = float(np.abs(A - refm).max()) / scale if A.shape == refm.shape else float("inf")
            self.note("identity" if exact else "identity-low-order-rule-sum", err)
            self.res.case(("identity", ld, lt, order), nontrivial=self.nontrivial(order, (ld, kd), (lt, kt)),
                          sample=dict(check="identity", domain=ld, dual=lt, order=order, rel_err=err) if order == 7 else None)
            if not err <= TOL:
                i, j = np.unravel_index(np.argmax(np.abs(A - refm)), A.shape) if A.shape == refm.shape else (0, 0)
                self.res.counterexample(
                    f"identity-{kt}-{kd}-not-exact-gram" if exact else f"identity-{kt}-{kd}-not-rule-sum",
                    f"identity(domain={ld}, dual={lt}) at order {order} differs from the "
                    f"{'exact L2 Gram matrix' if exact else 'quadrature sum of the rule'}: relative deviation {err:.3e} "
                    f"(tolerance {TOL:g}); entry ({i},{j}) observed {A[i, j] if A.shape == refm.shape else None} expected "
                    f"{refm[i, j] if A.shape == refm.shape else None}",
                    rel_err=err, order=order, domain=ld, dual=lt, **self.geometry(sd))
                return
            if exact and sd is st:
                asym = float(np.abs(A - A.T).max()) / scale
                ev = np.linalg.eigvalsh((A + A.T) / 2)
                self.note("identity-asymmetry", asym)
                self.worst["identity-min-eig/max-eig"] = min(self.worst.get("identity-min-eig/max-eig", 1.0), float(ev[0] / ev[-1]))
                if not (asym <= TOL and ev[0] > 0):
                    self.res.counterexample(
                        f"identity-{kd}-not-spd", f"mass matrix of {ld} at order {order} is not symmetric positive definite: "
                        f"asymmetry {asym:.2e}, smallest eigenvalue {ev[0]:.3e}", order=order, space=ld, **self.geometry(sd))
            if exact and poud and pout:
                area = sum(rd.ie[e] for e in set(rd.support) & set(rt.support)) / 2
                serr = abs(float(A.sum()) - area) / area
                self.note("identity-sum-vs-area", serr)
                if not serr <= TOL:
                    self.res.counterexample(
                        f"identity-{kt}-{kd}-entries-do-not-sum-to-area",
                        f"entries of identity(domain={ld}, dual={lt}) at order {order} sum to {float(A.sum())!r}, the surface "
                        f"area is {area!r}", order=order, domain=ld, dual=lt, **self.geometry(sd))

    # ---- (2) Laplace-Beltrami
    def check_lb(self, dom, dual):
        (ld, kd, sd, poud), (lt, kt, st, pout) = dom, dual
        rd, rt = self.ref(sd), self.ref(st)
        K = exact_lb(rt, rd)
        scale = float(np.abs(K).max())
        if not scale > 0:
            return
        for order in self.orders(0, 3):
            A = dense(self.api.operators.boundary.sparse.laplace_beltrami(sd, sd, st, parameters=self.params(order)))
            err = float(np.abs(A - K).max()) / scale
            self.note("laplace-beltrami", err)
            self.res.case(("lb", ld, lt, order), nontrivial=self.nontrivial(order, (ld, kd), (lt, kt)),
                          sample=dict(check="laplace_beltrami", domain=ld, dual=lt, order=order, rel_err=err) if order == 7 else None)
            if not err <= TOL:
                self.res.counterexample(
                    f"laplace-beltrami-{kt}-{kd}-not-exact",
                    f"laplace_beltrami(domain={ld}, dual={lt}) at order {order} differs from the exact matrix of surface "
                    f"gradient products: relative deviation {err:.3e}", rel_err=err, order=order, domain=ld, dual=lt,
                    **self.geometry(sd))
                return
            if sd is st:
                asym = float(np.abs(A - A.T).max()) / scale
                ev = np.linalg.eigvalsh((A + A.T) / 2)
                self.note("laplace-beltrami-asymmetry", asym)
                self.note("laplace-beltrami-neg-eig/max-eig", max(0.0, -ev[0] / ev[-1]))
                if not (asym <= TOL and ev[0] >= -1e-12 * ev[-1]):
                    self.res.counterexample(
                        f"laplace-beltrami-{kd}-not-symmetric-psd",
                        f"Laplace-Beltrami matrix of {ld} (order {order}): asymmetry {asym:.2e}, smallest eigenvalue "
                        f"{ev[0]:.3e} (largest {ev[-1]:.3e})", order=order, space=ld, **self.geometry(sd))
            if poud:
                r = float(np.abs(A @ np.ones(A.shape[1])).max()) / scale
                self.note("laplace-beltrami-times-constant", r)
                if not r <= TOL:
                    self.res.counterexample(
                        f"laplace-beltrami-{kt}-{kd}-does-not-annihilate-constants",
                        f"laplace_beltrami(domain={ld}, dual={lt}) applied to the constant 1 gives {r:.3e} (relative)",
                        order=order, domain=ld, dual=lt, **self.geometry(sd))

    # ---- (3) projections of callables
    def check_projection(self, entry, flavour, cplx, order):
        lab, kind, sp, pou = entry
        ref = self.ref(sp)
        c = rand_coeffs(sp.global_dof_count, self.rng, cplx)
        fun, fpar = make_callable(self.api, flavour, ref, c)
        kw = {} if fpar is None else dict(function_parameters=fpar)
        gf = self.api.GridFunction(sp, fun=fun, parameters=self.params(order), **kw)
        got = np.asarray(gf.coefficients)
        scale = float(np.abs(c).max())
        err = float(np.abs(got - c).max()) / scale
        proj = np.asarray(gf.projections())
        pexp = exact_gram(ref, ref) @ c
        perr = float(np.abs(proj - pexp).max()) / float(np.abs(pexp).max())
        self.note(f"projection-coefficients:{flavour}", err)
        self.note(f"projection-projections:{flavour}", perr)
        self.res.case(("projection", lab, flavour, cplx, order), nontrivial=self.nontrivial(order, (lab, kind)),
                      sample=dict(check="projection", space=lab, flavour=flavour, complex=cplx, order=order, rel_err=err))
        if not (err <= TOL_SOLVE and perr <= TOL):
            self.res.counterexample(
                f"projection-{kind}-{flavour}{'-complex' if cplx else ''}-not-exact",
                f"GridFunction({lab}, fun=<{flavour} callable for a function of the space>) at order {order}: coefficients "
                f"deviate by {err:.3e} (tolerance {TOL_SOLVE:g}), projections by {perr:.3e} (tolerance {TOL:g})",
                rel_err_coefficients=err, rel_err_projections=perr, order=order, space=lab, flavour=flavour,
                expected=str(c.tolist()), observed=str(got.tolist()), **self.geometry(sp))

    def check_analytic(self, entries, order):
        """affine function -> P1 / DP1 nodal values; (normal, domain index)-dependent constant -> DP0."""
        api = self.api
        a = np.array([0.3, -1.2, 0.7])
        b = 0.25

        @api.real_callable
        def f_aff(x, n, domain_index, res):
            res[0] = 0.3 * x[0] - 1.2 * x[1] + 0.7 * x[2] + 0.25

        @api.complex_callable
        def f_pc(x, n, domain_index, res):
            res[0] = (0.5 * n[0] - n[2]) + 1j * (0.1 * domain_index + n[1])

        for lab, kind, sp, pou in entries:
            if not pou or kind not in ("dp0", "dp1", "p1"):
                continue
            ref = self.ref(sp)
            g = sp.grid
            exp = np.zeros(sp.global_dof_count, dtype=complex if kind == "dp0" else float)
            for e in ref.support:
                for i in range(ref.nshape):
                    if ref.mult[e, i] == 0:
                        continue
                    if kind == "dp0":
                        n = ref.normals[e] * ref.nm[e]
                        exp[ref.l2g[e, i]] = (0.5 * n[0] - n[2]) + 1j * (0.1 * int(g.domain_indices[e]) + n[1])
                    else:
                        exp[ref.l2g[e, i]] = a @ ref.V[:, ref.E[i, e]] + b
            gf = api.GridFunction(sp, fun=f_pc if kind == "dp0" else f_aff, parameters=self.params(order))
            got = np.asarray(gf.coefficients)
            err = float(np.abs(got - exp).max()) / float(np.abs(exp).max())
            self.note("projection-analytic", err)
            self.res.case(("projection-analytic", lab, order), nontrivial=self.nontrivial(order, (lab, kind)))
            if not err <= TOL_SOLVE:
                self.res.counterexample(
                    f"projection-{kind}-analytic-not-exact",
                    f"projection of {'an affine function' if kind != 'dp0' else 'a normal/domain-index dependent piecewise constant'} "
                    f"onto {lab} at order {order}: coefficients deviate from the nodal values by {err:.3e}",
                    rel_err=err, order=order, space=lab, expected=str(exp.tolist()), observed=str(got.tolist()),
                    **self.geometry(sp))

    # ---- (4) grid function queries
    def check_gridfunction(self, entry, others, cplx, order):
        api = self.api
        lab, kind, sp, pou = entry
        ref = self.ref(sp)
        c = rand_coeffs(sp.global_dof_count, self.rng, cplx)
        gf = api.GridFunction(sp, coefficients=c, parameters=self.params(order))
        g = sp.grid
        nontrivial = self.nontrivial(order, (lab, kind))
        info = dict(space=lab, order=order, complex=cplx)

        def report(what, key, err, tol=TOL, **extra):
            self.note(what, err)
            self.res.case((what, lab, cplx, order), nontrivial=nontrivial)
            if not err <= tol:
                self.res.counterexample(key, f"{what} of a grid function in {lab} (order {order}) deviates from the exact "
                                        f"value by {err:.3e} (tolerance {tol:g})", rel_err=err, coefficients=str(c.tolist()),
                                        **info, **extra, **self.geometry(sp))

        # integrate: int f = sum_e ie/6 * sum_a f(p_a)
        exact = sum(ref.fun_nodal(c, e).sum(axis=1) * ref.ie[e] / 6 for e in ref.support)
        absint = sum(np.abs(ref.fun_nodal(c, e)).sum(axis=1) * ref.ie[e] / 6 for e in ref.support)
        got = np.asarray(gf.integrate())
        err = float(np.abs(got - exact).max() / np.abs(absint).max())
        report("integrate", f"integrate-{kind}-wrong" if kind not in ("rwg0", "snc0") else "integrate-double-multiplier",
               err, observed=str(got.tolist()), expected=str(np.asarray(exact).tolist()))
        # l2 norm
        G = exact_gram(ref, ref)
        exn = math.sqrt(abs(np.conj(c) @ (G @ c)))
        err = abs(gf.l2_norm() - exn) / exn
        report("l2_norm", f"l2-norm-{kind}-wrong", err, observed=float(gf.l2_norm()), expected=exn)
        # projections onto other dual spaces
        for (lo, ko, so, _) in others:
            ro = self.ref(so)
            if ro.codim != ref.codim or not set(ro.support) & set(ref.support):
                continue
            exp = exact_gram(ro, ref) @ c
            got = np.asarray(gf.projections(so))
            if float(np.abs(exp).max()) == 0:
                continue
            err = float(np.abs(got - exp).max()) / float(np.abs(exp).max())
            report("projections(dual)", f"projections-{kind}-onto-{ko}-wrong", err, dual=lo)
        # the same function given by its PROJECTIONS onto its own space (dual representation), asked for its projections onto
        # another dual space: stored projections must not be handed back for a different dual space (seed C13-d)
        try:
            gram_self = exact_gram(ref, ref)
            if gram_self.shape[0] == gram_self.shape[1] and np.linalg.cond(gram_self) < 1e8:
                gfd = self.api.GridFunction(gf.space, projections=gram_self @ c, dual_space=gf.space)
                # a second dual space that certainly differs from the function's own: whole-grid DP0 (scalar) / RWG (vector)
                extra_dual = self.api.function_space(g, "DP", 0) if ref.codim == 1 else self.api.function_space(
                    g, "RWG", 0, include_boundary_dofs=True)
                cands = [(getattr(extra_dual, "identifier", "dual"), getattr(extra_dual, "identifier", "dual"), extra_dual, None)]
                for (lo, ko, so, _) in cands + list(others):
                    ro = self.ref(so)
                    if so is gf.space or so == gf.space or ro.codim != ref.codim or not set(ro.support) & set(ref.support):
                        continue
                    exp = exact_gram(ro, ref) @ c
                    if float(np.abs(exp).max()) == 0:
                        continue
                    got = np.asarray(gfd.projections(so))
                    err = (float(np.abs(got - exp).max()) / float(np.abs(exp).max())) if got.shape == exp.shape else float("inf")
                    report("projections(dual) of a function given by projections", f"projections-{kind}-dual-representation-onto-{ko}-wrong",
                           err, dual=lo)
                    break
        except np.linalg.LinAlgError:
            pass
        # evaluate at random local points
        uv = np.array([[0.2, 0.5, 0.1, 1 / 3], [0.3, 0.1, 0.8, 1 / 3]])
        worst = 0.0
        sc = float(np.abs(c).max()) * max(1.0, max(float(np.abs(ref.nodal(e)).max()) for e in ref.support))
        for e in self.rng.sample(ref.support, min(6, len(ref.support))):
            exp = np.einsum("da,ap->dp", ref.fun_nodal(c, e), RefSpace.bary(uv))
            got = np.asarray(gf.evaluate(e, uv))
            worst = max(worst, float(np.abs(got - exp).max()) / sc)
        report("evaluate", f"evaluate-{kind}-wrong", worst)
        # element centres
        exp = np.zeros((ref.codim, g.number_of_elements), dtype=c.dtype)
        for e in ref.support:
            exp[:, e] = ref.fun_nodal(c, e).mean(axis=1)
        got = np.asarray(gf.evaluate_on_element_centers())
        err = float(np.abs(got - exp).max()) / sc if got.shape == exp.shape else float("inf")
        report("evaluate_on_element_centers", f"evaluate-on-element-centers-{kind}-wrong", err)
        # vertices: area-weighted mean of the element values
        num = np.zeros((ref.codim, g.number_of_vertices), dtype=c.dtype)
        den = np.zeros(g.number_of_vertices)
        for e in ref.support:
            F = ref.fun_nodal(c, e)
            for a in range(3):
                v = ref.E[a, e]
                num[:, v] += F[:, a] * ref.ie[e] / 2
                den[v] += ref.ie[e] / 2
        exp = np.where(den > 0, num / np.where(den > 0, den, 1.0), 0)
        got = np.asarray(gf.evaluate_on_vertices())
        err = float(np.abs(got - exp).max()) / sc if got.shape == exp.shape else float("inf")
        report("evaluate_on_vertices", f"evaluate-on-vertices-{kind}-wrong", err)

    # ---- (5) multiplication operator
    def check_mult(self, gentry, dom, dual, mode, cplx, order):
        api = self.api
        (lg, kg, sg, _), (ld, kd, sd, _), (lt, kt, st, _) = gentry, dom, dual
        rg, rd, rt = self.ref(sg), self.ref(sd), self.ref(st)
        if not set(rg.support) & set(rd.support) & set(rt.support):
            return
        cg = rand_coeffs(sg.global_dof_count, self.rng, cplx)
        gfun = api.GridFunction(sg, coefficients=cg)
        exact = order >= degree_needed(rt, rd, extra=0 if rg.ident == "p0_discontinuous" else 1)
        if not exact:
            return
        info = dict(multiplier=lg, domain=ld, dual=lt, mode=mode, order=order, complex=cplx)
        seg = any("seg" in l for l in (lg, ld, lt))
        if mode == "component" and rg.codim == 3:
            key = "multiplication-operator-component-vector-broadcast"
        elif seg:
            key = "multiplication-operator-integration-element"
        else:
            key = f"multiplication-operator-{mode}-{kt}-{kd}-wrong"
        try:
            op = api.MultiplicationOperator(gfun, sd, sd, st, parameters=self.params(order), mode=mode)
            A = dense(op)
        except Exception as ex:  # noqa
            self.res.case(("mult", lg, ld, lt, mode, cplx, order), nontrivial=True)
            self.res.counterexample(
                "multiplication-operator-inner-reshape" if mode == "inner" else f"multiplication-operator-{mode}-raises",
                f"MultiplicationOperator(mode={mode!r}) by a function of {lg} on ({ld} -> {lt}) "
                f"raises {type(ex).__name__}: {str(ex)[:120]}", **info, **self.geometry(sd))
            return
        Mx = exact_mult(rt, rd, rg, cg, mode)
        scale = float(np.abs(Mx).max())
        if not scale > 0:
            return
        err = float(np.abs(A - Mx).max()) / scale if A.shape == Mx.shape else float("inf")
        self.note(f"multiplication-{mode}", err)
        self.res.case(("mult", lg, ld, lt, mode, cplx, order), nontrivial=self.nontrivial(order, (lg, kg), (ld, kd), (lt, kt)),
                      sample=dict(check="multiplication", rel_err=err, **info))
        if not err <= TOL:
            self.res.counterexample(
                key, f"MultiplicationOperator(mode={mode!r}) by a function of {lg} on ({ld} -> {lt}) at order {order} differs "
                f"from the exact weighted mass matrix: relative deviation {err:.3e} (tolerance {TOL:g})",
                rel_err=err, multiplier_coefficients=str(cg.tolist()), **info, **self.geometry(sd))


TTYPE = {"dp0": "p0", "dp1": "p1", "p1": "p1", "rwg0": "rwg0", "snc0": "snc0"}


def _run(ctx, api, res, deep):
    """Every (kernel, pair of basis evaluators, argument signature -- whole-grid and segment spaces differ) and every
    callable is a separate Numba compilation (5-10 s each on an idle machine).  The quick tier therefore fixes per run
    (from ctx.rng) one scalar basis type x and one vector basis type v, one of them on a segment, and ONE mixed
    combination out of (x,y), (y,x), (v,w), (w,v); it checks the two mass matrices, same-class partners (P1 with DP1,
    other segment variants), the mixed pair, Laplace-Beltrami, the grid-function queries and callables on the two
    chosen spaces, and the (NumPy) multiplication operator on random combinations incl. segments, on both grids with
    random orders.  The thorough tier covers all combinations and all orders 1..20."""
    R = Runner(ctx, api, res, deep)
    rng = ctx.rng
    thorough = R.thorough
    grids = make_grids(api, rng, thorough)
    t0 = time.time()
    xt = rng.choice(["p0", "p1"])
    yt = "p1" if xt == "p0" else "p0"
    vt = rng.choice(["rwg0", "snc0"])
    wt = "snc0" if vt == "rwg0" else "rwg0"
    seg_of = {xt: rng.random() < 0.5}
    seg_of[vt] = not seg_of[xt]
    seg_of[yt], seg_of[wt] = rng.random() < 0.5, rng.random() < 0.5
    mixed = rng.choice([(xt, yt), (yt, xt), (vt, wt), (wt, vt)])  # (dual type, domain type)
    focus = [f for f in os.environ.get("VERIF_ORACLE_FOCUS", "").split(",") if f]
    res.stats["quick_plan"] = None if thorough else dict(mass_matrices=[xt, vt], mixed=mixed,
                                                         on_segment={k: bool(v) for k, v in seg_of.items()})
    tt = lambda e: TTYPE[e[1]]
    is_seg = lambda e: "seg" in e[0]

    def pick(group, ttype, seg, exclude=()):
        c = [e for e in group if tt(e) == ttype and is_seg(e) == seg and all(e is not x for x in exclude)]
        if not c:
            c = [e for e in group if tt(e) == ttype and all(e is not x for x in exclude)]
        return rng.choice(c) if c else None

    for gi, (gname, g) in enumerate(grids.items()):
        entries = space_list(api, gname, g, thorough)
        ctx.log(f"{gname}: {len(entries)} spaces built: {time.time() - t0:.1f}s")
        scal = [e for e in entries if e[1] in ("dp0", "dp1", "p1")]
        vec = [e for e in entries if e[1] in ("rwg0", "snc0")]
        # (1) identity   pairs (domain a, dual b)
        pairs = [(a, b) for grp in (scal, vec) for a in grp for b in grp]
        if not thorough:
            ex, ev = pick(scal, xt, seg_of[xt]), pick(vec, vt, seg_of[vt])
            chosen = {xt: ex, vt: ev}
            pairs = [(ex, ex), (ev, ev)]
            partners = {}
            for e, grp in ((ex, scal), (ev, vec)):
                pe = pick(grp, tt(e), is_seg(e), exclude=(e,))
                if pe is not None and is_seg(pe) == is_seg(e):
                    partners[tt(e)] = pe
                    pairs += [(e, pe), (pe, e)] if rng.random() < 0.5 else [(pe, e)]
            grp = scal if mixed[0] in ("p0", "p1") else vec
            dual = chosen.get(mixed[0]) or pick(grp, mixed[0], seg_of[mixed[0]])
            dom = chosen.get(mixed[1]) or pick(grp, mixed[1], seg_of[mixed[1]])
            pairs.append((dom, dual))
        for a, b in pairs:
            t1 = time.time()
            R.check_identity(a, b)
            if time.time() - t1 > 2:
                ctx.log(f"   identity {a[0]} x {b[0]}: {time.time() - t1:.1f}s")
        ctx.log(f"{gname}: identity on {len(pairs)} pairs: {time.time() - t0:.1f}s")
        # (2) Laplace-Beltrami (P1 and DP1 share the evaluator)
        p1s = [e for e in scal if e[1] in ("p1", "dp1")]
        lbp = [(a, b) for a in p1s for b in p1s]
        if not thorough:
            full = [e for e in p1s if not is_seg(e)]
            lbp = [(a, a) for a in full if a[1] == "p1"] + rng.sample([(a, b) for a in full for b in full], 2)
            segp = [e for e in p1s if is_seg(e)]
            if gi == 0 and segp:
                a = rng.choice(segp)
                lbp.append((a, a))
        for a, b in lbp:
            R.check_lb(a, b)
        ctx.log(f"{gname}: laplace_beltrami on {len(lbp)} pairs: {time.time() - t0:.1f}s")
        # (4) grid function queries
        gfe = entries if thorough else [ex, ev]
        for i, e in enumerate(gfe):
            others = [o for o in entries if o is not e]
            if not thorough:
                others = [o for o in (partners.get(tt(e)), dual if dom is e else None) if o is not None]
            for cplx in ((False, True) if thorough else (bool((i + gi) % 2),)):
                R.check_gridfunction(e, others, cplx, rng.choice([o for o in range(2, 21) if o != 4]))
        ctx.log(f"{gname}: grid function queries on {len(gfe)} spaces: {time.time() - t0:.1f}s")
        # (5) multiplication operator (NumPy code; only space.evaluate is compiled, once per basis type)
        combos = []
        for gentry in scal:
            for d in scal:
                for t in scal:
                    combos.append((gentry, d, t, "component"))
        for gentry in vec:
            for d in vec:
                for t in vec:
                    combos.append((gentry, d, t, "component"))
                for t in scal:
                    combos.append((gentry, d, t, "inner"))
        combos = [c for c in combos if set(R.ref(c[0][2]).support) & set(R.ref(c[1][2]).support) & set(R.ref(c[2][2]).support)]
        withseg = [c for c in combos if any(is_seg(x) for x in c[:3])]
        inner = [c for c in combos if c[3] == "inner"]
        vcomp = [c for c in combos if c[3] == "component" and c[0][1] in ("rwg0", "snc0")]
        if thorough:
            sel = rng.sample(combos, min(len(combos), 150)) + rng.sample(inner, min(len(inner), 30))
        else:
            sel = (rng.sample(withseg, min(3, len(withseg))) + rng.sample(inner, 2) + rng.sample(vcomp, 2)
                   + rng.sample([c for c in inner if c in withseg], 1) + rng.sample(combos, 2))
        for gentry, d, t, mode in sel:
            R.check_mult(gentry, d, t, mode, rng.random() < 0.4, rng.choice([o for o in range(3, 21) if o != 4]))
        ctx.log(f"{gname}: multiplication operator on {len(sel)} combinations: {time.time() - t0:.1f}s")
        # (3) projections of callables (one compilation of the projection loop per callable and basis type)
        flavours = ["jit", "nojit", "parameterized", "vectorized", "vectorized-parameterized"]
        if thorough:
            plan = [(e, f, cplx) for e in entries for f in flavours for cplx in (False, True)]
            plan = rng.sample(plan, min(len(plan), 36 if gname == "cube" else 10))
        elif gi == 0:
            a, b = (ex, ev) if rng.random() < 0.5 else (ev, ex)
            plan = [(a, rng.choice(["jit", "parameterized"]), rng.random() < 0.5), (b, "nojit", rng.random() < 0.5),
                    (a, "vectorized", rng.random() < 0.5), (b, "vectorized-parameterized", True)]
        else:
            plan = [(rng.choice([ex, ev]), rng.choice(["vectorized", "vectorized-parameterized"]), True)]
        if focus:
            plan = [(e, f, c) for e, f, c in plan if f in focus] or plan
        for e, f, cplx in plan:
            hi = 8 if f in ("nojit", "vectorized", "vectorized-parameterized") else 20
            R.check_projection(e, f, cplx, rng.choice(R.interior_orders(2, hi)))
        if thorough or gi == 0:
            # globally polynomial callables: every order >= 2, including the rules with points outside the element
            R.check_analytic([e for e in entries if thorough or e is ex or e is partners.get(xt)],
                             rng.choice([2, 3, 5, 6, 9, 11, 15, 18, 20]))
        ctx.log(f"{gname}: projections ({len(plan)} callables): {time.time() - t0:.1f}s")
    res.stats["worst"] = {k: float(f"{v:.3e}") for k, v in sorted(R.worst.items())}
    res.stats["tolerances"] = dict(entries=TOL, coefficients_after_solve=TOL_SOLVE)


def oracle(ctx, deep=False):
    import numba
    import bempp_cl.api as api

    res = Result()
    t_start, c_start = time.time(), time.process_time()
    old_threads = numba.get_num_threads()
    numba.set_num_threads(max(1, min(old_threads, int(os.environ.get("VERIF_ORACLE_THREADS", "1")))))
    try:
        import warnings
        with warnings.catch_warnings():
            warnings.simplefilter("ignore")  # scipy SparseEfficiencyWarning of the inverse mass matrix
            _run(ctx, api, res, deep)
    finally:
        numba.set_num_threads(old_threads)
    res.stats["oracle_wall_s"] = round(time.time() - t_start, 1)
    res.stats["oracle_cpu_s"] = round(time.process_time() - c_start, 1)
    return res


if __name__ == "__main__":
    tier = sys.argv[1] if len(sys.argv) > 1 else "quick"
    seed = int(sys.argv[2]) if len(sys.argv) > 2 else int(os.environ.get("VERIF_SEED", "0"))
    deep = len(sys.argv) > 3 and sys.argv[3] == "deep"
    ctx = Ctx("C13", tier, seed)
    r = oracle(ctx, deep=deep)
    print("cases", r.evaluations, "nontrivial", len(r.nontrivial))
    for k, v in r.stats.items():
        print("stat", k, v)
    keys = {}
    for c in r.counterexamples:
        keys.setdefault(c["key"], []).append(c)
    print("counterexamples", len(r.counterexamples), {k: len(v) for k, v in keys.items()})
    for k, v in keys.items():
        print("  CEX", k, "|", v[0]["what"][:400])
    print(f"wall {time.time() - ctx.t0:.1f}s")
