"""C14 — operator, grid-function and potential algebra is coherent.

Three interpreters of one expression language are compared on random programs over a pool of small assembled leaves:
  * the real API (`py_eval` / `py_observe`),
  * the Lean model `Model/Alg.lean` through the native driver (correspondence, Tie C),
  * a plain NumPy denotation written from the property statement (`spec_apply`, oracle; independent of the model).
"""
import operator
from fractions import Fraction as F

import numpy as np

from vlib.common import Result, run_driver, build_driver

PID = "C14"
LEAN_MODULES = ["BemppVerif.Props.C14", "BemppVerif.Props.C15Blocked"]
N = "BemppVerif.C14."
THEOREMS = [N + t for t in [
    "eval_type", "check_iff_run", "illtyped_rejected", "welltyped_accepted", "eval_sound", "run_sound",
    "to_dense_matvec_agree", "product_is_weak_invmass_weak", "apply_gives_projections", "linearity",
    "real_on_complex_by_parts", "blocked_apply_slices", "pot_apply_linear",
]] + ["BemppVerif.C15." + t for t in ["blocked_matvec_eq_dense", "blocked_matmat_eq_dense",
                                      "blocked_matmat_is_columnwise_matvec", "generalized_matmat_eq_dense",
                                      "blocked_ctor_dims_sound", "blocked_matvec_eq_dense_of_index"]]
PARTIAL = {}
TRUSTED = [
    "hand model lean/BemppVerif/Model/Alg.lean of the operator algebra (class dispatch, laziness as carried weak-form "
    "results, by-parts application, blocked slicing), tied by differential comparison through the native driver",
    "space compatibility is modelled as equality of space ids; Space.is_compatible is md5-hash based (collisions ignored)",
    "the inverse mass matrix of a (range, dual) pair is a pool entry taken from get_inverse_mass_matrix(...) applied to the "
    "identity (scipy splu / normal equations are not modelled)",
]
ASSUMPTIONS = [
    "transposes/adjoints exist only for Sparse/Dense discrete operators; for lazy _Sum/_Product/_Scaled/InverseSparse/"
    "Blocked discrete operators the API has none (model: err not-implemented; lead decision, not a counterexample); "
    "BoundaryOperator / BlockedOperator have no public transpose or adjoint at all",
    "GridFunction.coefficients flips `representation` from dual to primal as a cache side effect; the harness uses a fresh "
    "GridFunction per leaf occurrence, the flip itself is not modelled (history dependence is C18's subject)",
    "out of the modelled language (harness and model both answer `out-of-scope`): NumPy arrays as operands, NumPy scalars "
    "combined with Python lists, integer/bool scalars, lists containing anything but grid functions, 0-sized block arrays, "
    "NumPy broadcasting of 1-dof spaces, lists as long as a dof count, single-precision NumPy scalars",
    "GeneralizedDiscreteBlockedOperator / BlockedDiscreteOperator products are modelled in Model/Blocked.lean (exact "
    "correspondence props/c15_blocked.py); not modelled in the algebra language: GeneralizedBlockedOperator, MultitraceOperatorFromAssembler, ZeroBoundaryOperator.__iadd__/__isub__, "
    "MultiplicationOperator, DiagonalOperator, DiscreteRankOneOperator, GenericDiscreteBoundaryOperator (FMM), single "
    "precision dtypes (all leaves are float64 / complex128), potential operators with more than one component",
    "tolerance 1e-10 relative to the magnitude bound of the expression (float64 vs exact rational arithmetic)",
]
RULE = ("random programs of depth <= 5 (quick) / 8 (thorough) over a pool of real assembled leaves; a well-typed program is "
        "non-trivial when its depth is >= 3 and it contains an operator-operator product and a complex scalar; an "
        "ill-typed program is non-trivial when exactly one node violates a rule and all its subtrees are well-typed; "
        "distinct by token string")
TOL = 1e-10


class Scope(Exception):
    """operand combination outside the modelled language"""


class UnknownResult(Exception):
    """the API returned an object that is none of the value kinds (e.g. an exception CLASS instead of raising)"""


# ------------------------------------------------------------------------------------------------
# pool of real leaves

SPACE_DEFS = [("tet", "P", 1), ("tet", "DP", 0), ("tet", "DP", 1), ("oct", "P", 1), ("oct", "DP", 0)]
_POOLS = {}


class Pool:
    pass


def probe(n):
    return np.array([(j + 1) / 4 + 1j * (n - j) / 8 for j in range(n)])


def build_pool(ctx):
    key = (ctx.seed, ctx.thorough)
    if key in _POOLS:
        return _POOLS[key]
    import random
    import bempp_cl.api as api
    from bempp_cl.api.utils.helpers import get_inverse_mass_matrix
    from vlib import meshgen as mg
    rng = random.Random(ctx.seed * 7919 + 14)
    try:
        # the leaves have 4-24 dofs: thread start-up dominates the jitted parallel kernels, and the machine is shared
        import numba
        numba.set_num_threads(min(2, numba.get_num_threads()))
    except Exception:  # noqa
        pass
    P = Pool()
    V1, E1 = mg.tetrahedron()
    V2, E2 = mg.octahedron()
    V1 = mg.perturb(V1, 0.2, rng, dyadic_bits=6)
    V2 = mg.perturb(V2, 0.15, rng, dyadic_bits=6)
    grids = {"tet": api.Grid(V1, E1), "oct": api.Grid(V2, E2)}
    P.spaces = [api.function_space(grids[g], k, d) for g, k, d in SPACE_DEFS]
    P.alias = {0: api.function_space(grids["tet"], "P", 1)}  # separately constructed, must be compatible with space 0
    P.ndofs = [s.global_dof_count for s in P.spaces]
    ident = api.operators.boundary.sparse.identity
    lb = api.operators.boundary.sparse.laplace_beltrami
    S = P.spaces
    A0 = P.alias[0]
    # every new (trial, test) shapeset pair / operator type costs 5-20 s of JIT: the quick pool avoids Laplace-Beltrami,
    # the P1 dense operator and the P1 potential
    defs = [("id", 0, 0, 0), ("id", 1, 1, 1), ("id", 0, 1, 1), ("id", 1, 0, 0), ("id", 0, 0, 1),
            ("id", 2, 2, 2), ("id", 2, 0, 0), ("id", 0, 2, 2), ("id", 0, 0, 2), ("id", 3, 3, 3), ("ida", 0, 0, 0),
            ("sl", 1, 1, 1)]
    if ctx.thorough:
        defs += [("lb", 0, 0, 0), ("id", 4, 4, 4), ("id", 3, 4, 4), ("sl", 0, 0, 0), ("id", 1, 1, 0)]
    P.ops = []
    for kind, d, r, u in defs:
        if kind == "id":
            obj = ident(S[d], S[r], S[u])
        elif kind == "ida":
            obj = ident(A0, A0, A0)
        elif kind == "lb":
            obj = lb(S[d], S[r], S[u])
        else:
            obj = api.operators.boundary.laplace.single_layer(S[d], S[r], S[u])
        W = np.asarray(obj.weak_form().to_dense())
        P.ops.append(dict(kind=kind, dom=d, ran=r, dual=u, dense=(kind == "sl"), obj=obj, W=W))
    # inverse mass matrices (and the mass matrices for the NumPy oracle) of all (range, dual) pairs in use
    P.minv, P.mass = {}, {}
    for r, u in sorted({(o["ran"], o["dual"]) for o in P.ops} | {(0, 2), (0, 1)}):
        inv = get_inverse_mass_matrix(S[r], S[u])
        P.minv[(r, u)] = np.asarray(inv @ np.eye(inv.shape[1]))
        P.mass[(r, u)] = np.asarray(ident(S[r], S[r], S[u]).weak_form().to_dense())

    def dy(n, cplx):
        v = np.array([rng.randrange(-16, 17) / 8 for _ in range(n)])
        if cplx:
            v = v + 1j * np.array([rng.randrange(-16, 17) / 8 for _ in range(n)])
        return v
    P.gfs = []
    for s, u, c in [(0, None, False), (0, None, True), (1, None, False), (1, None, True), (2, None, False),
                    (3, None, True), (0, 0, False), (0, 1, True), (1, 1, False), (0, 2, False)]:
        n = P.ndofs[s if u is None else u]
        P.gfs.append(dict(space=s, dual=u, c=c, data=dy(n, c)))
    P.points = [np.array([[2.0, 0.125, -1.5], [0.25, 3.0, 0.5], [0.25, -1.0, 2.0]]),
                np.array([[1.5, -2.0], [2.5, 0.5], [0.75, 1.25]])]
    pot = api.operators.potential.laplace
    P.pots = []
    for kind, s, q in [("sl", 1, 0), ("dl", 1, 0), ("sl", 1, 1)] + ([("sl", 0, 0), ("dl", 0, 1)] if ctx.thorough else []):
        obj = (pot.single_layer if kind == "sl" else pot.double_layer)(S[s], P.points[q])
        n = P.ndofs[s]
        M = np.column_stack([np.asarray(obj._evaluator.evaluate(np.eye(n)[:, j])).reshape(-1) for j in range(n)])
        P.pots.append(dict(space=s, ncomp=obj.component_count, pts=q, c=False, obj=obj, M=M))
    P.api = api
    _POOLS[key] = P
    return P


def space_id(P, sp):
    for i, s in enumerate(P.spaces):
        if s.id == sp.id:
            return i
    for i, s in P.alias.items():
        if s.id == sp.id:
            return i
    for i, s in enumerate(P.spaces):
        if s == sp:
            return i
    return -2


# ------------------------------------------------------------------------------------------------
# expressions

SC_KINDS = {"float": (False, False), "complex": (True, False), "f64": (False, True), "c128": (True, True),
            "f32": (False, True), "c64": (True, True)}
BIN = {"add": operator.add, "sub": operator.sub, "mul": operator.mul, "matmul": operator.matmul}
UN = ("neg", "weak", "strong", "transpose", "adjoint")


def rat(x):
    fr = F(float(x))
    return str(fr.numerator) if fr.denominator == 1 else f"{fr.numerator}/{fr.denominator}"


def tokens(e):
    t = e[0]
    if t == "sc":
        c, npf = SC_KINDS[e[1]]
        return ["sc", str(int(c)), str(int(npf)), rat(e[2]), rat(e[3])]
    if t in ("op", "gf", "pot"):
        return [t, str(e[1])]
    if t in BIN or t == "lcons":
        return [t] + tokens(e[1]) + tokens(e[2])
    if t in UN:
        return [t] + tokens(e[1])
    if t == "blk":
        return ["blk", str(e[1]), str(e[2])]
    if t == "set":
        return ["set", str(e[1]), str(e[2])] + tokens(e[3]) + tokens(e[4])
    if t == "lnil":
        return ["lnil"]
    raise ValueError(t)


def depth(e):
    t = e[0]
    if t in ("sc", "op", "gf", "pot", "blk", "lnil"):
        return 0
    if t in BIN:
        return 1 + max(depth(e[1]), depth(e[2]))
    if t in UN:
        return 1 + depth(e[1])
    if t == "set":
        return max(depth(e[3]), 1 + depth(e[4]))
    if t == "lcons":
        return max(1 + depth(e[1]), depth(e[2]))


def has_complex_scalar(e):
    if e[0] == "sc":
        return SC_KINDS[e[1]][0]
    return any(has_complex_scalar(x) for x in e[1:] if isinstance(x, tuple))


def pool_tokens(P):
    t = ["ndofs", str(len(P.ndofs))] + [str(n) for n in P.ndofs]
    t += ["npts", str(len(P.points))] + [str(p.shape[1]) for p in P.points]

    def ent(a, c):
        out = []
        for x in np.asarray(a).reshape(-1):
            out.append(rat(np.real(x)))
            if c:
                out.append(rat(np.imag(x)))
        return out
    for o in P.ops:
        t += ["op", str(o["dom"]), str(o["ran"]), str(o["dual"]), str(int(o["dense"])), "0"] + ent(o["W"], False)
    for g in P.gfs:
        t += ["gf", str(g["space"]), str(-1 if g["dual"] is None else g["dual"]), str(int(g["c"]))] + ent(g["data"], g["c"])
    for q in P.pots:
        t += ["pot", str(q["space"]), str(q["ncomp"]), str(q["pts"]), "0"] + ent(q["M"], False)
    for (r, u), M in P.minv.items():
        t += ["minv", str(r), str(u)] + ent(M, False)
    return t


# ------------------------------------------------------------------------------------------------
# interpreter 1: the real API

def mk_scalar(e):
    k, re, im = e[1], e[2], e[3]
    if k == "float":
        return float(re)
    if k == "complex":
        return complex(re, im)
    if k == "f64":
        return np.float64(re)
    if k == "c128":
        return np.complex128(complex(re, im))
    if k == "f32":
        return np.float32(re)
    if k == "c64":
        return np.complex64(complex(re, im))
    raise ValueError(k)


def is_scalar(x):
    return isinstance(x, (float, complex, np.generic)) and not isinstance(x, (bool, np.bool_))


def _scope_bin(x, y):
    if isinstance(x, np.ndarray) or isinstance(y, np.ndarray):
        raise Scope()
    if (isinstance(x, np.generic) and isinstance(y, list)) or (isinstance(y, np.generic) and isinstance(x, list)):
        raise Scope()


def py_eval(e, P):
    api = P.api
    from bempp_cl.api.assembly.discrete_boundary_operator import _DiscreteOperatorBase
    t = e[0]
    if t == "sc":
        return mk_scalar(e)
    if t == "op":
        return P.ops[e[1]]["obj"]
    if t == "gf":
        g = P.gfs[e[1]]
        if g["dual"] is None:
            return api.GridFunction(P.spaces[g["space"]], coefficients=g["data"].copy())
        return api.GridFunction(P.spaces[g["space"]], projections=g["data"].copy(), dual_space=P.spaces[g["dual"]])
    if t == "pot":
        return P.pots[e[1]]["obj"]
    if t in BIN:
        x = py_eval(e[1], P)
        y = py_eval(e[2], P)
        _scope_bin(x, y)
        return BIN[t](x, y)
    if t in UN:
        x = py_eval(e[1], P)
        if isinstance(x, np.ndarray):
            raise Scope()
        if t == "neg":
            return -x
        if t == "weak":
            return x.weak_form()
        if t == "strong":
            return x.strong_form()
        r = x.transpose() if t == "transpose" else x.adjoint()
        if isinstance(x, _DiscreteOperatorBase) and not isinstance(r, _DiscreteOperatorBase):
            raise NotImplementedError("scipy fallback object without to_dense")
        return r
    if t == "blk":
        if e[1] == 0 or e[2] == 0:
            raise Scope()
        return api.BlockedOperator(e[1], e[2])
    if t == "set":
        k = py_eval(e[3], P)
        o = py_eval(e[4], P)
        if isinstance(k, np.ndarray) or isinstance(o, np.ndarray):
            raise Scope()
        k[e[1], e[2]] = o
        return k
    if t == "lnil":
        return []
    if t == "lcons":
        g = py_eval(e[1], P)
        l = py_eval(e[2], P)
        if not isinstance(g, api.GridFunction) or not isinstance(l, list):
            raise Scope()
        return [g] + l
    raise ValueError(t)


def _cflag(dt):
    return np.dtype(dt).kind == "c"


def _obs_gf(g, P):
    rep = g.representation
    if rep == "dual":
        data = np.asarray(g._projections)
        dual = space_id(P, g.dual_space)
    else:
        data = np.asarray(g._coefficients)
        dual = -1
    co = np.asarray(g.coefficients)
    return (space_id(P, g.space), dual, _cflag(data.dtype), data.reshape(-1), co.reshape(-1))


def py_observe(x, P):
    api = P.api
    from bempp_cl.api.assembly.discrete_boundary_operator import _DiscreteOperatorBase
    from bempp_cl.api.assembly.boundary_operator import BoundaryOperator
    from bempp_cl.api.assembly.blocked_operator import BlockedOperatorBase
    from bempp_cl.api.assembly.potential_operator import PotentialOperator
    if is_scalar(x):
        return ("scalar", isinstance(x, (complex, np.complexfloating)), isinstance(x, np.generic), complex(x))
    if isinstance(x, (BoundaryOperator, BlockedOperatorBase)):
        x = x.weak_form()
    if isinstance(x, _DiscreteOperatorBase):
        M = np.asarray(x.to_dense())
        mv = np.asarray(x @ probe(x.shape[1])).reshape(-1)
        return ("mat", _cflag(x.dtype), x.shape[0], x.shape[1], M, mv)
    if isinstance(x, api.GridFunction):
        return ("fn",) + _obs_gf(x, P)
    if isinstance(x, list) and all(isinstance(g, api.GridFunction) for g in x):
        return ("fns", [_obs_gf(g, P) for g in x])
    if isinstance(x, PotentialOperator):
        s = x.space
        f = api.GridFunction(s, coefficients=probe(s.global_dof_count))
        v = np.asarray(x * f)
        return ("potv", _cflag(v.dtype), v.reshape(-1))
    if isinstance(x, np.ndarray) and x.dtype != object:
        return ("arr", _cflag(x.dtype), x.reshape(-1))
    raise UnknownResult(f"result of unknown kind: {x!r}"[:120])


ERRMAP = [(Scope, "out-of-scope"), (UnknownResult, "unknown-result"), (NotImplementedError, "not-implemented"), (IndexError, "index-error"),
          (AttributeError, "attribute-error"), (ValueError, "value-error"), (TypeError, "type-error"),
          (RuntimeError, "no-inverse")]


def classify(exc):
    for cls, name in ERRMAP:
        if isinstance(exc, cls):
            return name
    return "other:" + type(exc).__name__


def py_run(e, P):
    """('ok', observation, value) or ('err', enum, exception text, exception)"""
    try:
        v = py_eval(e, P)
        return ("ok", py_observe(v, P), v)
    except Exception as exc:  # noqa
        return ("err", classify(exc), f"{type(exc).__name__}: {str(exc)[:120]}", exc)


def api_of(n, P):
    if n.api is None:
        n.api = py_run(n.e, P)
    return n.api


# ------------------------------------------------------------------------------------------------
# interpreter 2: parse the model's answer

class _Tok:
    def __init__(self, s):
        self.t = s.split()
        self.i = 0

    def nxt(self):
        self.i += 1
        return self.t[self.i - 1]

    def nat(self):
        return int(self.nxt())

    def cvec(self):
        n = self.nat()
        out = np.zeros(n, dtype=complex)
        for k in range(n):
            re = F(self.nxt())
            im = F(self.nxt())
            out[k] = complex(float(re), float(im))
        return out


def parse_obs(s):
    tk = _Tok(s)
    kind = tk.nxt()
    if kind == "scalar":
        c, npf = tk.nat(), tk.nat()
        return ("scalar", bool(c), bool(npf), complex(float(F(tk.nxt())), float(F(tk.nxt()))))
    if kind == "mat":
        c, r, n, nr = tk.nat(), tk.nat(), tk.nat(), tk.nat()
        rows = [tk.cvec() for _ in range(nr)]
        mv = tk.cvec()
        M = np.array(rows) if rows else np.zeros((0, n), dtype=complex)
        return ("mat", bool(c), r, n, M, mv)

    def fn():
        s_, d, c = tk.nat(), int(tk.nxt()), tk.nat()
        data = tk.cvec()
        co = tk.cvec()
        return (s_, d, bool(c), data, co)
    if kind == "fn":
        return ("fn",) + fn()
    if kind == "fns":
        k = tk.nat()
        return ("fns", [fn() for _ in range(k)])
    if kind in ("potv", "arr"):
        c = tk.nat()
        return (kind, bool(c), tk.cvec())
    raise ValueError(kind)


def _close(a, b, mag):
    a = np.asarray(a, dtype=complex)
    b = np.asarray(b, dtype=complex)
    if a.shape != b.shape:
        return False, float("inf")
    if a.size == 0:
        return True, 0.0
    err = float(np.max(np.abs(a - b)))
    return err <= TOL * max(1.0, mag), err / max(1.0, mag)


def compare_obs(a, b, mag):
    """a: API observation, b: model observation.  Returns (ok, what, worst relative error)."""
    if a[0] != b[0]:
        return False, f"kind {a[0]} vs {b[0]}", 0.0
    k = a[0]
    worst = 0.0

    def num(x, y, what):
        nonlocal worst
        ok, e = _close(x, y, mag)
        worst = max(worst, e if e != float("inf") else 0.0)
        return None if ok else f"{what} differs (rel {e:.2e})"
    if k == "scalar":
        if a[1:3] != b[1:3]:
            return False, f"scalar flags {a[1:3]} vs {b[1:3]}", 0.0
        w = num([a[3]], [b[3]], "scalar value")
        return w is None, w, worst
    if k == "mat":
        if a[1:4] != b[1:4]:
            return False, f"dtype/shape {a[1:4]} vs {b[1:4]}", 0.0
        w = num(a[4], b[4].reshape(a[4].shape) if b[4].size == a[4].size else b[4], "to_dense") or num(a[5], b[5], "matvec")
        return w is None, w, worst

    def fn(x, y):
        if x[0:3] != y[0:3]:
            return f"grid function space/representation/dtype {x[0:3]} vs {y[0:3]}"
        return num(x[3], y[3], "stored data") or num(x[4], y[4], "coefficients")
    if k == "fn":
        w = fn(a[1:], b[1:])
        return w is None, w, worst
    if k == "fns":
        if len(a[1]) != len(b[1]):
            return False, f"list length {len(a[1])} vs {len(b[1])}", 0.0
        for x, y in zip(a[1], b[1]):
            w = fn(x, y)
            if w:
                return False, w, worst
        return True, None, worst
    if k in ("potv", "arr"):
        if a[1] != b[1]:
            return False, f"dtype flag {a[1]} vs {b[1]}", 0.0
        w = num(a[2], b[2], "values")
        return w is None, w, worst
    return False, "unknown kind", 0.0


# ------------------------------------------------------------------------------------------------
# interpreter 3: NumPy denotation written from the property statement (oracle; independent of the Lean model)

class SpecErr(Exception):
    """the combination is incompatible / undocumented: the API must raise"""


class SpecAny(Exception):
    """outside what the property speaks about"""


class SV:
    """spec value: kind + data + magnitude bound"""

    def __init__(self, kind, mag=1.0, **kw):
        self.kind = kind
        self.mag = mag
        self.__dict__.update(kw)


def _n(M):
    M = np.asarray(M)
    if M.size == 0:
        return 0.0
    return float(np.max(np.sum(np.abs(M), axis=-1))) if M.ndim == 2 else float(np.max(np.abs(M)))


def spec_leaf(e, P):
    t = e[0]
    if t == "sc":
        v = complex(e[2], e[3]) if SC_KINDS[e[1]][0] else float(e[2])
        return SV("S", abs(v), v=v, np=SC_KINDS[e[1]][1])
    if t == "op":
        o = P.ops[e[1]]
        return SV("B", _n(o["W"]), dom=o["dom"], ran=o["ran"], dual=o["dual"], W=o["W"].astype(complex), conc=True)
    if t == "gf":
        g = P.gfs[e[1]]
        if g["dual"] is None:
            c = g["data"].astype(complex)
            return SV("G", _n(c), space=g["space"], c=c, proj=None)
        pinv = np.linalg.pinv(P.mass[(g["space"], g["dual"])])
        c = pinv @ g["data"].astype(complex)
        return SV("G", _n(pinv) * _n(g["data"]), space=g["space"], c=c, proj=(g["dual"], g["data"].astype(complex)))
    if t == "pot":
        q = P.pots[e[1]]
        return SV("P", _n(q["M"]), space=q["space"], pts=q["pts"], ncomp=q["ncomp"], M=q["M"].astype(complex))
    if t == "blk":
        if e[1] == 0 or e[2] == 0:
            raise SpecAny()
        return SV("K", 0.0, arr=True, m=e[1], n=e[2], doms=[None] * e[2], rans=[None] * e[1], duals=[None] * e[1],
                  blocks={})
    if t == "lnil":
        return SV("L", 0.0, items=[])
    raise ValueError(t)


def _pinv(P, r, u):
    if (r, u) not in P.mass:
        raise SpecAny()
    return np.linalg.pinv(P.mass[(r, u)])


def _kdense(k, P):
    """big matrix of a blocked spec value (must be complete)"""
    if not k.arr:
        return k.W
    if any(s is None for s in k.doms) or any(s is None for s in k.rans):
        raise SpecErr("blocked operator has an empty row or column")
    rows = []
    for i in range(k.m):
        row = []
        for j in range(k.n):
            b = k.blocks.get((i, j))
            row.append(b if b is not None else np.zeros((P.ndofs[k.duals[i]], P.ndofs[k.doms[j]]), dtype=complex))
        rows.append(np.hstack(row))
    return np.vstack(rows)


def _scale(s, x):
    k = x.kind
    m = abs(s) * x.mag
    if k == "S":
        return SV("S", m, v=s * x.v, np=x.np)
    if k == "B":
        return SV("B", m, dom=x.dom, ran=x.ran, dual=x.dual, W=s * x.W, conc=x.conc)
    if k == "G":
        return SV("G", m, space=x.space, c=s * x.c, proj=None if x.proj is None else (x.proj[0], s * x.proj[1]))
    if k == "P":
        return SV("P", m, space=x.space, pts=x.pts, ncomp=x.ncomp, M=s * x.M)
    if k == "K":
        return SV("K", m, arr=False, doms=list(x.doms), rans=list(x.rans), duals=list(x.duals), Wf=(lambda P, x=x, s=s: s * _kw(x, P)))
    if k == "D":
        return SV("D", m, M=s * x.M, conc=x.conc)
    raise SpecErr("scalar times " + k)


def _kw(k, P):
    return _kdense(k, P) if k.arr else k.Wf(P)


def spec_apply(op, xs, P, e=None):
    """denotation of one node from the denotations of its children"""
    if any(x.kind == "A" for x in xs):
        raise SpecAny()
    if op in ("add", "sub"):
        x, y = xs
        if {x.kind, y.kind} == {"S", "L"} and (x.kind == "S" and x.np or y.kind == "S" and y.np):
            raise SpecAny()
        if x.kind != y.kind:
            raise SpecErr(f"{op} of {x.kind} and {y.kind}")
        sg = 1.0 if op == "add" else -1.0
        k = x.kind
        m = x.mag + y.mag
        if k == "S":
            return SV("S", m, v=x.v + sg * y.v, np=x.np or y.np)
        if k == "B":
            if (x.dom, x.ran, x.dual) != (y.dom, y.ran, y.dual):
                raise SpecErr("operator spaces differ")
            return SV("B", m, dom=x.dom, ran=x.ran, dual=x.dual, W=x.W + sg * y.W, conc=False)
        if k == "G":
            if x.space != y.space:
                raise SpecErr("grid function spaces differ")
            return SV("G", m, space=x.space, c=x.c + sg * y.c, proj=None)
        if k == "P":
            if (x.space, x.pts, x.ncomp) != (y.space, y.pts, y.ncomp):
                raise SpecErr("potential operators differ in space / points")
            return SV("P", m, space=x.space, pts=x.pts, ncomp=x.ncomp, M=x.M + sg * y.M)
        if k == "K":
            if (x.doms, x.rans, x.duals) != (y.doms, y.rans, y.duals):
                raise SpecErr("blocked spaces differ")
            return SV("K", m, arr=False, doms=list(x.doms), rans=list(x.rans), duals=list(x.duals),
                      Wf=(lambda P, x=x, y=y, sg=sg: _kw(x, P) + sg * _kw(y, P)))
        if k == "L":
            if op == "sub":
                raise SpecErr("list - list")
            return SV("L", m, items=x.items + y.items)
        if k == "D":
            if x.M.shape != y.M.shape:
                raise SpecErr("shapes differ")
            return SV("D", m, M=x.M + sg * y.M, conc=x.conc and y.conc and x.conc == y.conc)
    if op == "neg":
        (x,) = xs
        if x.kind == "L":
            raise SpecErr("-list")
        return _scale(-1.0, x)
    if op in ("mul", "matmul"):
        x, y = xs
        mm = op == "matmul"
        if {x.kind, y.kind} == {"S", "L"} and (x.kind == "S" and x.np or y.kind == "S" and y.np):
            raise SpecAny()
        if x.kind == "S":
            if mm:
                raise SpecErr("scalar @ x")
            if y.kind == "L":
                raise SpecErr("scalar * list")
            return _scale(x.v, y)
        if y.kind == "S":
            if x.kind == "L" or (mm and x.kind in ("G", "D")):
                raise SpecErr(f"{x.kind} {op} scalar")
            return _scale(y.v, x)
        if x.kind == "B" and y.kind == "B":
            if y.ran != x.dom:
                raise SpecErr("range of the right factor differs from the domain of the left factor")
            pinv = _pinv(P, y.ran, y.dual)
            return SV("B", x.mag * _n(pinv) * y.mag, dom=y.dom, ran=x.ran, dual=x.dual, W=x.W @ (pinv @ y.W), conc=False)
        if x.kind == "B" and y.kind == "G":
            if x.dom != y.space:
                raise SpecErr("operator domain differs from the function's space")
            pinv = _pinv(P, x.ran, x.dual)
            pr = x.W @ y.c
            return SV("G", _n(pinv) * x.mag * y.mag, space=x.ran, c=pinv @ pr, proj=(x.dual, pr), image=True)
        if x.kind == "P" and y.kind == "G":
            if x.space != y.space:
                raise SpecErr("potential operator space differs from the function's space")
            return SV("A", x.mag * y.mag, v=x.M @ y.c)
        if x.kind == "K" and y.kind == "K":
            if y.rans != x.doms:
                raise SpecErr("blocked range/domain spaces differ")

            def Wf(P, x=x, y=y):
                Wy = _kw(y, P)
                blocks = [_pinv(P, r, u) for r, u in zip(y.rans, y.duals)]
                n0 = sum(b.shape[0] for b in blocks)
                n1 = sum(b.shape[1] for b in blocks)
                D = np.zeros((n0, n1), dtype=complex)
                a = b_ = 0
                for blk in blocks:
                    D[a:a + blk.shape[0], b_:b_ + blk.shape[1]] = blk
                    a += blk.shape[0]
                    b_ += blk.shape[1]
                return _kw(x, P) @ (D @ Wy)
            return SV("K", x.mag * y.mag * 4, arr=False, doms=list(y.doms), rans=list(x.rans), duals=list(x.duals), Wf=Wf)
        if x.kind == "K" and y.kind == "L":
            if len(y.items) != len(x.doms):
                raise SpecErr("list length differs from the number of block columns")
            W = _kw(x, P)  # raises SpecErr when incomplete
            if [g.space for g in y.items] != list(x.doms):
                raise SpecErr("function spaces differ from the block column spaces")
            vec = np.concatenate([g.c for g in y.items]) if y.items else np.zeros(0, dtype=complex)
            res = W @ vec
            out, pos = [], 0
            mg_ = _n(W) * max([g.mag for g in y.items] + [0.0])
            for r, u in zip(x.rans, x.duals):
                k = P.ndofs[u]
                pinv = _pinv(P, r, u)
                pr = res[pos:pos + k]
                out.append(SV("G", _n(pinv) * mg_, space=r, c=pinv @ pr, proj=(u, pr), image=True))
                pos += k
            return SV("L", max([g.mag for g in out] + [0.0]), items=out)
        if x.kind == "D" and y.kind == "D":
            if x.M.shape[1] != y.M.shape[0]:
                raise SpecErr("inner dimensions differ")
            return SV("D", x.mag * y.mag, M=x.M @ y.M, conc=x.conc and y.conc and x.conc == y.conc)
        raise SpecErr(f"{x.kind} {op} {y.kind}")
    if op in ("weak", "strong"):
        (x,) = xs
        if x.kind == "B":
            if op == "weak":
                return SV("D", x.mag, M=x.W, conc=("leaf" if x.conc is True else False))
            pinv = _pinv(P, x.ran, x.dual)
            return SV("D", _n(pinv) * x.mag, M=pinv @ x.W, conc=False)
        if x.kind == "K":
            W = _kw(x, P)
            if op == "weak":
                return SV("D", _n(W), M=W, conc=False)
            rows = []
            pos = 0
            for r, u in zip(x.rans, x.duals):
                pinv = _pinv(P, r, u)
                k = P.ndofs[u]
                rows.append(pinv @ W[pos:pos + k, :])
                pos += k
            M = np.vstack(rows)
            return SV("D", _n(M), M=M, conc=False)
        raise SpecErr(f"{op} of {x.kind}")
    if op in ("transpose", "adjoint"):
        (x,) = xs
        if x.kind == "S":
            raise SpecAny()
        if x.kind != "D":
            raise SpecErr(f"{op} of {x.kind}")
        M = x.M.T if op == "transpose" else x.M.conj().T
        return SV("D", _n(M), M=M, conc=x.conc, may_notimpl=not x.conc)
    if op == "set":
        i, j = e[1], e[2]
        k, o = xs
        if k.kind != "K" or not k.arr or o.kind != "B":
            raise SpecErr("item assignment")
        if i >= k.m or j >= k.n:
            raise SpecErr("block index out of range")
        if k.rans[i] is not None and (k.rans[i], k.duals[i]) != (o.ran, o.dual):
            raise SpecErr("block row spaces differ")
        if k.doms[j] is not None and k.doms[j] != o.dom:
            raise SpecErr("block column space differs")
        nk = SV("K", max(k.mag, o.mag) * 2, arr=True, m=k.m, n=k.n, doms=list(k.doms), rans=list(k.rans),
                duals=list(k.duals), blocks=dict(k.blocks))
        nk.rans[i], nk.duals[i], nk.doms[j] = o.ran, o.dual, o.dom
        nk.blocks[(i, j)] = o.W
        nk.mag = 2 * sum(_n(b) for b in nk.blocks.values())
        return nk
    if op == "lcons":
        g, l = xs
        if g.kind != "G" or l.kind != "L":
            raise SpecAny()
        return SV("L", max(g.mag, l.mag), items=[g] + l.items)
    raise ValueError(op)


def spec_force(v, P):
    """force a result the way the harness observes it; raises SpecErr if that must fail"""
    if v.kind == "K":
        W = _kw(v, P)
        return SV("D", max(v.mag, _n(W)), M=W, conc=False)
    if v.kind == "B":
        return SV("D", v.mag, M=v.W, conc=False)
    return v


# ------------------------------------------------------------------------------------------------
# program generation (population of typed sub-programs, grown level by level)

class Node:
    __slots__ = ("e", "d", "val", "status", "prod", "single", "api")

    def __init__(self, e, d, val, status, prod=False, single=False):
        self.e, self.d, self.val, self.status, self.prod, self.single = e, d, val, status, prod, single
        self.api = None


def _try(op, nodes, P, e):
    try:
        return "ok", spec_apply(op, [n.val for n in nodes], P, e)
    except SpecErr:
        return "err", None
    except SpecAny:
        return "any", None


def random_scalar(rng):
    # single-precision NumPy scalars are not generated: their results depend on whether the NumPy type subclasses the
    # Python type (np.float64 / np.complex128 do, np.float32 / np.complex64 do not), which the model does not track
    k = rng.choice(["float", "complex", "f64", "c128", "float", "complex"])
    re = rng.choice([-3, -2, -1.5, -0.75, -0.5, 0.25, 0.5, 1.25, 1.5, 2, 2.5])
    im = rng.choice([-2, -1, -0.5, 0.5, 0.75, 1, 1.5]) if SC_KINDS[k][0] else 0.0
    return ("sc", k, float(re), float(im))


def generate_programs(ctx, P, maxdepth, per_level):
    rng = ctx.rng
    leaves = [("op", i) for i in range(len(P.ops))] + [("gf", i) for i in range(len(P.gfs))] + \
             [("pot", i) for i in range(len(P.pots))] + [random_scalar(rng) for _ in range(10)] + [("lnil",)]
    well = [[Node(e, 0, spec_leaf(e, P), "ok") for e in leaves]]
    ill, anys = [], []

    def pick(maxd, kinds=None):
        for _ in range(30):
            lvl = rng.randrange(0, maxd + 1)
            if well[lvl]:
                n = rng.choice(well[lvl])
                if kinds is None or n.val.kind in kinds:
                    return n
        return rng.choice(well[0])

    def array_literal(d, broken):
        """BlockedOperator array literal from operator nodes of depth < d"""
        m, n = rng.choice([(1, 1), (2, 2), (2, 2), (1, 2), (2, 1), (3, 2)] if ctx.thorough else [(1, 1), (2, 2), (2, 2), (1, 2), (2, 1)])
        bs = [x for lvl in well[:d] for x in lvl if x.val.kind == "B"]
        rows = [rng.choice(bs) for _ in range(m)]
        cols = [rng.choice(bs) for _ in range(n)]
        k = ("blk", m, n)
        kn = Node(k, 0, spec_leaf(k, P), "ok")
        cells = [(i, j) for i in range(m) for j in range(n)]
        rng.shuffle(cells)
        placed = 0
        for (i, j) in cells:
            want = (cols[j].val.dom, rows[i].val.ran, rows[i].val.dual)
            cand = [x for x in bs if (x.val.dom, x.val.ran, x.val.dual) == want]
            if broken and placed >= 1 and rng.random() < 0.4:
                cand = [x for x in bs if (x.val.dom, x.val.ran, x.val.dual) != want] or cand
            elif not cand or (rng.random() < 0.35 and not broken):
                continue
            o = rng.choice(cand)
            e = ("set", i, j, kn.e, o.e)
            st, val = _try("set", [kn, o], P, e)
            nn = Node(e, max(kn.d, o.d + 1), val, st, prod=kn.prod or o.prod, single=(st == "err" and kn.status == "ok"))
            if st != "ok":
                return nn
            kn = nn
            placed += 1
        return kn

    def list_literal(d, spaces=None):
        gs = [x for lvl in well[:d] for x in lvl if x.val.kind == "G"]
        k = rng.randrange(0, 4) if spaces is None else len(spaces)
        ln = Node(("lnil",), 0, spec_leaf(("lnil",), P), "ok")
        for idx in reversed(range(k)):
            cand = gs if spaces is None else ([g for g in gs if g.val.space == spaces[idx]] or gs)
            g = rng.choice(cand)
            e = ("lcons", g.e, ln.e)
            st, val = _try("lcons", [g, ln], P, e)
            ln = Node(e, max(g.d + 1, ln.d), val, st, prod=g.prod or ln.prod)
        return ln

    for d in range(1, maxdepth + 1):
        well.append([])
        attempts = 0
        while len(well[d]) < per_level and attempts < per_level * 12:
            attempts += 1
            r = rng.random()
            if r < 0.10:
                nn = array_literal(d, broken=rng.random() < 0.2)
            elif r < 0.14:
                nn = list_literal(d)
            elif r < 0.30:
                op = rng.choice(["neg", "neg", "weak", "strong", "transpose", "adjoint"])
                x = rng.choice(well[d - 1])
                if op in ("weak", "strong") and rng.random() < 0.8:
                    x = pick(d - 1, ("B", "K"))
                if op in ("transpose", "adjoint") and rng.random() < 0.8:
                    x = pick(d - 1, ("D",))
                e = (op, x.e)
                st, val = _try(op, [x], P, e)
                nn = Node(e, x.d + 1, val, st, prod=x.prod, single=(st == "err"))
            else:
                op = rng.choice(["add", "sub", "mul", "mul", "mul", "matmul"])
                x = rng.choice(well[d - 1])
                want_ok = rng.random() < 0.8
                y = pick(d - 1)
                if x.val.kind == "K" and op in ("mul", "matmul") and rng.random() < 0.5 and x.val.doms and None not in x.val.doms:
                    y = list_literal(d, spaces=list(x.val.doms) if want_ok else None)
                for _ in range(14 if want_ok else 1):
                    swap = rng.random() < 0.5
                    a, b = (y, x) if swap else (x, y)
                    e = (op, a.e, b.e)
                    st, val = _try(op, [a, b], P, e)
                    if st == "ok" or not want_ok:
                        break
                    y = pick(d - 1)
                is_prod = op in ("mul", "matmul") and a.val.kind == b.val.kind and a.val.kind in ("B", "K", "D")
                nn = Node(e, 1 + max(a.d, b.d), val, st, prod=a.prod or b.prod or (is_prod and st == "ok"), single=(st == "err"))
            if nn.d > maxdepth:
                continue
            if nn.status == "ok":
                well[min(nn.d, d)].append(nn) if nn.d <= d else None
            elif nn.status == "err":
                ill.append(nn)
            else:
                anys.append(nn)
    # ill-typed programs whose failing node sits below the root
    wrapped = []
    for n in ill:
        if rng.random() < 0.3 and n.d < maxdepth:
            s = pick(min(n.d, maxdepth - 1))
            op = rng.choice(["add", "mul", "sub"])
            e = (op, n.e, s.e) if rng.random() < 0.5 else (op, s.e, n.e)
            wrapped.append(Node(e, 1 + max(n.d, s.d), None, "err", single=n.single))
    return well, ill + wrapped, anys



def _opi(P, d, r, u, dense=False):
    for i, o in enumerate(P.ops):
        if (o["dom"], o["ran"], o["dual"], o["dense"]) == (d, r, u, dense) and o["kind"] != "ida":
            return ("op", i)
    return None


def _mk(e, P):
    """Node of a hand-written expression (typed by the NumPy denotation)"""
    try:
        return Node(e, depth(e), spec_eval(e, P), "ok")
    except SpecErr:
        return Node(e, depth(e), None, "err", single=False)
    except SpecAny:
        return Node(e, depth(e), None, "any")


def _arr(m, n, cells):
    k = ("blk", m, n)
    for (i, j, o) in cells:
        k = ("set", i, j, k, o)
    return k


def _lst(items):
    l = ("lnil",)
    for g in reversed(items):
        l = ("lcons", g, l)
    return l


def catalogue(ctx, P):
    """Every documented combination and every kind / space mismatch at least once: all unary operations on, and all
    binary operations between, a basis of building blocks (all leaves, block arrays incl. empty blocks, incomplete arrays,
    rows whose range and dual spaces have different dof counts, lists, discrete operators of every class, lazy operators)."""
    o000, o111, o011, o100, o001 = (_opi(P, *t) for t in [(0, 0, 0), (1, 1, 1), (0, 1, 1), (1, 0, 0), (0, 0, 1)])
    o002, o022, o200, o222, o333 = (_opi(P, *t) for t in [(0, 0, 2), (0, 2, 2), (2, 0, 0), (2, 2, 2), (3, 3, 3)])
    dense = _opi(P, 1, 1, 1, dense=True)
    gf = lambda i: ("gf", i)  # noqa
    sc = [("sc", "float", 1.5, 0.0), ("sc", "complex", 0.5, -1.0), ("sc", "f64", -2.0, 0.0), ("sc", "c128", 0.25, 0.75)]
    K1 = _arr(1, 1, [(0, 0, o000)])
    K2 = _arr(2, 2, [(0, 0, o000), (1, 1, o111)])
    K3 = _arr(2, 2, [(0, 0, o000), (0, 1, o100), (1, 0, o011), (1, 1, o111)])
    K4 = _arr(1, 1, [(0, 0, o002)])
    K5 = _arr(2, 1, [(0, 0, o002), (1, 0, o011)])
    K6 = _arr(2, 2, [(0, 0, o000)])
    K7 = _arr(1, 2, [(0, 0, o000), (0, 1, o100)])
    K8 = _arr(2, 2, [(0, 0, o000), (1, 1, dense)])
    exprs = [("op", i) for i in range(len(P.ops))] + [gf(i) for i in range(len(P.gfs))] + \
            [("pot", i) for i in range(len(P.pots))] + sc
    if ctx.thorough:
        exprs += [K1, K2, K3, K4, K5, K6, K7, K8, ("add", K2, K2), ("mul", sc[1], K2), ("mul", K2, K3), ("blk", 2, 2)]
        exprs += [_lst([]), _lst([gf(0)]), _lst([gf(1), gf(3)]), _lst([gf(2), gf(0)]), _lst([gf(0), gf(2)]),
                  _lst([gf(7), gf(8)]), _lst([gf(0), gf(1), gf(2)])]
        exprs += [("weak", o000), ("weak", dense), ("strong", o000), ("weak", K2), ("weak", o200), ("weak", o022),
                  ("weak", o111), ("strong", K2), ("mul", sc[1], ("weak", dense)), ("add", ("weak", o000), ("weak", o000)),
                  ("add", ("weak", o111), ("weak", dense))]
        exprs += [("add", o000, o000), ("mul", sc[0], o000), ("mul", o000, o000), ("mul", o001, o000), ("mul", o011, o100),
                  ("add", ("pot", 0), ("pot", 1)), ("mul", sc[1], ("pot", 0)), ("mul", o000, gf(0)), ("mul", o001, gf(1)),
                  ("mul", o002, gf(0)), ("mul", ("pot", 0), gf(2))]
    else:
        exprs += [K2, K3, K4, K5, K6, ("add", K2, K2), ("mul", K2, K3)]
        exprs += [_lst([]), _lst([gf(0)]), _lst([gf(2), gf(0)]), _lst([gf(0), gf(2)])]
        exprs += [("weak", o000), ("weak", dense), ("strong", o000), ("weak", K2), ("weak", o200)]
        exprs += [("mul", sc[1], o000), ("mul", o001, o000), ("add", ("pot", 0), ("pot", 1)), ("mul", o002, gf(0))]
    # complex SPARSE discrete operators (a complex scalar times a sparse weak form stays sparse): their transposes and adjoints
    # differ (seeded change C14-c dropped the conjugate of SparseDiscreteBoundaryOperator._adjoint; no basis element was a
    # complex sparse operator, and adjoint(complex * weak(sparse)) has depth 3)
    exprs += [("mul", sc[1], ("weak", o000)), ("weak", ("mul", sc[3], o001)),
              ("add", ("weak", o000), ("mul", sc[1], ("weak", o000)))]
    if not ctx.thorough:
        # quick tier: one representative per (kind, spaces, class) among the plain leaves
        keep, seen = [], set()
        for e in exprs:
            sig = None
            if e[0] == "op":
                o = P.ops[e[1]]
                sig = ("op", o["dom"], o["ran"], o["dual"], o["dense"], o["kind"] == "ida")
            elif e[0] == "gf":
                g = P.gfs[e[1]]
                sig = ("gf", g["space"], g["dual"])
            elif e[0] == "pot":
                q = P.pots[e[1]]
                sig = ("pot", q["space"], q["pts"])
            elif e[0] == "sc":
                sig = ("sc", SC_KINDS[e[1]])
            if sig is not None:
                if sig in seen:
                    continue
                seen.add(sig)
            keep.append(e)
        exprs = keep
    basis = [n for n in (_mk(e, P) for e in exprs if e is not None and None not in e) if n.status == "ok"]
    out = []
    for x in basis:
        for op in UN:
            e = (op, x.e)
            st, val = _try(op, [x], P, e)
            out.append(Node(e, x.d + 1, val, st, prod=False, single=(st == "err")))
    for x in basis:
        for y in basis:
            for op in BIN:
                e = (op, x.e, y.e)
                st, val = _try(op, [x, y], P, e)
                is_prod = st == "ok" and op in ("mul", "matmul") and x.val.kind == y.val.kind and x.val.kind in ("B", "K", "D")
                out.append(Node(e, 1 + max(x.d, y.d), val, st, prod=is_prod, single=(st == "err")))
    # item assignment: every basis element into every block array at a few positions, an operator into everything
    for k in basis:
        for o in basis:
            if k.val.kind != "K" and o.e != o000:
                continue
            for (i, j) in [(0, 0), (1, 1), (2, 0), (0, 2)] if k.val.kind == "K" else [(0, 0)]:
                e = ("set", i, j, k.e, o.e)
                st, val = _try("set", [k, o], P, e)
                out.append(Node(e, max(k.d, o.d + 1), val, st, single=(st == "err")))
    return basis, out


def select_programs(ctx, P):
    maxdepth = ctx.pick(5, 8)
    per_level = ctx.pick(70, 160)
    basis, cat = catalogue(ctx, P)
    well, ill, anys = generate_programs(ctx, P, maxdepth, per_level)
    rng = ctx.rng
    progs = list(basis) + cat
    for d, lvl in enumerate(well):
        if d == 0:
            progs += [n for n in lvl if n.e[0] != "sc"][:40]
        else:
            progs += lvl
    rng.shuffle(ill)
    progs += ill[:ctx.pick(160, 700)]
    progs += anys[:ctx.pick(20, 80)]
    # distinct programs only
    seen, out = set(), []
    for n in progs:
        k = " ".join(tokens(n.e))
        if k not in seen:
            seen.add(k)
            out.append(n)
    return out, maxdepth


# ------------------------------------------------------------------------------------------------
# correspondence: real API vs Lean model

def _mag_of(n, P):
    if n.val is None:
        return 1.0
    try:
        return max(1.0, spec_force(n.val, P).mag, n.val.mag)
    except Exception:  # noqa
        return max(1.0, n.val.mag)


def correspondence(ctx):
    res = Result()
    build_driver()
    P = build_pool(ctx)
    ctx.log(f"pool: {len(P.ops)} operators, {len(P.gfs)} grid functions, {len(P.pots)} potential operators, "
            f"{len(P.minv)} inverse mass matrices")
    progs, maxdepth = select_programs(ctx, P)
    ctx._c14_progs = progs
    ptoks = pool_tokens(P)
    line = " ".join(["alg"] + ptoks + [w for n in progs for w in ["prog"] + tokens(n.e)])
    ans = run_driver([line])[0]
    if ans.startswith("err"):
        res.disagree("driver rejected the request", answer=ans[:200])
        return res
    items = ans.split(" | ")
    if len(items) != len(progs):
        res.disagree("driver answered a different number of programs", got=len(items), want=len(progs))
        return res
    worst = 0.0
    hist = {}
    for n, item in zip(progs, items):
        chk, _, runres = item.partition(" # ")
        chk, runres = chk.strip(), runres.strip()
        key = " ".join(tokens(n.e))
        py = api_of(n, P)
        m_ok = runres.startswith("ok")
        if chk.split()[:1] != runres.split()[:1] or (not m_ok and chk != runres):
            res.disagree("model: typecheck verdict differs from evaluation verdict", program=key, check=chk, run=runres[:80])
        welltyped = n.status == "ok"
        nontriv = (welltyped and n.d >= 3 and n.prod and has_complex_scalar(n.e)) or (n.status == "err" and n.single)
        res.case(key, nontrivial=nontriv,
                 sample=dict(program=key[:300], depth=n.d, spec=n.status, api=py[0] if py[0] == "ok" else py[1],
                             model=runres[:40]) if (nontriv and n.d >= 3) else None)
        hist[(n.status, py[0])] = hist.get((n.status, py[0]), 0) + 1
        if py[0] == "err":
            if m_ok or runres != "err " + py[1]:
                res.disagree("accept/reject or exception class differs", program=key, api=py[1], api_text=py[2], model=runres[:80])
            continue
        if not m_ok:
            res.disagree("accept/reject differs", program=key, api="ok " + py[1][0], model=runres[:80])
            continue
        try:
            mo = parse_obs(runres[3:])
        except Exception as exc:  # noqa
            res.disagree("unparsable model answer", program=key, error=str(exc), model=runres[:80])
            continue
        ok, what, w = compare_obs(py[1], mo, _mag_of(n, P))
        worst = max(worst, w)
        if not ok:
            res.disagree("result differs: " + str(what), program=key, depth=n.d)
    res.stats["corr_worst_rel_error"] = worst
    res.stats["corr_max_depth"] = maxdepth
    res.stats["corr_programs"] = len(progs)
    res.stats["corr_spec_vs_api"] = {f"{a}/{b}": c for (a, b), c in sorted(hist.items())}
    res.stats["corr_request_bytes"] = len(line)
    # application of the discrete blocked operators (Model/Blocked.lean; theorems in Props/C15Blocked.lean), exact comparison
    from props import c15_blocked
    try:
        c15_blocked.run(ctx, res)
    except Exception as exc:  # noqa: BLE001
        res.disagree("blocked-operator correspondence raised", error=repr(exc)[:300])
    return res


# ------------------------------------------------------------------------------------------------
# oracle: the real API against the NumPy denotation

KNOWN_KEYS = {
    ("mul", "P", "G"): "potential-apply-no-space-check",
    ("matmul", "P", "G"): "potential-apply-no-space-check",
    ("mul", "K", "L"): "blocked-apply-no-space-check",
    ("matmul", "K", "L"): "blocked-apply-no-space-check",
}


def _root_sig(n):
    """(op, kinds of the children) of the failing / root node, for stable counterexample keys"""
    return n.e[0]


def _kinds(e, P):
    out = []
    for x in e[1:]:
        if isinstance(x, tuple):
            try:
                out.append(spec_eval(x, P).kind)
            except Exception:  # noqa
                out.append("?")
    return out


def spec_eval(e, P):
    t = e[0]
    if t in ("sc", "op", "gf", "pot", "blk", "lnil"):
        return spec_leaf(e, P)
    kids = [spec_eval(x, P) for x in e[1:] if isinstance(x, tuple)]
    return spec_apply(t, kids, P, e)


def find_failing_node(e, P):
    """innermost node at which the denotation raises SpecErr"""
    for x in e[1:]:
        if isinstance(x, tuple):
            try:
                spec_eval(x, P)
            except SpecErr:
                return find_failing_node(x, P)
            except SpecAny:
                return None
    return e


def judge(e, P, memo, api=None):
    """Compare the real API with the NumPy denotation on ONE program.
    Returns (verdict, detail, magnitude-relative error); verdict is one of
      ok / rejected (both agree), skip (outside the property), notimpl (transpose of a lazy discrete operator),
      accepts (incompatible combination returns numbers), unknown (returns an object instead of raising),
      raises (documented combination raises), wrong (numbers differ from the plain NumPy expression)."""
    key = " ".join(tokens(e))
    if key in memo:
        return memo[key]

    def done(v, detail="", err=0.0):
        memo[key] = (v, detail, err)
        return memo[key]
    try:
        sv = spec_force(spec_eval(e, P), P)
        spec = "ok"
    except SpecErr:
        spec, sv = "err", None
    except SpecAny:
        return done("skip")
    r = api if api is not None else py_run(e, P)
    if r[0] == "err" and isinstance(r[3], Scope):
        return done("skip")
    api_ok = r[0] == "ok"
    exc = None if api_ok else r[3]
    if spec == "err":
        if isinstance(exc, UnknownResult):
            return done("unknown", str(exc)[:100])
        if api_ok:
            return done("accepts", f"the API returns {r[1][0]} instead of raising")
        return done("rejected")
    if not api_ok:
        if isinstance(exc, NotImplementedError) and any(t in key.split() for t in ("transpose", "adjoint")):
            return done("notimpl")   # lazy discrete operators have no transpose / adjoint in the API (see ASSUMPTIONS)
        return done("raises", f"{type(exc).__name__}: {str(exc)[:100]}")
    obs, v = r[1], r[2]
    mag = max(1.0, sv.mag)
    worst, bad = 0.0, None

    def cmp(a, b, what):
        nonlocal worst, bad
        ok, e_ = _close(a, b, mag)
        if e_ != float("inf"):
            worst = max(worst, e_)
        if not ok and bad is None:
            bad = f"{what} (rel {e_:.2e})"
    if sv.kind == "S":
        cmp([obs[3]], [sv.v], "scalar value")
    elif sv.kind == "D":
        if obs[0] != "mat":
            bad = f"result kind {obs[0]}"
        else:
            cmp(obs[4], sv.M, "to_dense vs NumPy expression")
            cmp(obs[5], sv.M @ probe(sv.M.shape[1]), "matvec on a complex vector vs NumPy expression")
            from bempp_cl.api.assembly.discrete_boundary_operator import _DiscreteOperatorBase
            d = v if isinstance(v, _DiscreteOperatorBase) else v.weak_form()
            X = np.column_stack([probe(sv.M.shape[1]), np.real(probe(sv.M.shape[1])) * 2])
            try:
                cmp(np.asarray(d @ X), sv.M @ X, "matmat vs NumPy expression")
            except Exception as ex_:  # noqa  a well-typed discrete operator must accept an (n, k) array
                bad = bad or f"matmat with an (n, 2) array raises {type(ex_).__name__}: {str(ex_)[:120]}"
            xr = np.real(probe(sv.M.shape[1]))
            try:
                cmp(np.asarray(d @ xr).reshape(-1), sv.M @ xr, "matvec on a real vector vs NumPy expression")
            except Exception as ex_:  # noqa
                bad = bad or f"matvec with a real vector raises {type(ex_).__name__}: {str(ex_)[:120]}"
    elif sv.kind == "G":
        if obs[0] != "fn":
            bad = f"result kind {obs[0]}"
        else:
            if obs[1] != sv.space:
                bad = f"result space {obs[1]} instead of {sv.space}"
            cmp(obs[5], sv.c, "coefficients vs NumPy expression")
            if getattr(sv, "image", False):
                if obs[2] != sv.proj[0]:
                    bad = bad or f"image is not given by projections onto the dual space ({obs[2]} vs {sv.proj[0]})"
                else:
                    cmp(obs[4], sv.proj[1], "projections of the image vs W c")
    elif sv.kind == "L":
        if obs[0] != "fns" or len(obs[1]) != len(sv.items):
            bad = f"result kind/length {obs[0]}"
        else:
            for o, g in zip(obs[1], sv.items):
                if o[0] != g.space:
                    bad = bad or f"result space {o[0]} instead of {g.space}"
                cmp(o[4], g.c, "coefficients of a list entry vs NumPy expression")
                if getattr(g, "image", False) and o[1] == g.proj[0]:
                    cmp(o[3], g.proj[1], "projections of a blocked image vs slices of W c")
    elif sv.kind == "P":
        cmp(obs[2], sv.M @ probe(sv.M.shape[1]), "potential applied to the probe vs NumPy expression")
    elif sv.kind == "A":
        cmp(obs[2], sv.v, "potential values vs NumPy expression")
    if bad:
        return done("wrong", bad, worst)
    return done("ok", "", worst)


FAIL = ("accepts", "unknown", "raises", "wrong")


def shrink(e, P, memo):
    """smallest sub-program on which the API still fails (root cause of a failing program)"""
    for x in e[1:]:
        if isinstance(x, tuple) and judge(x, P, memo)[0] in FAIL:
            return shrink(x, P, memo)
    return e


def cex_key(verdict, e, P):
    f = (find_failing_node(e, P) or e) if verdict in ("accepts", "unknown") else e
    kinds = _kinds(f, P)
    sig = f[0] + ":" + ":".join(kinds)
    if verdict == "accepts":
        return KNOWN_KEYS.get((f[0],) + tuple(kinds), "accepts-incompatible:" + sig), f, kinds
    if verdict == "unknown":
        if f[0] in ("add", "sub") and kinds[:1] == ["K"]:
            return "blocked-add-notimplementederror", f, kinds
        return "returns-object-instead-of-raising:" + sig, f, kinds
    if f[0] in ("add", "sub") and kinds == ["P", "P"]:
        return "potential-operator-sum", f, kinds
    if f[0] in ("mul", "matmul") and kinds == ["K", "L"]:
        return "blocked-projections-slice", f, kinds
    return ("raises:" if verdict == "raises" else "wrong-numbers:") + sig, f, kinds


def oracle(ctx, budget=None):
    res = Result()
    P = build_pool(ctx)
    progs = getattr(ctx, "_c14_progs", None)
    if progs is None or budget:
        progs, _ = select_programs(ctx, P)
    worst = 0.0
    counts = dict(ok=0, rejected=0, skip=0, notimpl=0, failing=0)
    memo = {}
    for n in progs:
        verdict, detail, err = judge(n.e, P, memo, api=api_of(n, P))
        if verdict == "skip":
            counts["skip"] += 1
            continue
        res.case(("oracle", " ".join(tokens(n.e))), nontrivial=False)
        worst = max(worst, err)
        if verdict not in FAIL:
            counts[verdict] += 1
            continue
        counts["failing"] += 1
        root = shrink(n.e, P, memo)
        verdict, detail, _ = judge(root, P, memo)
        k, f, kinds = cex_key(verdict, root, P)
        what = {"accepts": f"incompatible combination `{f[0]}` of {kinds} is not rejected: {detail}",
                "unknown": f"incompatible combination `{f[0]}` of {kinds} does not raise: {detail}",
                "raises": f"documented combination `{f[0]}` of {kinds} raises {detail}",
                "wrong": f"`{f[0]}` of {kinds}: {detail}"}[verdict]
        res.counterexample(k, what, program=" ".join(tokens(root))[:400], found_in=" ".join(tokens(n.e))[:300])
    res.stats["oracle_worst_rel_error"] = worst
    res.stats["oracle_counts"] = counts
    return res


def search(ctx, broken):
    """failing-input search when a proof or the correspondence broke: the oracle on a fresh, larger set of programs"""
    if hasattr(ctx, "_c14_progs"):
        del ctx._c14_progs
    return oracle(ctx, budget=True)


def generate(ctx):
    return {}


LEVEL_TEXT = ("Lean 4 theorems by structural induction over expression trees of unbounded depth about a hand model of the "
              "operator algebra (lazy sum/scaled/product operators, discrete class dispatch, by-parts application, blocked "
              "operators, grid functions in primal/dual representation, potential operators): a program is accepted by the "
              "model interpreter exactly when it type-checks, with the same exception class otherwise; every value it "
              "produces equals the plain matrix/vector denotation; to_dense agrees with matvec; products are weak form x "
              "inverse mass x weak form; the offset loops that apply discrete blocked and generalized blocked operators "
              "compute the product with to_dense() for every block layout (Model/Blocked.lean).  The model is compared "
              "with the real API on random programs (and, for the blocked products, exactly on dyadic data) on every run.")
LEVEL_NOTE = ("full on the model; the tie to /repo is differential (random programs, depth <= 5 quick / 8 thorough). Trusted: "
              "Lean kernel, hand model Model/Alg.lean, harness; inverse mass matrices are pool data; IEEE rounding not modelled.")
TECHNIQUE = "Lean 4 proof (structural induction over an expression language) + differential correspondence + NumPy oracle"
