"""C02 numerical oracle: the Laplace potential operators reproduce Green's representation formula.

Checked on the REAL code (bempp_cl.api.operators.potential.laplace) for closed, outward oriented polyhedra built from
vlib/meshgen.py (uniformly refined 1 -> 4 here so that interior points one element diameter away from the surface exist)
and affine u(x) = a.(x - c) + b:

    R(x) := single_layer_potential[psi](x) - double_layer_potential[g](x)  =  u(x)   x strictly inside
                                                                            =  0      x strictly outside
    g   = vertex values of u  (P1 coefficients),   psi = element values of a.n  (DP0 coefficients),  n = grid.normals

Evaluation points: at least ONE element diameter h (= longest edge of the mesh) away from the surface; the distance is
computed here (closest point on every triangle) and inside / outside is decided by the solid-angle winding number
(Van Oosterom-Strackee), both independent of the code under test.  Error measure: |R(x) - expected| / max_vertices |u|.
Order ladder: regular orders LADDER (8, 10, 12, 14; thorough also 4, 6 below them as extra decay rungs).  Criteria
(calibrated on /repo, see the `worst_*` / `margin_*` stats):

  * every order >= 8:  error <= ORDER_BOUND[order]    (1e-6 of the statement at 8 and 10, the calibrated 1e-8 above)
  * ladder:            worst error over the point set at order p+2 <= DECAY * the one at order p unless <= FLOOR
  * lower rungs 4, 6 (thorough): calibrated looser bounds, same decay rule

Variants (key part `variant`):
  whole          whole-grid spaces P1 / DP0
  whole-dp1      g in whole-grid DP1 (coefficient = vertex value of the element's own corner)
  seg-trunc      the grid gets 2-3 domain indices; for every index i:  P1(segments=[i], include_boundary_dofs=True,
                 truncate_at_segment_edge=True) and DP0(segments=[i]); the truncated hat functions of the pieces add up
                 to the global hat functions, so the piece coefficients are the vertex values and
                 sum_i (SLP_i[psi_i] - DLP_i[g_i]) = R
  seg-compl      indices split into A | B:  P1(segments=A, include_boundary_dofs=True, truncate_at_segment_edge=False)
                 (all vertices of the closure of A with their FULL hat functions) plus P1(segments=B,
                 include_boundary_dofs=False) (vertices all of whose neighbours lie in B): every vertex exactly once
  seg-dp1        DP1(segments=[i]) pieces for g
  swapped-pieces seg-trunc pieces built with swapped_normals=S (a set of domain indices).  The space's normal is
                 n~ = s n with s = -1 on S, +1 elsewhere; the double layer of such a space is DLP~[g] = DLP[s g] and the
                 Neumann datum with respect to the space's normal is psi~ = a.n~ = s psi (the single layer does not use
                 normals).  Expected relation:   sum_i s_i (SLP_i[psi~_i] - DLP~_i[g_i]) = u inside / 0 outside
  swapped-all    whole-grid spaces with every domain index swapped (inward normals):
                 SLP[psi~] - DLP~[g] = -u inside / 0 outside
  swapped-dp1    whole-grid DP1 with swapped_normals=S and the density s g:  SLP[psi] - DLP~[s g] = u inside / 0 outside
  In all swapped variants SLP on a swapped DP0 space must equal SLP on the plain one (side check, 1e-13).

Cost: the two potential kernels (DP0 single layer, P1/DP1 double layer) are the only Numba specialisations; after them a
mesh costs 1-5 s single-threaded (numba.set_num_threads(VERIF_ORACLE_THREADS, default 1): more threads are slower on a
busy machine).  The budget (C02_ORACLE_BUDGET_S) is CPU time with the first mesh (compilation) not charged.

Non-trivial case (Appendix C): point within 2 diameters of the surface and not on a symmetry plane (all meshes are
perturbed or the point is random, so the second condition is met whenever the point comes from ctx.rng).

Stand-alone:  cd /verif && PYTHONPATH=/verif /venv/bin/python -m props.c02_oracle quick 0 [deep] [cal]
"""
import math
import os
import sys
import time

import numpy as np

from vlib import meshgen
from vlib.common import Ctx, Result
from props.c01_oracle import base_mesh, check_closed_outward, max_edge, min_edge

LADDER = [8, 10, 12, 14]
LOW_RUNGS = [4, 6]
ORDER_BOUND = {4: 5e-4, 6: 2e-5, 8: 1e-6, 10: 1e-6, 12: 1e-8, 14: 1e-8}   # worst seen: 3.9e-5 1.1e-6 3.9e-8 8.3e-10 2.2e-10 5.0e-12
DECAY = 0.7
# the decay rule applies only while the error is above FLOOR.  It was 2e-11, ten times the worst error seen at order 12 in
# calibration; a quick run with VERIF_SEED=3 then met a coarse two-component mesh whose error went 4.4e-11 -> 3.6e-11 from order
# 10 to 12 (five orders of magnitude below the property's tolerance) and raised a FALSE alarm: the property says the error is
# quadrature error below the stated tolerance, not that it keeps shrinking geometrically at the 1e-11 level, where the
# convergence of the near-singular integrals of close non-adjacent pairs is slower.  The absolute bounds per order stay.
FLOOR = 1e-9
SIDE_TOL = 1e-13
MIN_DIST = 1.0          # in units of h
NEAR = 2.0              # "within 2 diameters": non-trivial


# ------------------------------------------------------------------------------------------------------------ geometry

def refine(V, E, D=None, times=1):
    """Uniform 1 -> 4 refinement (orientation and domain index inherited)."""
    V = np.asarray(V, float)
    E = np.asarray(E, np.int64)
    for _ in range(times):
        verts = [V[:, j] for j in range(V.shape[1])]
        mid = {}

        def midpoint(a, b):
            key = (min(a, b), max(a, b))
            if key not in mid:
                mid[key] = len(verts)
                verts.append(0.5 * (verts[a] + verts[b]))
            return mid[key]

        newE, newD = [], []
        for j in range(E.shape[1]):
            a, b, c = (int(E[i, j]) for i in range(3))
            ab, bc, ca = midpoint(a, b), midpoint(b, c), midpoint(c, a)
            newE += [[a, ab, ca], [ab, b, bc], [ca, bc, c], [ab, bc, ca]]
            if D is not None:
                newD += [D[j]] * 4
        V = np.array(verts).T
        E = np.array(newE, dtype=np.int64).T
        if D is not None:
            D = np.array(newD)
    return (V, E.astype(np.uint32)) if D is None else (V, E.astype(np.uint32), D)


def tri_arrays(V, E):
    return tuple(V[:, E[i, :].astype(int)].T.copy() for i in range(3))   # each (ne, 3)


def winding_number(P, V, E):
    """Solid-angle winding number of the oriented surface about the columns of P (1 inside an outward oriented surface)."""
    p0, p1, p2 = tri_arrays(V, E)
    out = np.zeros(P.shape[1])
    for k in range(P.shape[1]):
        a, b, c = p0 - P[:, k], p1 - P[:, k], p2 - P[:, k]
        la, lb, lc = (np.linalg.norm(x, axis=1) for x in (a, b, c))
        num = np.einsum("ij,ij->i", a, np.cross(b, c))
        den = la * lb * lc + np.einsum("ij,ij->i", a, b) * lc + np.einsum("ij,ij->i", a, c) * lb \
            + np.einsum("ij,ij->i", b, c) * la
        out[k] = np.sum(2.0 * np.arctan2(num, den)) / (4.0 * math.pi)
    return out


def dist_to_surface(P, V, E):
    """Exact distance from each column of P to the union of the triangles (Ericson's closest point on a triangle)."""
    A, B, C = tri_arrays(V, E)
    out = np.zeros(P.shape[1])
    for k in range(P.shape[1]):
        p = P[:, k]
        ab, ac, ap = B - A, C - A, p - A
        d1 = np.einsum("ij,ij->i", ab, ap)
        d2 = np.einsum("ij,ij->i", ac, ap)
        bp = p - B
        d3 = np.einsum("ij,ij->i", ab, bp)
        d4 = np.einsum("ij,ij->i", ac, bp)
        cp = p - C
        d5 = np.einsum("ij,ij->i", ab, cp)
        d6 = np.einsum("ij,ij->i", ac, cp)
        vc = d1 * d4 - d3 * d2
        vb = d5 * d2 - d1 * d6
        va = d3 * d6 - d5 * d4
        n = len(d1)
        Q = np.zeros((n, 3))
        done = np.zeros(n, dtype=bool)

        def put(mask, pts):
            m = mask & ~done
            Q[m] = pts[m]
            done[m] = True

        put((d1 <= 0) & (d2 <= 0), A)
        put((d3 >= 0) & (d4 <= d3), B)
        with np.errstate(divide="ignore", invalid="ignore"):
            v = np.where(d1 - d3 != 0, d1 / (d1 - d3), 0.0)
            put((vc <= 0) & (d1 >= 0) & (d3 <= 0), A + v[:, None] * ab)
            put((d6 >= 0) & (d5 <= d6), C)
            w = np.where(d2 - d6 != 0, d2 / (d2 - d6), 0.0)
            put((vb <= 0) & (d2 >= 0) & (d6 <= 0), A + w[:, None] * ac)
            den = (d4 - d3) + (d5 - d6)
            w2 = np.where(den != 0, (d4 - d3) / den, 0.0)
            put((va <= 0) & ((d4 - d3) >= 0) & ((d5 - d6) >= 0), B + w2[:, None] * (C - B))
            s = va + vb + vc
            vv = np.where(s != 0, vb / s, 0.0)
            ww = np.where(s != 0, vc / s, 0.0)
            put(np.ones(n, dtype=bool), A + vv[:, None] * ab + ww[:, None] * ac)
        out[k] = float(np.min(np.linalg.norm(Q - p, axis=1)))
    return out


# -------------------------------------------------------------------------------------------------------------- meshes

# name -> (base mesh of c01_oracle.base_mesh, refinements): h <= about half the inner width, 80 - 1024 elements
MESHES = {
    "cube3": ("cube3", 0), "cube4": ("cube4", 0), "cube2r": ("cube2", 1),
    "tetrahedron-r3": ("tetrahedron", 3), "octahedron-r2": ("octahedron", 2), "icosahedron-r1": ("icosahedron", 1),
    "icosahedron-r2": ("icosahedron", 2),
    "lshape-r2": ("lshape", 2), "lshape-alt-r2": ("lshape-alt", 2), "torus-r2": ("torus", 2),
    "union:cube3+octahedron-r2": None, "union:icosahedron-r1+cube3": None, "union:lshape-r2+icosahedron-r1": None,
}


def build_mesh(name, variant, rng):
    if name.startswith("union:"):
        parts = name[6:].split("+")
        meshes, comp, off = [], [], 0.0
        fam = "multi"
        for k, pn in enumerate(parts):
            b, r = MESHES[pn]
            Vp, Ep, _, _ = base_mesh(b)
            Vp, Ep = refine(Vp, Ep, times=r)
            lo, hi = Vp.min(axis=1), Vp.max(axis=1)
            ext = float(np.max(hi - lo))
            shift = np.array([off - lo[0], 0.3 * k - lo[1], -0.2 * k - lo[2]])
            meshes.append((Vp + shift[:, None], Ep))
            comp += [k] * Vp.shape[1]
            off += (hi[0] - lo[0]) + 1.2 * ext
        V, E = meshgen.union(meshes)
        comp = np.array(comp)
    else:
        b, r = MESHES[name]
        V, E, fam, comp = base_mesh(b)
        V, E = refine(V, E, times=r)
        comp = np.zeros(V.shape[1], dtype=int)
    desc = [name]
    if "stretch" in variant:
        f = [1.0, rng.uniform(1.1, 1.3), rng.uniform(0.8, 0.9)]
        V = np.diag(f) @ V
        desc.append("stretch(%.3f,%.3f,%.3f)" % tuple(f))
    if "perturb" in variant:
        amt = rng.uniform(0.04, 0.1) * min_edge(V, E)
        V = meshgen.perturb(V, amt, rng)
        desc.append("perturb(%.4f)" % amt)
    if "scale" in variant:
        s = math.exp(rng.uniform(math.log(0.05), math.log(20.0)))
        V = s * V
        desc.append("scale(%.4g)" % s)
    if "rigid" in variant:
        V, _, _ = meshgen.rigid(V, rng)
        desc.append("rigid")
    if "relabel" in variant:
        tag = np.vstack([V, comp[None, :].astype(float)])
        tag2, E = meshgen.relabel(tag, E, rng)
        V, comp = tag2[:3], np.rint(tag2[3]).astype(int)
        desc.append("relabel")
    return dict(name=name, family=fam, V=np.ascontiguousarray(V), E=np.ascontiguousarray(E.astype(np.uint32)),
                comp=comp, desc=" ".join(desc), variant=sorted(variant))


def domain_labels(mesh, scheme, rng):
    """2-3 domain indices per element; returns (D, labels)."""
    V, E = mesh["V"], mesh["E"]
    ne = E.shape[1]
    cen = (V[:, E[0].astype(int)] + V[:, E[1].astype(int)] + V[:, E[2].astype(int)]) / 3.0
    c = V.mean(axis=1)
    if scheme == "halves":
        labels = rng.choice([(0, 1), (1, 2), (3, 7), (0, 5)])
        d = np.array([rng.gauss(0, 1) for _ in range(3)])
        s = (d @ (cen - c[:, None])) > 0
        D = np.where(s, labels[1], labels[0])
    elif scheme == "thirds":
        labels = rng.choice([(0, 1, 2), (1, 4, 7), (0, 2, 5)])
        d = np.array([rng.gauss(0, 1) for _ in range(3)])
        t = d @ (cen - c[:, None])
        q1, q2 = np.quantile(t, [1 / 3, 2 / 3])
        D = np.where(t < q1, labels[0], np.where(t < q2, labels[1], labels[2]))
    elif scheme == "random":
        labels = rng.choice([(0, 1, 2), (0, 5), (1, 2, 5)])
        D = np.array([rng.choice(labels) for _ in range(ne)])
        for l_ in labels:   # every label present
            if not np.any(D == l_):
                D[rng.randrange(ne)] = l_
    else:
        raise ValueError(scheme)
    return D.astype(np.uint32), tuple(int(x) for x in labels)


# -------------------------------------------------------------------------------------------------------------- points

def sample_points(mesh, rng, n_in, n_out, h):
    """Points at distance >= MIN_DIST*h from the surface: n_in inside, n_out outside (fewer if the shape has none)."""
    V, E = mesh["V"], mesh["E"]
    p0, p1, p2 = tri_arrays(V, E)
    cen = (p0 + p1 + p2) / 3.0
    nrm = np.cross(p1 - p0, p2 - p0)
    nrm /= np.linalg.norm(nrm, axis=1)[:, None]
    ne = E.shape[1]
    cand_in, cand_out = [], []
    # interior: walk inwards from random surface points; the admissible core can be thin, so draw many candidates and
    # keep the first n_in admissible ones (cheap: the distance computation is vectorised over the elements)
    found = 0
    for _ in range(40):
        batch = []
        for _ in range(3 * n_in):
            e = rng.randrange(ne)
            lam = [rng.random() for _ in range(3)]
            s = sum(lam)
            x = (lam[0] * p0[e] + lam[1] * p1[e] + lam[2] * p2[e]) / s
            batch.append(x - rng.uniform(1.0, 2.2) * h * nrm[e]
                         + 0.1 * h * np.array([rng.uniform(-1, 1) for _ in range(3)]))
        B_ = np.array(batch).T
        ok_ = (dist_to_surface(B_, V, E) >= MIN_DIST * h) & (np.abs(winding_number(B_, V, E) - 1.0) < 1e-6)
        for j in np.flatnonzero(ok_):
            cand_in.append(batch[int(j)])
        found += int(ok_.sum())
        if found >= n_in:
            break
    for i in range(3 * n_out):
        e = rng.randrange(ne)
        lam = [rng.random() for _ in range(3)]
        s = sum(lam)
        x = (lam[0] * p0[e] + lam[1] * p1[e] + lam[2] * p2[e]) / s
        t = rng.uniform(1.0, 2.6) if i % 3 else rng.uniform(3.0, 30.0)
        cand_out.append(x + t * h * nrm[e] + 0.1 * h * np.array([rng.uniform(-1, 1) for _ in range(3)]))
    P = np.array(cand_in + cand_out).T
    d = dist_to_surface(P, V, E)
    w = winding_number(P, V, E)
    ok = d >= MIN_DIST * h
    inside = ok & (np.abs(w - 1.0) < 1e-6)
    outside = ok & (np.abs(w) < 1e-6)
    ii = np.flatnonzero(inside)[:n_in]
    oo = np.flatnonzero(outside)[:n_out]
    idx = np.concatenate([ii, oo]).astype(int)
    return P[:, idx].copy(), np.concatenate([np.ones(len(ii), bool), np.zeros(len(oo), bool)]), d[idx] / h


# -------------------------------------------------------------------------------------------------------- coefficients

def p1_coeffs(space, grid, uv, weight=None):
    """Coefficients of the interpolant of vertex values uv in a (segment) P1 / DP1 space through its own dof map."""
    c = np.zeros(space.global_dof_count)
    l2g, mult = space.local2global, space.local_multipliers
    for e in range(grid.number_of_elements):
        for i in range(3):
            if mult[e, i] != 0:
                c[l2g[e, i]] = uv[grid.elements[i, e]] * (1.0 if weight is None else weight[e])
    return c


def dp0_coeffs(space, grid, pe):
    c = np.zeros(space.global_dof_count)
    l2g, mult = space.local2global, space.local_multipliers
    for e in range(grid.number_of_elements):
        if mult[e, 0] != 0:
            c[l2g[e, 0]] = pe[e]
    return c


def _params(api, reg):
    import copy
    p = copy.deepcopy(api.GLOBAL_PARAMETERS)
    p.quadrature.regular = reg
    return p


class Evaluator:
    """SLP / DLP of coefficient vectors on given spaces at fixed points for one order."""

    def __init__(self, api, points, order, use_global):
        self.api, self.points, self.order, self.use_global = api, points, order, use_global
        self.cache = {}

    def _run(self, kind, space, coeffs):
        key = (kind, id(space), coeffs.tobytes())
        if key not in self.cache:
            self.cache[key] = self._run_uncached(kind, space, coeffs)
        return self.cache[key]

    def _run_uncached(self, kind, space, coeffs):
        from bempp_cl.api.operators.potential import laplace
        api = self.api
        f = laplace.single_layer if kind == "slp" else laplace.double_layer
        gf = api.GridFunction(space, coefficients=coeffs)
        if self.use_global:
            q = api.GLOBAL_PARAMETERS.quadrature
            old = q.regular
            q.regular = self.order
            try:
                return np.asarray(f(space, self.points).evaluate(gf)).reshape(-1)
            finally:
                q.regular = old
        return np.asarray(f(space, self.points, parameters=_params(api, self.order)).evaluate(gf)).reshape(-1)

    def slp(self, space, coeffs):
        return self._run("slp", space, coeffs)

    def dlp(self, space, coeffs):
        return self._run("dlp", space, coeffs)


# -------------------------------------------------------------------------------------------------------------- oracle

def _variants_for(ctx, deep, rng, first):
    allv = ["whole", "whole-dp1", "seg-trunc", "seg-compl", "seg-dp1", "swapped-pieces", "swapped-all", "swapped-dp1"]
    if ctx.thorough or deep:
        return allv
    # quick: all of them on the first two meshes, then whole + four of the others
    return allv if first else ["whole"] + rng.sample(allv[1:], 4)


def _plan(ctx, deep):
    rng = ctx.rng
    var_pool = [{"perturb"}, {"perturb", "rigid"}, {"perturb", "relabel"}, {"perturb", "rigid", "relabel"},
                {"perturb", "scale", "relabel"}, {"stretch", "perturb"}, {"rigid", "relabel"}]
    if not ctx.thorough and not deep:
        # evaluation is cheap (1-5 s per mesh single-threaded), the two JIT specialisations are not: quick takes one mesh
        # of every family plus random further ones while the budget lasts
        names = [rng.choice(["lshape-r2", "lshape-alt-r2"]), "torus-r2",
                 rng.choice(["union:cube3+octahedron-r2", "union:icosahedron-r1+cube3"]),
                 rng.choice(["cube3", "octahedron-r2", "icosahedron-r1", "tetrahedron-r3", "cube4"])]
        rest = [n for n in MESHES if n not in names]
        rng.shuffle(rest)
        return [(n, set(rng.choice(var_pool))) for n in names + rest[:4]]
    plan = []
    for nm in MESHES:
        plan.append((nm, set()))
        for v in rng.sample(var_pool, 2 if not deep else 5):
            plan.append((nm, set(v)))
    return plan


def oracle(ctx, deep=False, cal=False, only=None):
    import numba
    import bempp_cl.api as api

    res = Result()
    t_start = time.time()
    c_start = time.process_time()
    rng = ctx.rng
    old_threads = numba.get_num_threads()
    numba.set_num_threads(max(1, min(old_threads, int(os.environ.get("VERIF_ORACLE_THREADS", "1")))))
    budget = float(os.environ.get("C02_ORACLE_BUDGET_S", "0")) or (ctx.pick(40.0, 600.0) if not deep else 3000.0)
    orders = (LOW_RUNGS if (ctx.thorough or deep) else []) + LADDER
    n_in, n_out = (ctx.pick(10, 24), ctx.pick(12, 30)) if not deep else (60, 80)
    n_fun = ctx.pick(2, 3) if not deep else 5
    worst = {}        # (variant, side, order) -> worst error
    plan = _plan(ctx, deep)
    if only:
        plan = [p for p in plan if p[0] in only]
    done = 0
    jit_cpu = 0.0   # CPU time dominated by Numba compilation (the whole first mesh: grid, spaces, both potentials; later
    #                 the first order of a mesh beyond 5 s): not charged to the budget
    counts = dict(inside=0, outside=0, near=0)
    try:
        for mi, (name, variant) in enumerate(plan):
            if done >= 1 and time.process_time() - c_start - jit_cpu > budget:
                res.notes.append(f"CPU-time budget {budget:.0f}s (JIT excluded) reached after {done}/{len(plan)} meshes")
                break
            t_mesh = time.time()
            mesh = build_mesh(name, variant, rng)
            V, E, comp = mesh["V"], mesh["E"], mesh["comp"]
            if not check_closed_outward(V, E):
                res.notes.append(f"generator produced a mesh that is not closed/outward: {mesh['desc']} (skipped)")
                continue
            h = max_edge(V, E)
            scheme = rng.choice(["halves", "thirds", "random"])
            D, labels = domain_labels(mesh, scheme, rng)
            grid = api.Grid(V, E, D)
            P, inside, dh = sample_points(mesh, rng, n_in, n_out, h)
            if P.shape[1] == 0:
                res.notes.append(f"no admissible points for {mesh['desc']}")
                continue
            counts["inside"] += int(inside.sum())
            counts["outside"] += int((~inside).sum())
            counts["near"] += int((dh <= NEAR).sum())
            # which component contains an interior point (for piecewise affine u on multi-component meshes)
            ncomp = int(comp.max()) + 1
            if ncomp > 1:
                pcomp = np.zeros(P.shape[1], dtype=int)
                for q in range(ncomp):
                    vq = np.flatnonzero(comp == q)
                    eq = np.flatnonzero(np.isin(E[0].astype(int), vq))
                    wq = winding_number(P, V, E[:, eq])
                    pcomp[np.abs(wq - 1.0) < 1e-6] = q
            else:
                pcomp = np.zeros(P.shape[1], dtype=int)
            c = V.mean(axis=1)
            R = float(np.max(np.linalg.norm(V - c[:, None], axis=0)))
            normals = grid.normals
            ecomp = comp[grid.elements[0, :]]
            # affine functions
            funs = []
            for k in range(n_fun):
                A = np.zeros((ncomp, 3))
                B = np.zeros(ncomp)
                for q in range(ncomp):
                    a = np.array([rng.gauss(0, 1) for _ in range(3)])
                    A[q] = a / (np.linalg.norm(a) * R)
                    B[q] = rng.uniform(-1, 1)
                if k != 0:
                    A[:], B[:] = A[0], B[0]
                uv = np.einsum("ij,ji->i", A[comp], V - c[:, None]) + B[comp]
                pe = np.einsum("ij,ij->i", A[ecomp], normals)
                expected = np.where(inside, np.einsum("ij,ji->i", A[pcomp], P - c[:, None]) + B[pcomp], 0.0)
                funs.append(dict(label="rand%d" % k, A=A, B=B, uv=uv, pe=pe, expected=expected,
                                 scale=float(np.max(np.abs(uv)))))
            # spaces
            swap_set = [labels[0]] if len(labels) == 2 else [labels[0], labels[2]]
            sig = np.where(np.isin(D, swap_set), -1.0, 1.0)
            variants = _variants_for(ctx, deep, rng, first=(mi <= 1))
            builders = _build_variants(api, grid, D, labels, swap_set, sig, variants, res, mesh)
            per = {}   # (variant, order) -> (worst error, detail)
            for oi, order in enumerate(orders):
                ev = Evaluator(api, P, order, use_global=(oi % 2 == 1))
                c_order = time.process_time()
                for vname, fn in builders.items():
                    wv = {True: (0.0, None), False: (0.0, None)}
                    for f in funs:
                        val = fn(ev, f, res)
                        err = np.abs(val - f["expected"]) / f["scale"]
                        for k in range(P.shape[1]):
                            res.case(("c02", vname, mesh["family"], name, tuple(mesh["variant"]), f["label"], order, k),
                                     nontrivial=bool(dh[k] <= NEAR),
                                     sample=dict(mesh=mesh["desc"], variant=vname, order=order, point=P[:, k].tolist(),
                                                 inside=bool(inside[k]), dist_over_h=float(dh[k]), value=float(val[k]),
                                                 expected=float(f["expected"][k]))
                                     if (order == LADDER[-1] and k == 0 and f["label"] == "rand0") else None)
                        for side in (True, False):
                            m = inside == side
                            if not m.any():
                                continue
                            kk = np.flatnonzero(m)[int(np.argmax(err[m]))]
                            if err[kk] >= wv[side][0]:
                                wv[side] = (float(err[kk]), dict(f=f, k=int(kk), value=float(val[kk])))
                    for side in (True, False):
                        per[(vname, side, order)] = wv[side]
                        key = (vname, "inside" if side else "outside", order)
                        worst[key] = max(worst.get(key, 0.0), wv[side][0])
                if oi == 0 and done > 0:
                    jit_cpu += max(0.0, time.process_time() - c_order - 5.0)
                if cal:
                    ctx.log("cal", mesh["desc"], grid.number_of_elements, order,
                            " ".join("%s=%.1e/%.1e" % (v_, per[(v_, True, order)][0], per[(v_, False, order)][0])
                                     for v_ in builders))
            # criteria (one counterexample per variant / side / kind of failure: the highest failing order is reported)
            for vname in builders:
                for side in (True, False):
                    sname = "interior" if side else "exterior"
                    seq = [per[(vname, side, o)] for o in orders]
                    lad = [s_[0] for s_ in seq]
                    bad_bound = [oi for oi, o in enumerate(orders) if seq[oi][1] is not None and seq[oi][0] > ORDER_BOUND[o]]
                    bad_decay = [oi for oi in range(1, len(orders)) if seq[oi][1] is not None
                                 and seq[oi][0] > FLOOR and seq[oi][0] > DECAY * seq[oi - 1][0]]
                    if bad_bound:
                        oi = bad_bound[-1]
                        what = "top-order-error" if oi == len(orders) - 1 else "order-error"
                        _report(res, mesh, D, vname, sname, what, orders[oi], seq[oi][0], ORDER_BOUND[orders[oi]],
                                seq[oi][1], P, dh, c, lad, orders, failing=[orders[i] for i in bad_bound])
                    if bad_decay:
                        oi = bad_decay[-1]
                        _report(res, mesh, D, vname, sname, "ladder-not-decreasing", orders[oi], seq[oi][0],
                                DECAY * seq[oi - 1][0], seq[oi][1], P, dh, c, lad, orders,
                                failing=[orders[i] for i in bad_decay])
            done += 1
            if done == 1:
                jit_cpu = time.process_time() - c_start
            ctx.log(f"C02 oracle: {mesh['desc']} ({grid.number_of_elements} el, {mesh['family']}, labels {labels} "
                    f"{scheme}, {int(inside.sum())} in / {int((~inside).sum())} out) variants {list(builders)} top order "
                    f"{orders[-1]}: worst "
                    + "%.1e" % max(per[(v_, s_, orders[-1])][0] for v_ in builders for s_ in (True, False))
                    + f"  [{time.time() - t_mesh:.1f}s]")
    finally:
        numba.set_num_threads(old_threads)
    agg = {}
    for (vname, side, order), w in worst.items():
        agg[(side, order)] = max(agg.get((side, order), 0.0), w)
        if order == LADDER[-1] or order == LADDER[0]:
            res.stats[f"worst_{vname}_{side}_o{order}"] = float("%.3e" % w)
    for (side, order), w in sorted(agg.items()):
        res.stats[f"worst_all_{side}_o{order}"] = float("%.3e" % w)
        res.stats[f"margin_all_{side}_o{order}"] = float("%.3g" % (ORDER_BOUND[order] / w)) if w > 0 else float("inf")
    res.stats["meshes"] = done
    res.stats["points_inside"] = counts["inside"]
    res.stats["points_outside"] = counts["outside"]
    res.stats["points_within_2h"] = counts["near"]
    res.stats["oracle_wall_s"] = round(time.time() - t_start, 1)
    res.stats["oracle_cpu_s"] = round(time.process_time() - c_start, 1)
    res.stats["of_which_jit_cpu_s"] = round(jit_cpu, 1)
    return res


_CONT_TYPES = [set, tuple, lambda xs: np.array(list(xs)), frozenset, list]
_CONT_CALLS = [0]


def _cont(xs):
    """The segment / swapped-normals index collections are handed to function_space as a set, a tuple, a NumPy array, a
    frozenset and a list in turn (all of them support `index in collection`, which is what the documented behaviour
    rests on; the library's own multitrace code passes sets).  Seeded change C02-c vectorised the lookup with numpy.isin,
    which silently matches nothing for a set."""
    _CONT_CALLS[0] += 1
    return _CONT_TYPES[(_CONT_CALLS[0] - 1) % len(_CONT_TYPES)](xs)


def _build_variants(api, grid, D, labels, swap_set, sig, variants, res, mesh):
    """name -> function(evaluator, fun, res) -> values of the (signed) sum of potentials at the points."""
    fs = api.function_space
    out = {}
    P1 = fs(grid, "P", 1)
    D0 = fs(grid, "DP", 0)

    def side_check(vname, a, b, what):
        if np.max(np.abs(a - b)) > SIDE_TOL * max(1.0, float(np.max(np.abs(b)))):
            res.counterexample(f"laplace-green-representation-{vname}-slp-depends-on-swapped-normals", what,
                               mesh=mesh["desc"], max_difference=float(np.max(np.abs(a - b))))

    if "whole" in variants:
        out["whole"] = lambda ev, f, res: ev.slp(D0, dp0_coeffs(D0, grid, f["pe"])) - ev.dlp(P1, p1_coeffs(P1, grid, f["uv"]))
    if "whole-dp1" in variants:
        D1 = fs(grid, "DP", 1)
        out["whole-dp1"] = lambda ev, f, res: (ev.slp(D0, dp0_coeffs(D0, grid, f["pe"]))
                                               - ev.dlp(D1, p1_coeffs(D1, grid, f["uv"])))
    if "seg-trunc" in variants:
        sp = [(fs(grid, "P", 1, segments=_cont([l_]), include_boundary_dofs=True, truncate_at_segment_edge=True),
               fs(grid, "DP", 0, segments=_cont([l_]))) for l_ in labels]

        def f_trunc(ev, f, res):
            return sum(ev.slp(d0, dp0_coeffs(d0, grid, f["pe"])) - ev.dlp(p1, p1_coeffs(p1, grid, f["uv"]))
                       for (p1, d0) in sp)
        out["seg-trunc"] = f_trunc
    if "seg-compl" in variants:
        A_, B_ = list(labels[:1]), list(labels[1:])
        pa = fs(grid, "P", 1, segments=_cont(A_), include_boundary_dofs=True, truncate_at_segment_edge=False)
        pb = None
        try:
            pb = fs(grid, "P", 1, segments=_cont(B_), include_boundary_dofs=False)
            if pb.global_dof_count == 0:
                pb = None
        except Exception:  # an empty P1 space cannot be built: then the first piece already carries every vertex
            pb = None
        # every vertex must be carried by exactly one of the two pieces (input sanity, independent of the potentials)
        nv = grid.number_of_vertices
        carried = np.zeros(nv, dtype=int)
        for s_ in (pa, pb):
            if s_ is None:
                continue
            seen = set()
            for e in range(grid.number_of_elements):
                for i in range(3):
                    if s_.local_multipliers[e, i] != 0:
                        seen.add(int(grid.elements[i, e]))
            carried[list(seen)] += 1
        if np.all(carried == 1):
            da, db = fs(grid, "DP", 0, segments=_cont(A_)), fs(grid, "DP", 0, segments=_cont(B_))

            def f_compl(ev, f, res):
                v = ev.slp(da, dp0_coeffs(da, grid, f["pe"])) + ev.slp(db, dp0_coeffs(db, grid, f["pe"]))
                v = v - ev.dlp(pa, p1_coeffs(pa, grid, f["uv"]))
                if pb is not None:
                    v = v - ev.dlp(pb, p1_coeffs(pb, grid, f["uv"]))
                return v
            out["seg-compl"] = f_compl
        else:
            res.notes.append(f"seg-compl skipped on {mesh['desc']}: vertices carried {np.bincount(carried).tolist()} times")
    if "seg-dp1" in variants:
        sp1 = [(fs(grid, "DP", 1, segments=_cont([l_])), fs(grid, "DP", 0, segments=_cont([l_]))) for l_ in labels]

        def f_dp1(ev, f, res):
            return sum(ev.slp(d0, dp0_coeffs(d0, grid, f["pe"])) - ev.dlp(d1, p1_coeffs(d1, grid, f["uv"]))
                       for (d1, d0) in sp1)
        out["seg-dp1"] = f_dp1
    if "swapped-pieces" in variants:
        sps = [(l_, fs(grid, "P", 1, segments=_cont([l_]), include_boundary_dofs=True, truncate_at_segment_edge=True,
                       swapped_normals=_cont(swap_set)),
                fs(grid, "DP", 0, segments=_cont([l_]), swapped_normals=_cont(swap_set)),
                fs(grid, "DP", 0, segments=_cont([l_]))) for l_ in labels]

        def f_swp(ev, f, res):
            tot = 0.0
            for (l_, p1, d0s, d0) in sps:
                s_i = -1.0 if l_ in swap_set else 1.0
                psi_t = dp0_coeffs(d0s, grid, f["pe"] * sig)      # a . n~  on the piece
                a_ = ev.slp(d0s, psi_t)
                if ev.order == LADDER[0] and f["label"] == "rand0":
                    side_check("swapped-pieces", a_, ev.slp(d0, dp0_coeffs(d0, grid, f["pe"] * sig)),
                               f"SLP on DP0(segments=[{l_}], swapped_normals={swap_set}) differs from the plain space")
                tot = tot + s_i * (a_ - ev.dlp(p1, p1_coeffs(p1, grid, f["uv"])))
            return tot
        out["swapped-pieces"] = f_swp
    if "swapped-all" in variants:
        alls = sorted(set(int(x) for x in D))
        p1s = fs(grid, "P", 1, swapped_normals=_cont(alls))
        d0s = fs(grid, "DP", 0, swapped_normals=_cont(alls))
        # expected -u inside: return the negated value so that the common "expected" applies
        out["swapped-all"] = lambda ev, f, res: -(ev.slp(d0s, dp0_coeffs(d0s, grid, -f["pe"]))
                                                   - ev.dlp(p1s, p1_coeffs(p1s, grid, f["uv"])))
    if "swapped-dp1" in variants:
        d1s = fs(grid, "DP", 1, swapped_normals=_cont(swap_set))
        out["swapped-dp1"] = lambda ev, f, res: (ev.slp(D0, dp0_coeffs(D0, grid, f["pe"]))
                                                 - ev.dlp(d1s, p1_coeffs(d1s, grid, f["uv"], weight=sig)))
    # side check: the spaces report the normal multipliers the relation above assumes
    if "swapped-dp1" in variants:
        nm = np.asarray(d1s.normal_multipliers, float)
        if np.any(nm != sig):
            res.counterexample("laplace-green-representation-swapped-normal-multipliers-not-minus-one-on-swapped-segments",
                               "space.normal_multipliers is not -1 exactly on the elements of the swapped domain indices",
                               mesh=mesh["desc"], swapped=list(swap_set))
    return out


_FAIL = {"top-order-error": "error at the top regular order exceeds the bound",
         "order-error": "error exceeds the bound of this regular order",
         "ladder-not-decreasing": "error does not shrink when the regular order is raised"}


def _report(res, mesh, D, vname, sname, what, order, w, bound, det, P, dh, c, ladder, orders, failing=None):
    key = f"laplace-green-representation-slp-dp0-minus-dlp-p1-{vname}-{mesh['family']}-{sname}-{what}"
    if sum(1 for cx in res.counterexamples if cx["key"] == key) >= 3:
        return
    f, k = det["f"], det["k"]
    detail = dict(mesh=mesh["desc"], family=mesh["family"], elements=int(mesh["E"].shape[1]), variant=vname, side=sname,
                  order=order, point=P[:, k].tolist(), dist_over_h=float(dh[k]), value=det["value"],
                  expected=float(f["expected"][k]), scale=f["scale"], relative_error=w, bound=bound,
                  a=np.round(f["A"], 12).tolist(), b=np.round(f["B"], 12).tolist(), centre=c.tolist(),
                  ladder={str(o): float("%.3e" % x) for o, x in zip(orders, ladder)}, failing_orders=failing)
    if mesh["E"].shape[1] <= 128:
        detail["vertices"] = mesh["V"].tolist()
        detail["elements"] = mesh["E"].tolist()
        detail["domain_indices"] = [int(x) for x in D]
    res.counterexample(
        key,
        f"{vname} on {mesh['desc']} ({mesh['family']}), {sname} point at {dh[k]:.2f} h, order {order}: {_FAIL[what]}: "
        f"|SLP-DLP-expected|/max|u| = {w:.3e} > {bound:.3e} (value {det['value']:.12g}, expected {f['expected'][k]:.12g})",
        **detail)


if __name__ == "__main__":
    tier = sys.argv[1] if len(sys.argv) > 1 else "quick"
    seed = int(sys.argv[2]) if len(sys.argv) > 2 else 0
    deep = "deep" in sys.argv[3:]
    cal = "cal" in sys.argv[3:]
    only = next((a[5:].split(",") for a in sys.argv[3:] if a.startswith("only=")), None)
    ctx = Ctx("C02", tier, seed)
    t = time.time()
    r = oracle(ctx, deep=deep, cal=cal, only=only)
    print("cases", r.evaluations, "nontrivial", len(r.nontrivial))
    for k_, v_ in r.stats.items():
        print("  stat", k_, v_)
    for n_ in r.notes:
        print("  note", n_)
    for s_ in r.samples[:3]:
        print("  sample", s_)
    for c_ in r.counterexamples:
        c2 = {k_: v_ for k_, v_ in c_.items() if k_ not in ("vertices", "elements", "domain_indices")}
        print("COUNTEREXAMPLE", c2)
    print(f"wall {time.time() - t:.1f}s (incl. import), counterexamples {len(r.counterexamples)}")
    sys.exit(1 if r.counterexamples else 0)
