"""C18 — results depend only on explicit arguments, not on process history.

Model: lean/BemppVerif/Model/Hist.lean (state machine of the global parameter object, explicit parameter objects,
DEFAULT_PRECISION, `_cached`, `_range_map`, `_mass_matrix`, `_FMM_CACHE`, `_FMM_POTENTIAL_CACHE`); specification
`specStep/resolve` in the same file; theorems lean/BemppVerif/Props/C18.lean.

Tie: (A) the FMM cache keys and the parameter object read by the FMM evaluators are read from the source text on
every run and select which of the two modelled trees (`asfound` / `repaired` = after findings/proposed_c18.diff) the
working tree is; (C) scripted random histories are executed on the real API in-process under recording wrappers
(quadrature-rule lookups, assembler entry points, dispatcher result arrays, FMM interface construction / cache lookups)
and the configuration each call actually used is compared with the model's output, step by step.

Oracle: the property itself — every matrix / potential value produced during a history equals what a FRESH interpreter
computes from the resolved arguments alone (props/c18_ref.py), repeated weak_form() returns the same object,
single-precision results agree with double precision to 1e-4.
"""
import ast
import json
import os
import subprocess
import sys
import tempfile
import time

from vlib.common import Result, run_driver, build_driver, GenError, REPO, ROOT
from props import c18_ref as R

PID = "C18"
LEAN_MODULES = ["BemppVerif.Props.C18"]
N = "BemppVerif.C18."
_COMMON = ["weak_form_idempotent", "later_global_changes_do_not_affect_assembled",
           "potential_resolved_at_construction", "precision_selects_dtype_only"]
_TH = {
    "asfound": ["history_independent_partial", "fmm_counterexample_history", "fmm_counterexample_explicit",
                "explicit_params_honoured_partial"] + _COMMON,
    "repaired": ["history_independent", "history_independent_fresh", "explicit_params_honoured"] + _COMMON,
}
_PARTIAL = {
    "asfound": {
        N + "history_independent_partial": "the tree as found violates the full statement on the FMM paths "
        "(fmm_counterexample_history / _explicit, findings fmm-cache-key-quadrature-order and "
        "fmm-ignores-explicit-parameters): proved for every history that builds no FMM operator; the full theorem "
        "`history_independent` (all operators, any earlier history) is proved for the model of the tree after "
        "findings/proposed_c18.diff and becomes the obligation as soon as the source matches that model",
        N + "explicit_params_honoured_partial": "dense / sparse / singular assemblers only (FMM: see above)",
    },
    "repaired": {},
}
# the obligations are those of the tree that the source text shows (set in generate())
THEOREMS = [N + t for t in _TH["asfound"]]
PARTIAL = dict(_PARTIAL["asfound"])
TRUSTED = [
    "hand model lean/BemppVerif/Model/Hist.lean of the caches and of which parameter object each assembler reads, tied "
    "by differential comparison of the configuration used in every step of scripted histories (recording wrappers "
    "installed by props/c18.py; no change to /repo)",
    "ast inspection of bempp_cl/api/fmm/fmm_assembler.py (cache key tuples, GLOBAL_PARAMETERS reads) that selects the "
    "model variant (asfound / repaired)",
    "the exact-summation exafmm stub vlib/exafmm_stub stands in for exafmm-t (expansion order / ncrit reach its "
    "constructor but do not change its values)",
    "numerical values: reference interpreter props/c18_ref.py; rounding, numba reduction order and single-precision "
    "accuracy are covered by the oracle tolerances only",
    "operators built FROM operators (sums, differences, multiples, products holding their operands' memoised weak forms) "
    "are outside the state machine of Model/Hist.lean: their histories are run by the oracle only (props/c18_derived.py: "
    "after every step every assembled operator equals the NumPy expression of the leaf matrices), no theorem",
]
ASSUMPTIONS = [
    "operators with domain = range = dual_to_range on one grid (DP0), Laplace single layer (thorough: also modified "
    "Helmholtz), identity; composite (sum/product/blocked) operators only through their atomic parts",
    "tolerance 1e-13 relative to max|entry| against the fresh interpreter (same machine, same thread count); 1e-4 for "
    "single against double precision, 2e-6 single against single",
    "fmm.depth is accepted by ExafmmInterface.__init__ and dropped there; it is settable in the histories but is not part "
    "of the configuration",
    "not modelled: Grid._barycentric_grid / Space.barycentric_representation memoisation (no parameter enters), the OpenCL "
    "device interface, assembly.always_promote_to_double, fmm.dense_evaluation / debug / near_field_representation "
    "(read from GLOBAL_PARAMETERS at every evaluation by design)",
]
RULE = ("one case per API call of a history (random histories of <= 8 calls quick / <= 20 thorough from ctx.rng, plus 4 "
        "fixed histories of 9-13 calls: the two halves of the FMM finding, a dense/explicit/strong-form one, a two-grid "
        "mass-matrix one); a case is NON-TRIVIAL when it is the "
        "first use (weak_form / strong_form / mass_matrix / potential construction+evaluation) of an operator and (a) the "
        "parameter object the operator holds was changed between construction and this first use, or (b) it holds an "
        "explicit object whose relevant values differ from the global ones at first use, or (c) an FMM interface cache "
        "lookup hit, or when it is a repeated use after a later parameter change / cache clear (d); distinct by "
        "(assembler, global/explicit, flags, configuration)")

REG = [2, 3, 4, 5, 6, 7]
SING = [3, 4, 5, 6]
EXP = [4, 5, 6]
NCRIT = [100, 400]
DEPTH = [3, 4]
FIELD_VALUES = dict(regular=REG, singular=SING, expansion=EXP, ncrit=NCRIT, depth=DEPTH)
RELEVANT = dict(dense=("regular", "singular"), sparse=("regular",), singular=("singular",),
                fmm=("regular", "singular", "expansion", "ncrit"))
RELEVANT_POT = dict(dense=("regular",), fmm=("regular", "expansion", "ncrit"))
TOL = 1e-13
TOL_SINGLE_VS_DOUBLE = 1e-4
TOL_SINGLE = 2e-6


# ------------------------------------------------------------------------------------------------
# Tie A: which tree is this?


def detect_variant():
    path = os.path.join(REPO, "bempp_cl", "api", "fmm", "fmm_assembler.py")
    try:
        with open(path) as f:
            tree = ast.parse(f.read())
    except (OSError, SyntaxError) as e:
        raise GenError(f"cannot parse fmm_assembler.py: {e}")
    funcs = {f.name: f for f in tree.body if isinstance(f, ast.FunctionDef)}

    def key_of(name):
        fn = funcs.get(name)
        if fn is None:
            raise GenError(f"{name} not found in fmm_assembler.py")
        for node in ast.walk(fn):
            if isinstance(node, ast.Assign) and isinstance(node.value, ast.Tuple) \
                    and any(isinstance(t, ast.Name) and t.id == "key" for t in node.targets):
                return [ast.unparse(e) for e in node.value.elts]
        raise GenError(f"no `key = (...)` tuple in {name}")

    bkey = key_of("get_fmm_interface")
    pkey = key_of("get_fmm_potential_interface")
    greads = sum(1 for n in ast.walk(tree) if isinstance(n, ast.Attribute) and n.attr == "GLOBAL_PARAMETERS")
    facts = dict(boundary_key=bkey, potential_key=pkey, global_parameter_reads=greads)
    b_asfound = bkey == ["domain.grid.id", "dual_to_range.grid.id", "mode", "wavenumber",
                         "parameters.fmm.expansion_order", "parameters.fmm.ncrit"]
    b_repaired = bkey == ["domain.grid.id", "dual_to_range.grid.id", "mode", "wavenumber",
                          "parameters.fmm.expansion_order", "parameters.fmm.ncrit", "parameters.quadrature.regular"]
    p_asfound = pkey == ["space.grid.id", "points_hash", "mode", "wavenumber"]
    p_repaired = pkey == ["space.grid.id", "points_hash", "mode", "wavenumber", "parameters.quadrature.regular",
                          "parameters.fmm.expansion_order", "parameters.fmm.ncrit"]
    if b_asfound and p_asfound and greads > 0:
        return "asfound", facts
    if b_repaired and p_repaired and greads == 0:
        return "repaired", facts
    facts["variant"] = "unknown"
    raise GenError("FMM cache keys / GLOBAL_PARAMETERS reads in fmm_assembler.py match neither the tree as found nor "
                   f"findings/proposed_c18.diff: {json.dumps(facts)}")


# ------------------------------------------------------------------------------------------------
# histories


def line_of(ops):
    return " ; ".join(" ".join(str(t) for t in op) for op in ops)


def parse_line(line):
    ops = []
    for part in line.split(";"):
        t = part.split()
        if t:
            ops.append(tuple(int(x) if x.lstrip("-").isdigit() else x for x in t))
    return ops


def _wchoice(rng, pairs):
    tot = sum(w for w, _ in pairs)
    x = rng.random() * tot
    for w, v in pairs:
        x -= w
        if x <= 0:
            return v
    return pairs[-1][1]


def gen_history(rng, nops, fmm=True, kerns=(0,), single=True):
    ops = [("cs", 0)]
    spaces = [0]
    nexp = 0
    bops = []  # dict(asm, pref, used)
    pots = []

    def rparams():
        return tuple(rng.choice(FIELD_VALUES[f]) for f in R.FIELDS)

    def pick_pref():
        nonlocal nexp
        if rng.random() < 0.45:
            return "g"
        if nexp == 0 or (nexp < 2 and rng.random() < 0.4):
            ops.append(("np",) + rparams())
            nexp += 1
            return f"e{nexp - 1}"
        return f"e{rng.randrange(nexp)}"

    def change_for(pref, fields):
        f = rng.choice(fields)
        v = rng.choice(FIELD_VALUES[f])
        if pref == "g":
            return ("sg", f, v)
        return ("se", int(pref[1:]), f, v)

    core = max(3, nops - 2)
    while len(ops) < core:
        cands = []
        cands.append((3.0 if len(bops) < 3 else 0.6, "co"))
        cands.append((2.2, "sg"))
        if nexp:
            cands.append((0.7, "se"))
        if single:
            cands.append((0.35, "sp"))
        if len(spaces) < 3:
            cands.append((0.5, "cs"))
        if bops:
            cands.append((3.0, "wf"))
            cands.append((1.2, "sf"))
        cands.append((0.7, "mm"))
        cands.append((1.0 if len(pots) < 2 else 0.2, "cp"))
        if pots:
            cands.append((1.2, "ep"))
        if fmm:
            cands.append((0.6, "cl"))
        what = _wchoice(rng, cands)
        if what == "co":
            asm = _wchoice(rng, [(3, "dense"), (1, "sparse"), (1.5, "singular")] + ([(3.5, "fmm")] if fmm else []))
            pref = pick_pref()
            prec = "n"
            if single and asm in ("dense", "singular"):
                prec = _wchoice(rng, [(0.65, "n"), (0.2, "s"), (0.15, "d")])
            ops.append(("co", asm, rng.randrange(len(spaces)), rng.choice(kerns), pref, prec))
            bops.append(dict(asm=asm, pref=pref, used=False))
            if rng.random() < 0.65:
                ops.append(change_for(pref, RELEVANT[asm]))
        elif what == "sg":
            f = _wchoice(rng, [(4, "regular"), (2, "singular"), (1, "expansion"), (0.7, "ncrit"), (0.3, "depth")])
            ops.append(("sg", f, rng.choice(FIELD_VALUES[f])))
        elif what == "se":
            f = _wchoice(rng, [(4, "regular"), (2, "singular"), (1, "expansion"), (0.7, "ncrit")])
            ops.append(("se", rng.randrange(nexp), f, rng.choice(FIELD_VALUES[f])))
        elif what == "sp":
            ops.append(("sp", rng.choice(["s", "d"])))
        elif what == "cs":
            g = rng.choice([0, 0, 1])
            ops.append(("cs", g))
            spaces.append(g)
        elif what in ("wf", "sf"):
            unused = [i for i, b in enumerate(bops) if not b["used"]]
            k = rng.choice(unused) if unused and rng.random() < 0.7 else rng.randrange(len(bops))
            bops[k]["used"] = True
            ops.append((what, k))
        elif what == "mm":
            ops.append(("mm", rng.randrange(len(spaces))))
        elif what == "cp":
            asm = _wchoice(rng, [(1, "dense")] + ([(1.3, "fmm")] if fmm else []))
            pref = pick_pref()
            ops.append(("cp", asm, rng.randrange(len(spaces)), rng.randrange(2), rng.choice(kerns), pref))
            pots.append(dict(asm=asm, pref=pref))
            if rng.random() < 0.5:
                ops.append(change_for("g", RELEVANT_POT[asm]))
        elif what == "ep":
            ops.append(("ep", rng.randrange(len(pots))))
        elif what == "cl":
            ops.append(("cl",))
    # make sure what was built gets used, and used again after a change
    for k, b in enumerate(bops):
        if not b["used"] and len(ops) < nops:
            ops.append(("wf", k))
            b["used"] = True
    if pots and not any(o[0] == "ep" for o in ops) and len(ops) < nops:
        ops.append(("ep", len(pots) - 1))
    while len(ops) < nops and bops:
        if rng.random() < 0.5:
            ops.append(("sg", "regular", rng.choice(REG)))
        else:
            ops.append((rng.choice(["wf", "wf", "sf"]), rng.randrange(len(bops))))
    return ops[:nops]


FIXED_HISTORIES = [
    # finding (i), both halves, plus the healing effect of clear_fmm_cache
    "cs 0 ; co fmm 0 0 g n ; wf 0 ; sg regular 6 ; co fmm 0 0 g n ; wf 1 ; cl ; co fmm 0 0 g n ; wf 2",
    "cs 0 ; np 6 4 5 400 4 ; co fmm 0 0 e0 n ; wf 0 ; cp fmm 0 0 0 e0 ; ep 0 ; sg regular 3 ; cp fmm 0 0 0 g ; ep 1",
    # dense / singular / sparse: change between construction and first use, explicit object, later change, strong form
    "cs 0 ; np 3 5 5 400 4 ; co dense 0 0 g n ; co dense 0 0 e0 n ; sg regular 6 ; wf 0 ; wf 1 ; sg regular 2 ; "
    "sg singular 6 ; wf 0 ; sf 1 ; mm 0 ; sf 0",
    # two spaces on different grids: mass matrices are memoised per space object, with the global order of their first use
    "cs 0 ; cs 1 ; mm 0 ; sg regular 6 ; mm 1 ; co sparse 1 0 g n ; sf 0 ; mm 0 ; cs 0 ; mm 2",
    # dense potential operators: the order is resolved at construction (global and explicit object), later changes of the
    # globals / of the object between construction and evaluation and between two evaluations change nothing
    # (seed C18-b moved the rule lookup into the evaluator; the random histories of a quick run missed it)
    "cs 0 ; cp dense 0 0 0 g ; sg regular 2 ; ep 0 ; sg regular 6 ; ep 0 ; np 6 4 5 400 4 ; cp dense 0 1 0 e0 ; ep 1 ; "
    "se 0 regular 2 ; ep 1 ; cp dense 0 1 0 e0 ; ep 2",
]


class Plan:
    """histories + model / specification outputs + reference jobs"""

    def __init__(self, variant, histories):
        self.variant = variant
        self.histories = histories  # list of op lists
        lines = [line_of(h) for h in histories]
        reqs = [f"hist {variant} {l}" for l in lines] + [f"hist spec {l}" for l in lines]
        ans = run_driver(reqs)
        n = len(lines)
        self.model = [self._split(a) for a in ans[:n]]
        self.spec = [self._split(a) for a in ans[n:]]
        self.jobs = {}
        self.expect = []  # per history: per step: list of (jobid-or-tuple, tol, what)
        self.meta = []
        for h, sp in zip(histories, self.spec):
            self.expect.append(self._expectations(h, sp))
        self.procs = []
        self.refs = None
        self.exec = None

    @staticmethod
    def _split(ans):
        if not ans.startswith("ok"):
            raise GenError(f"driver rejected a history: {ans}")
        return [o.strip() for o in ans[2:].split(" ; ")]

    # ---- reference jobs from the SPECIFICATION's outputs
    def _job(self, **j):
        params = j.get("params", {})
        jid = "|".join([j["kind"], str(j.get("asm", "-")), str(j["grid"]), str(j.get("kern", 0)), str(j.get("prec")),
                        str(j.get("pts", "-"))] + [f"{k}={params[k]}" for k in sorted(params)])
        j["id"] = jid
        self.jobs.setdefault(jid, j)
        return jid

    def _weak_jobs(self, asm, grid, kern, prec, used):
        reg, sing, iface, _dt = used.split(",")
        params = {}
        if reg != "-" and "regular" in RELEVANT[asm]:
            params["regular"] = int(reg)
        if sing != "-":
            params["singular"] = int(sing)
        if iface != "-":
            t = iface.split(".")
            params["expansion"], params["ncrit"] = int(t[4]), int(t[5])
        out = []
        if asm in ("dense", "singular") and prec == "s":
            out.append((self._job(kind="weak", asm=asm, grid=grid, kern=kern, prec="single", params=params),
                        TOL_SINGLE, "single vs fresh single"))
            out.append((self._job(kind="weak", asm=asm, grid=grid, kern=kern, prec="double", params=params),
                        TOL_SINGLE_VS_DOUBLE, "single vs fresh double"))
        else:
            tol = TOL_SINGLE_VS_DOUBLE if (asm == "fmm" and prec == "s") else TOL
            out.append((self._job(kind="weak", asm=asm, grid=grid, kern=kern, prec="double", params=params), tol,
                        "fresh interpreter"))
        return out

    def _expectations(self, ops, spec):
        spaces, bops, pots = [], [], []
        defprec = "d"
        exp = []
        for op, so in zip(ops, spec):
            t = so.split()
            e = []
            if op[0] == "sp":
                defprec = op[1]
            elif op[0] == "cs":
                spaces.append(op[1])
            elif op[0] == "co" and t[0] == "u":
                bops.append(dict(asm=op[1], grid=spaces[op[2]], kern=op[3], pref=op[4],
                                 prec=defprec if op[5] == "n" else op[5]))
            elif op[0] == "cp" and t[0] == "pot":
                pots.append(dict(asm=op[1], grid=spaces[op[2]], pts=op[3], kern=op[4], pref=op[5]))
            elif op[0] == "wf" and t[0] == "asm":
                b = bops[op[1]]
                e = [("weak",) + x for x in self._weak_jobs(b["asm"], b["grid"], b["kern"], b["prec"], t[3])]
            elif op[0] == "sf" and t[0] == "strong":
                b = bops[op[1]]
                mj = self._job(kind="mass", grid=b["grid"], params=dict(regular=int(t[2].split(",")[0])))
                e = [("strong", mj) + x for x in self._weak_jobs(b["asm"], b["grid"], b["kern"], b["prec"], t[5])]
            elif op[0] == "mm" and t[0] == "mass":
                mj = self._job(kind="mass", grid=spaces[op[1]], params=dict(regular=int(t[2].split(",")[0])))
                e = [("mass", mj, TOL, "fresh interpreter")]
            elif op[0] == "ep" and t[0] == "pe":
                p = pots[op[1]]
                reg, _s, iface, _d = t[1].split(",")
                params = dict(regular=int(reg))
                if iface != "-":
                    it = iface.split(".")
                    params["expansion"], params["ncrit"] = int(it[4]), int(it[5])
                pj = self._job(kind="pot", asm=p["asm"], grid=p["grid"], pts=p["pts"], kern=p["kern"], params=params)
                e = [("pot", pj, TOL, "fresh interpreter")]
            exp.append(e)
        self.meta.append(dict(bops=bops, pots=pots, spaces=spaces))
        return exp

    # ---- fresh interpreters
    def launch(self, ctx, max_procs, per_proc):
        jobs = list(self.jobs.values())
        if not jobs:
            self.refs = {}
            return

        def cls(j):
            if j["kind"] == "weak" and j["asm"] == "dense":
                return "A"
            if j["kind"] == "pot":
                return "C"
            return "B"
        groups = {}
        for j in jobs:
            groups.setdefault(cls(j), []).append(j)
        chunks = []
        for g in groups.values():
            for i in range(0, len(g), per_proc):
                chunks.append(g[i:i + per_proc])
        # merge the smallest chunks when there are more chunks than processes allowed at once is fine: they queue
        self.tmp = tempfile.mkdtemp(prefix="c18ref")
        self.queue = []
        # every chunk with more than one job is also computed by a TWIN interpreter in reversed order: the reference
        # must not depend on the order in which a reference interpreter happens to work through its jobs
        twins = [list(reversed(ch)) for ch in chunks if len(ch) > 1]
        self.n_primary = len(chunks)
        for i, ch in enumerate(chunks + twins):
            jf = os.path.join(self.tmp, f"jobs{i}.json")
            of = os.path.join(self.tmp, f"out{i}.npz")
            with open(jf, "w") as f:
                json.dump(ch, f)
            self.queue.append((jf, of, [j["id"] for j in ch], i >= len(chunks)))
        self.max_procs = max_procs
        self.running = []
        self.done = []
        self.t_launch = time.time()
        self._pump()
        ctx.log(f"reference interpreters: {len(jobs)} distinct jobs in {len(chunks)} fresh processes + {len(twins)} "
                f"reversed-order twins (<= {max_procs} at once)")

    def _pump(self):
        self.running = [r for r in self.running if not self._finished(r)]
        while self.queue and len(self.running) < self.max_procs:
            jf, of, ids, twin = self.queue.pop(0)
            env = dict(os.environ)
            env["PYTHONPATH"] = ROOT + os.pathsep + REPO + os.pathsep + env.get("PYTHONPATH", "")
            env["NUMBA_DISABLE_PERFORMANCE_WARNINGS"] = "1"
            p = subprocess.Popen([sys.executable, "-W", "ignore", "-m", "props.c18_ref", jf, of], cwd=ROOT, env=env,
                                 stdout=subprocess.PIPE, stderr=subprocess.STDOUT, text=True)
            self.running.append((p, of, ids, twin))

    def _finished(self, r):
        p, of, ids, twin = r
        if p.poll() is None:
            return False
        out = p.stdout.read()
        self.done.append((p.returncode, of, ids, out, twin))
        return True

    def wait(self, ctx, timeout=3000):
        if self.refs is not None:
            return self.refs
        import numpy as np
        t0 = time.time()
        while self.queue or self.running:
            self._pump()
            if time.time() - t0 > timeout:
                for r in self.running:
                    r[0].kill()
                raise RuntimeError("reference interpreters timed out")
            time.sleep(0.2)
        refs, twin_refs = {}, {}
        self.repeat_diffs = []
        self.ref_failures = []
        for rc, of, ids, out, twin in self.done:
            if rc != 0 or not os.path.exists(of):
                self.ref_failures.append(dict(ids=ids, rc=rc, twin=twin, tail=out[-800:]))
                continue
            with np.load(of) as z:
                for k in z.files:
                    if k == "__repeat_diff__":
                        self.repeat_diffs.append((ids[0], float(z[k])))
                    else:
                        (twin_refs if twin else refs)[k] = z[k]
        self.twin_diffs = []
        for k, v in twin_refs.items():
            if k in refs:
                self.twin_diffs.append((k, _rel(v, refs[k])))
        self.refs = refs
        self.ref_wall = time.time() - self.t_launch
        import shutil
        shutil.rmtree(self.tmp, ignore_errors=True)
        return refs


# ------------------------------------------------------------------------------------------------
# recording wrappers and execution on the real API


def _one(values):
    vs = sorted(set(values), key=str)
    if not vs:
        return "-"
    if len(vs) == 1:
        return str(vs[0])
    return "{" + "|".join(str(v) for v in vs) + "}"


def _dt(name):
    name = str(name)
    if name in ("float32", "complex64"):
        return "s"
    if name in ("float64", "complex128"):
        return "d"
    return "?" + name


class Recorder:
    def __init__(self):
        self.frames = []
        self.loose = []
        self.stack = []
        self.flags = []
        self.fg_orders = []
        self.pi_orders = []
        self.ex = None
        self.saved = []

    def begin(self):
        self.frames, self.loose, self.stack = [], [], []

    def ev(self, kind, **kw):
        tgt = self.stack[-1]["events"] if self.stack else self.loose
        tgt.append(dict(kind=kind, ctx=tuple(self.flags), **kw))

    def push(self, impl, **kw):
        fr = dict(impl=impl, events=[], children=[], **kw)
        (self.stack[-1]["children"] if self.stack else self.frames).append(fr)
        self.stack.append(fr)
        return fr

    def pop(self):
        self.stack.pop()

    # ---- installation
    def _patch(self, obj, name, new):
        self.saved.append((obj, name, obj.__dict__[name] if isinstance(obj, type) else getattr(obj, name)))
        setattr(obj, name, new)

    def install(self):
        import inspect
        from bempp_cl.api.integration import triangle_gauss, duffy_galerkin
        from bempp_cl.api.assembly import assembler as asm_mod
        from bempp_cl.core import dispatcher
        from bempp_cl.api.fmm import fmm_assembler
        from bempp_cl.api.fmm.exafmm import ExafmmInterface
        rec = self

        o_tri = triangle_gauss.rule

        def tri_rule(order):
            rec.ev("tri", order=order)
            if "from_grid" in rec.flags:
                rec.fg_orders.append(order)
            if "pot_iface" in rec.flags:
                rec.pi_orders.append(order)
            return o_tri(order)
        self._patch(triangle_gauss, "rule", tri_rule)

        o_npts = triangle_gauss.get_number_of_quad_points

        def npts(order):
            rec.ev("npts", order=order)
            return o_npts(order)
        self._patch(triangle_gauss, "get_number_of_quad_points", npts)

        o_duffy = duffy_galerkin.rule

        def duffy_rule(order, adjacency):
            rec.ev("duffy", order=order)
            return o_duffy(order, adjacency)
        self._patch(duffy_galerkin, "rule", duffy_rule)

        o_dd = dispatcher.dense_assembler_dispatcher

        def dense_disp(*a, **k):
            rec.ev("dense-dtype", dtype=_dt(a[-1].dtype))
            return o_dd(*a, **k)
        self._patch(dispatcher, "dense_assembler_dispatcher", dense_disp)

        o_sd = dispatcher.singular_assembler_dispatcher

        def sing_disp(*a, **k):
            rec.ev("sing-dtype", dtype=_dt(a[-1].dtype))
            return o_sd(*a, **k)
        self._patch(dispatcher, "singular_assembler_dispatcher", sing_disp)

        o_asm = asm_mod.AssemblerInterface.assemble

        def assemble(self_, *a, **k):
            fr = rec.push(type(self_._implementation).__name__, ai=self_)
            try:
                r = o_asm(self_, *a, **k)
                fr["dtype"] = _dt(getattr(r, "dtype", "none"))
                return r
            finally:
                rec.pop()
        self._patch(asm_mod.AssemblerInterface, "assemble", assemble)

        o_sel = asm_mod.select_potential_implementation

        def select(space, points_, operator_descriptor, device_interface, assembler, parameters):
            rec.push("pot:" + str(assembler))
            try:
                return o_sel(space, points_, operator_descriptor, device_interface, assembler, parameters)
            finally:
                rec.pop()
        self._patch(asm_mod, "select_potential_implementation", select)

        o_init = ExafmmInterface.__init__
        sig = inspect.signature(o_init)

        def init(self_, *a, **k):
            ba = sig.bind(self_, *a, **k)
            ba.apply_defaults()
            A = ba.arguments
            o_init(self_, *a, **k)
            self_._c18 = dict(mode=A["mode"], wavenumber=A["wavenumber"], expansion=A["expansion_order"],
                              ncrit=A["ncrit"], depth=A["depth"], nsrc=len(A["source_points"]), fresh=True,
                              cloud="?", grid="?", target="?")
        self._patch(ExafmmInterface, "__init__", init)

        o_fg = ExafmmInterface.__dict__["from_grid"].__func__
        sig_fg = inspect.signature(o_fg)

        def from_grid(cls, *a, **k):
            ba = sig_fg.bind(cls, *a, **k)
            ba.apply_defaults()
            A = ba.arguments
            rec.flags.append("from_grid")
            rec.fg_orders = []
            try:
                iface = o_fg(cls, *a, **k)
            finally:
                rec.flags.remove("from_grid")
            tag = iface._c18
            tag["cloud"] = _one(rec.fg_orders)
            tag["grid"] = rec.ex.grid_index(A["source_grid"])
            tag["target"] = rec.ex.grid_index(A["target_grid"] if A["target_grid"] is not None else A["source_grid"])
            return iface
        self._patch(ExafmmInterface, "from_grid", classmethod(from_grid))

        o_gfi = fmm_assembler.get_fmm_interface

        def gfi(*a, **k):
            iface = o_gfi(*a, **k)
            tag = iface._c18
            hit = not tag["fresh"]
            tag["fresh"] = False
            rec.ev("iface", tag=dict(tag), hit=hit)
            return iface
        self._patch(fmm_assembler, "get_fmm_interface", gfi)

        o_gpi = fmm_assembler.get_fmm_potential_interface

        def gpi(space, points_, *a, **k):
            rec.flags.append("pot_iface")
            rec.pi_orders = []
            try:
                iface = o_gpi(space, points_, *a, **k)
            finally:
                rec.flags.remove("pot_iface")
            tag = iface._c18
            hit = not tag["fresh"]
            if not hit:
                tag["cloud"] = _one(rec.pi_orders)
                tag["grid"] = rec.ex.grid_index(space.grid)
                tag["target"] = rec.ex.points_index(points_)
            tag["fresh"] = False
            rec.ev("piface", tag=dict(tag), hit=hit)
            return iface
        self._patch(fmm_assembler, "get_fmm_potential_interface", gpi)

    def uninstall(self):
        for obj, name, old in reversed(self.saved):
            setattr(obj, name, old)
        self.saved = []


def _kern_code(tag):
    for k, (mode, w) in R.KERNELS.items():
        if tag["mode"] == mode and (tag["wavenumber"] == w or (w is None and tag["wavenumber"] is None)):
            return str(k)
    return "?"


def _iface_str(tag):
    return f"{tag['grid']}.{tag['target']}.{_kern_code(tag)}.{tag['cloud']}.{tag['expansion']}.{tag['ncrit']}"


def _outside(fr, kinds):
    return [e["order"] for e in fr["events"] if e["kind"] in kinds and "from_grid" not in e["ctx"]
            and "pot_iface" not in e["ctx"]]


def used_of_frame(fr):
    """(ifaceHit, used string) from what the wrappers saw inside one AssemblerInterface.assemble call"""
    impl = fr["impl"]
    tri = _outside(fr, ("tri", "npts"))
    duffy = [e["order"] for e in fr["events"] if e["kind"] == "duffy"]
    if impl == "DenseAssembler":
        dt = _one([e["dtype"] for e in fr["events"] if e["kind"] == "dense-dtype"])
        return False, f"{_one(tri)},{_one(duffy)},-,{dt}"
    if impl == "SparseAssembler":
        return False, f"{_one(tri)},{_one(duffy)},-,{fr.get('dtype', '?')}"
    if impl == "SingularAssembler":
        dt = _one([e["dtype"] for e in fr["events"] if e["kind"] == "sing-dtype"])
        return False, f"{_one(tri)},{_one(duffy)},-,{dt}"
    if impl == "FmmAssembler":
        ifs = [e for e in fr["events"] if e["kind"] == "iface"]
        sing = []
        for ch in fr["children"]:
            sing += [e["order"] for e in ch["events"] if e["kind"] == "duffy"]
            tri += _outside(ch, ("tri", "npts")) if ch["impl"] != "SingularAssembler" else []
        hit = bool(ifs) and all(e["hit"] for e in ifs)
        iface = _one([_iface_str(e["tag"]) for e in ifs])
        return hit, f"{_one(tri)},{_one(sing)},{iface},{fr.get('dtype', '?')}"
    return False, f"?{impl}"


class Exec:
    """one history on the real API"""

    def __init__(self, rec):
        import bempp_cl.api as api
        self.api = api
        self.rec = rec
        rec.ex = self
        self.grids = {}
        self.grid_ids = {}
        self.pts = {}
        self.spaces = []
        self.explicit = []
        self.bops = []
        self.pots = []
        self.mass_obs = {}
        self.notes = []

    def grid(self, g):
        if g not in self.grids:
            V, E = R.make_mesh(g)
            self.grids[g] = self.api.Grid(V, E)
            self.grid_ids[self.grids[g].id] = g
        return self.grids[g]

    def grid_index(self, grid):
        return self.grid_ids.get(grid.id, "?")

    def points(self, i):
        if i not in self.pts:
            self.pts[i] = R.points(i)
        return self.pts[i]

    def points_index(self, arr):
        for i, p in self.pts.items():
            if p is arr or (p.shape == arr.shape and (p == arr).all()):
                return i
        return "?"

    def pobj(self, pref):
        return None if pref == "g" else self.explicit[int(pref[1:])]

    def _value(self, f):
        try:
            return ("ok", f())
        except Exception as e:  # noqa
            return ("raised", f"{type(e).__name__}: {str(e)[:160]}")

    def _weak(self, k):
        """call weak_form(); returns (obs tail, value)"""
        b = self.bops[k]
        self.rec.begin()
        w = b["op"].weak_form()
        frames = list(self.rec.frames)
        same = b.get("wf") is None or w is b["wf"]
        if not same:
            self.notes.append(dict(kind="not-memoised", op=k))
        if frames:
            hit, used = used_of_frame(frames[0])
            b["used"] = used
            fc = "0"
            if len(frames) > 1:
                used += "+extra-assemblies"
        else:
            hit, used, fc = False, b.get("used", "?never-assembled"), "1"
        first = b.get("wf") is None
        b["wf"] = w
        return f"{fc} {'1' if hit else '0'} {used}", w, first

    def apply(self, op):
        """returns (observation string in the driver's format, value record or None)"""
        api = self.api
        kind = op[0]
        if kind == "sg":
            R.set_field(api.GLOBAL_PARAMETERS, op[1], op[2])
            return "u", None
        if kind == "sp":
            api.DEFAULT_PRECISION = R.PREC[op[1]]
            return "u", None
        if kind == "np":
            from bempp_cl.api.utils.parameters import DefaultParameters
            p = DefaultParameters()
            R.set_fields(p, dict(zip(R.FIELDS, op[1:])))
            self.explicit.append(p)
            return "u", None
        if kind == "se":
            R.set_field(self.explicit[op[1]], op[2], op[3])
            return "u", None
        if kind == "cs":
            self.spaces.append(api.function_space(self.grid(op[1]), "DP", 0))
            return "u", None
        if kind == "co":
            _, asm, sp, kern, pref, prec = op
            self.rec.begin()
            o = R.make_bop(api, asm, kern, self.spaces[sp], self.pobj(pref), R.PREC[prec])
            obs = "u"
            if self.rec.frames or self.rec.loose:
                obs = "u+lookups-in-constructor"
            self.bops.append(dict(op=o, asm=asm, space=sp, pref=pref))
            return obs, None
        if kind == "wf":
            tail, w, first = self._weak(op[1])
            val = self._value(lambda: R.dense_of(w))
            return "asm " + tail, dict(value=val, first=first, dtype=str(getattr(w, "dtype", "")))
        if kind == "sf":
            b = self.bops[op[1]]
            self.rec.begin()
            had_wf = b.get("wf")
            s = b["op"].strong_form()
            frames = list(self.rec.frames)
            ai = b["op"].assembler
            own = [f for f in frames if f.get("ai") is ai]
            mass = [f for f in frames if f.get("ai") is not ai]
            if mass:
                _, mu = used_of_frame(mass[0])
                self.mass_obs[b["space"]] = mu
                mc = "0"
            else:
                mu, mc = self.mass_obs.get(b["space"], "-"), "1"
            if own:
                hit, used = used_of_frame(own[0])
                b["used"] = used
                fc = "0"
            else:
                hit, used, fc = False, b.get("used", "?never-assembled"), "1"
            w = b["op"].weak_form()
            if had_wf is not None and w is not had_wf:
                self.notes.append(dict(kind="not-memoised", op=op[1]))
            first = had_wf is None
            b["wf"] = w
            val = self._value(lambda: R.dense_of(s))
            return f"strong {mc} {mu} {fc} {'1' if hit else '0'} {used}", dict(value=val, first=first)
        if kind == "mm":
            sp = op[1]
            self.rec.begin()
            m = self.spaces[sp].mass_matrix()
            frames = list(self.rec.frames)
            prev = self.spaces[sp].__dict__.get("_c18_mass")
            if prev is not None and m is not prev:
                self.notes.append(dict(kind="mass-not-memoised", space=sp))
            self.spaces[sp].__dict__["_c18_mass"] = m
            if frames:
                _, mu = used_of_frame(frames[0])
                self.mass_obs[sp] = mu
                fc = "0"
            else:
                mu, fc = self.mass_obs.get(sp, "?never-assembled"), "1"
            val = self._value(lambda: R.dense_of(m))
            return f"mass {fc} {mu}", dict(value=val, first=fc == "0")
        if kind == "cp":
            _, asm, sp, pts, kern, pref = op
            self.rec.begin()
            try:
                o = R.make_pot(api, asm, kern, self.spaces[sp], self.points(pts), self.pobj(pref))
            except Exception as e:  # noqa
                self.pots.append(dict(op=None, used="?ctor-raised"))
                return f"pot 0 ?ctor-raised:{type(e).__name__}", None
            frames = list(self.rec.frames)
            hit, used = False, "?no-frame"
            if frames:
                fr = frames[0]
                tri = _outside(fr, ("tri", "npts"))
                pif = [e for e in fr["events"] if e["kind"] == "piface"]
                hit = bool(pif) and all(e["hit"] for e in pif)
                iface = _one([_iface_str(e["tag"]) for e in pif])
                used = f"{_one(tri)},-,{iface},d"
            self.pots.append(dict(op=o, used=used, space=sp))
            return f"pot {'1' if hit else '0'} {used}", None
        if kind == "ep":
            p = self.pots[op[1]]
            if p["op"] is None:
                return "pe ?ctor-raised", None
            space = self.spaces[p["space"]]
            gf = api.GridFunction(space, coefficients=R.coefficients(space.global_dof_count))
            self.rec.begin()
            val = self._value(lambda: p["op"].evaluate(gf))
            used = p["used"]
            relook = [e for e in self.rec.loose if e["kind"] in ("tri", "npts", "duffy")]
            if relook or self.rec.frames:
                used += "+lookups-in-evaluate"
            if val[0] == "ok" and _dt(val[1].dtype) != "d":
                used = used[:-1] + _dt(val[1].dtype)
            return f"pe {used}", dict(value=val, first=True)
        if kind == "cl":
            api.clear_fmm_cache()
            return "u", None
        raise ValueError(op)


def execute(ctx, plan):
    """run every history of the plan on the real API; returns per history (obs list, value list, notes)"""
    if plan.exec is not None:
        return plan.exec
    from vlib import fmmstub
    fmmstub.enable()
    import bempp_cl.api as api
    rec = Recorder()
    saved_prec = api.DEFAULT_PRECISION
    saved_params = R.get_fields(api.GLOBAL_PARAMETERS)
    results = []
    t0 = time.time()
    rec.install()
    try:
        with fmmstub.scratch_cwd():
            for h in plan.histories:
                R.set_fields(api.GLOBAL_PARAMETERS, R.DEFAULTS)
                api.DEFAULT_PRECISION = "double"
                api.clear_fmm_cache()
                ex = Exec(rec)
                obs, vals = [], []
                for op in h:
                    try:
                        o, v = ex.apply(op)
                    except Exception as e:  # noqa
                        o = f"raised:{type(e).__name__}:{str(e)[:120]}"
                        v = dict(value=("raised", f"{type(e).__name__}: {str(e)[:160]}"), first=True)
                    obs.append(o)
                    vals.append(v)
                results.append(dict(obs=obs, vals=vals, notes=ex.notes))
                ctx.log(f"history {len(results)}/{len(plan.histories)} executed ({len(h)} calls, {time.time() - t0:.0f}s)")
                if getattr(plan, "queue", None):
                    plan._pump()  # start queued reference interpreters as slots become free
    finally:
        rec.uninstall()
        R.set_fields(api.GLOBAL_PARAMETERS, saved_params)
        api.DEFAULT_PRECISION = saved_prec
        api.clear_fmm_cache()
    plan.exec = results
    plan.exec_wall = time.time() - t0
    return results


# ------------------------------------------------------------------------------------------------
# pipeline entry points


def _histories(ctx, rng, count, nops, thorough):
    hs = [parse_line(l) for l in FIXED_HISTORIES]
    kerns = (0, 0, 1) if thorough else (0,)
    for i in range(count):
        fmm = (i % 3) != 2  # every third history is FMM-free (exercises the part that is a theorem on the tree as found)
        hs.append(gen_history(rng, nops, fmm=fmm, kerns=kerns, single=(i % 2 == 0)))
    return hs


def _state(ctx):
    st = getattr(ctx, "c18", None)
    if st is None:
        st = ctx.c18 = {}
    return st


def generate(ctx):
    global THEOREMS, PARTIAL
    st = _state(ctx)
    info = {}
    try:
        variant, facts = detect_variant()
        st["variant"], st["known_variant"] = variant, True
        info.update(facts)
    except GenError:
        st["variant"], st["known_variant"] = "asfound", False
        THEOREMS = [N + t for t in _TH["asfound"]]
        PARTIAL = dict(_PARTIAL["asfound"])
        _prepare(ctx)
        raise
    THEOREMS = [N + t for t in _TH[variant]]
    PARTIAL = dict(_PARTIAL[variant])
    info["variant"] = variant
    _prepare(ctx)
    info["histories"] = len(st["plan"].histories)
    info["reference_jobs"] = len(st["plan"].jobs)
    return info


def _prepare(ctx, deep=False):
    st = _state(ctx)
    build_driver()
    count = ctx.pick(5, 26) * (2 if deep else 1)
    nops = ctx.pick(8, 20)
    hs = _histories(ctx, ctx.rng, count, nops, ctx.thorough)
    if deep:
        hs = hs[len(FIXED_HISTORIES):]
    plan = Plan(st["variant"], hs)
    plan.launch(ctx, max_procs=ctx.pick(6, 8), per_proc=ctx.pick(12, 8))
    st["deep_plan" if deep else "plan"] = plan
    return plan


def _nontrivial_flags(h, model):
    """per step: (key, flags) following RULE"""
    out = []
    created_at, first_use, pref_of, asm_of = {}, {}, {}, {}
    pcreated, ppref, pasm = {}, {}, {}
    changes = []  # (index, target)  target 'g' or 'e<i>'
    nb = npot = 0
    glob = dict(R.DEFAULTS)
    expl = []
    for i, (op, mo) in enumerate(zip(h, model)):
        flags = []
        if op[0] == "sg":
            changes.append((i, "g"))
            glob[op[1]] = op[2]
        elif op[0] == "se":
            changes.append((i, f"e{op[1]}"))
            if op[1] < len(expl):
                expl[op[1]][op[2]] = op[3]
        elif op[0] == "np":
            expl.append(dict(zip(R.FIELDS, op[1:])))
        elif op[0] == "cl":
            changes.append((i, "cl"))
        elif op[0] == "co" and mo == "u":
            created_at[nb], pref_of[nb], asm_of[nb] = i, op[4], op[1]
            nb += 1
        elif op[0] == "cp" and mo.startswith("pot"):
            pcreated[npot], ppref[npot], pasm[npot] = i, op[5], op[1]
            if op[5] != "g":
                e = expl[int(op[5][1:])]
                if any(e[f] != glob[f] for f in RELEVANT_POT[op[1]]):
                    flags.append("b")
            if mo.split()[1] == "1":
                flags.append("c")
            out.append((("cp", op[1], op[5][0], tuple(flags), mo.split()[2]), bool(flags)))
            npot += 1
            continue
        elif op[0] in ("wf", "sf") and mo.split()[0] in ("asm", "strong"):
            k = op[1]
            t = mo.split()
            fc, hit, used = (t[1], t[2], t[3]) if t[0] == "asm" else (t[3], t[4], t[5])
            if fc == "0":
                first_use[k] = i
                if any(created_at[k] < j < i and tgt == pref_of[k] for j, tgt in changes):
                    flags.append("a")
                if pref_of[k] != "g":
                    e = expl[int(pref_of[k][1:])]
                    if any(e[f] != glob[f] for f in RELEVANT[asm_of[k]]):
                        flags.append("b")
                if hit == "1":
                    flags.append("c")
            else:
                if any(first_use.get(k, i) < j < i for j, _ in changes):
                    flags.append("d")
            out.append(((op[0], asm_of[k], pref_of[k][0], tuple(flags), used), bool(flags)))
            continue
        elif op[0] == "ep" and mo.startswith("pe"):
            k = op[1]
            if any(pcreated[k] < j < i for j, _ in changes):
                flags.append("d")
            out.append((("ep", pasm[k], ppref[k][0], tuple(flags), mo.split()[1]), bool(flags)))
            continue
        elif op[0] == "mm" and mo.startswith("mass"):
            t = mo.split()
            if t[1] == "0" and glob["regular"] != R.DEFAULTS["regular"]:
                flags.append("a")
            if t[1] == "1" and any(tgt == "g" for _, tgt in changes):
                flags.append("d")
            out.append((("mm", tuple(flags), t[2]), bool(flags)))
            continue
        out.append((None, False))
    return out


def _model_consistent(mo):
    """does the model predict that the FMM evaluator's point maps fit its interface?"""
    t = mo.split()
    used = t[3] if t[0] == "asm" else t[5] if t[0] == "strong" else t[1] if t[0] == "pe" else None
    if used is None:
        return True
    reg, _s, iface, _d = used.split(",")
    if iface == "-":
        return True
    return iface.split(".")[3] == reg


def correspondence(ctx, plan=None):
    res = Result()
    st = _state(ctx)
    if plan is None:
        if "plan" not in st:
            st.setdefault("variant", "asfound")
            _prepare(ctx)
        plan = st["plan"]
    results = execute(ctx, plan)
    res.stats["variant"] = plan.variant
    res.stats["exec_wall_s"] = round(plan.exec_wall, 1)
    for hi, (h, r, model, spec) in enumerate(zip(plan.histories, results, plan.model, plan.spec)):
        flags = _nontrivial_flags(h, model)
        for i, (op, obs, mo) in enumerate(zip(h, r["obs"], model)):
            key, nt = flags[i]
            res.case(key=(key if key is not None else ("plain", op[0])), nontrivial=nt,
                     sample=dict(history=line_of(h), step=i, op=" ".join(map(str, op)), observed=obs, model=mo,
                                 spec=spec[i]) if nt else None)
            if obs != mo:
                res.disagree("configuration used differs from the model", variant=plan.variant, history=line_of(h),
                             step=i, op=" ".join(map(str, op)), impl=obs, model=mo)
                res.count("steps_disagreeing")
            v = r["vals"][i]
            if v is not None and op[0] in ("wf", "sf", "ep"):
                raised = v["value"][0] == "raised"
                if raised == _model_consistent(mo):
                    res.disagree("model predicts a consistent FMM configuration iff the first matvec works",
                                 history=line_of(h), step=i, impl=v["value"][1] if raised else "no exception", model=mo)
            if mo != spec[i] and mo.replace(" 1 ", " 0 ", 1) != spec[i]:
                res.count("steps_where_model_differs_from_spec")
        res.count("histories")
        res.count("steps", len(h))
    return res


def _rel(a, b):
    import numpy as np
    if a.shape != b.shape:
        return float("inf")
    scale = float(np.abs(b).max()) or 1.0
    return float(np.abs(a.astype(np.complex128) - b.astype(np.complex128)).max()) / scale


def _finding_key(h, i, plan_meta, op):
    try:
        if op[0] in ("wf", "sf"):
            pref = plan_meta["bops"][op[1]]["pref"]
            asm = plan_meta["bops"][op[1]]["asm"]
        elif op[0] == "ep":
            pref = plan_meta["pots"][op[1]]["pref"]
            asm = plan_meta["pots"][op[1]]["asm"]
        else:
            return None
    except (IndexError, KeyError):
        return None
    if asm == "fmm":
        return "fmm-ignores-explicit-parameters" if pref != "g" else "fmm-cache-key-quadrature-order"
    return None


def oracle(ctx, plan=None):
    import numpy as np
    res = Result()
    st = _state(ctx)
    if plan is None:
        if "plan" not in st:
            st.setdefault("variant", "asfound")
            _prepare(ctx)
        plan = st["plan"]
    results = execute(ctx, plan)
    refs = plan.wait(ctx)
    res.stats["reference_wall_s"] = round(getattr(plan, "ref_wall", 0.0), 1)
    res.stats["reference_jobs"] = len(plan.jobs)
    for f in getattr(plan, "ref_failures", []):
        res.notes.append(f"reference interpreter failed: {f}")
    for jid, d in getattr(plan, "repeat_diffs", []):
        res.case(("ref-repeat", jid), nontrivial=False)
        if d > TOL:
            res.counterexample("reference-process-history", f"recomputing the first job of a reference interpreter at "
                               f"its end gives a different result (max diff {d:.3e})", job=jid)
    tw = getattr(plan, "twin_diffs", [])
    if tw:
        res.stats["worst_twin_reference_difference"] = float(f"{max(d for _, d in tw):.3e}")
    for jid, d in tw:
        res.case(("ref-twin", jid), nontrivial=False)
        if d > TOL:
            res.counterexample("reference-process-history", f"two fresh interpreters that compute the same reference "
                               f"jobs from explicit arguments in opposite order disagree on {jid} by {d:.3e} relative: "
                               f"the result depends on what the process assembled before", job=jid, error=d)
    worst = {}
    for hi, (h, r, exp, meta, spec) in enumerate(zip(plan.histories, results, plan.expect, plan.meta, plan.spec)):
        for n in r["notes"]:
            res.counterexample("weak-form-not-memoised" if n["kind"] == "not-memoised" else "mass-matrix-not-memoised",
                               f"history `{line_of(h)}`: a repeated weak_form()/mass_matrix() returned a different "
                               f"object ({n})", history=line_of(h), variant=plan.variant)
        for i, (op, v, e) in enumerate(zip(h, r["vals"], exp)):
            if v is None:
                continue
            status, val = v["value"]
            if not e and status != "raised":
                continue
            res.case(("oracle", op[0], spec[i]), nontrivial=False)
            if status == "raised":
                key = _finding_key(h, i, meta, op) or f"raises-{op[0]}"
                res.counterexample(key, f"history `{line_of(h)}`: step {i} ({' '.join(map(str, op))}) raises {val}; "
                                   f"a fresh interpreter computes the result from the same arguments "
                                   f"(specification: {spec[i]})", history=line_of(h), step=i, variant=plan.variant)
                continue
            for item in e:
                kind = item[0]
                if kind == "weak":
                    _, jid, tol, what = item
                    ref = refs.get(jid)
                elif kind == "strong":
                    _, mj, jid, tol, what = item
                    ref = None
                    if mj in refs and jid in refs:
                        ref = np.linalg.solve(refs[mj], refs[jid])
                        tol = max(tol, 1e-12)
                else:
                    _, jid, tol, what = item
                    ref = refs.get(jid)
                if ref is None:
                    res.notes.append(f"no reference for {jid}")
                    continue
                d = _rel(np.asarray(val), ref)
                cls = f"{kind}:{what}"
                if d <= tol:
                    worst[cls] = max(worst.get(cls, 0.0), d)
                if d > tol:
                    key = _finding_key(h, i, meta, op) or f"history-dependent-{op[0]}-{kind}"
                    res.counterexample(key, f"history `{line_of(h)}`: result of step {i} ({' '.join(map(str, op))}) "
                                       f"differs from the {what} ({jid}) by {d:.3e} relative (tolerance {tol:g}); "
                                       f"specification: {spec[i]}", history=line_of(h), step=i, job=jid, error=d,
                                       variant=plan.variant)
    if getattr(plan, "ref_failures", []) and not res.counterexamples:
        # nothing failed in the histories themselves, so a reference that could not be computed is an infrastructure
        # problem (exit 2), not a violation
        raise RuntimeError("reference interpreter failed: " + json.dumps(plan.ref_failures)[:1500])
    res.stats["worst_relative_difference_among_passing"] = {k: float(f"{v:.3e}") for k, v in worst.items()}
    # sensitivity of the oracle: references for different regular orders must differ, otherwise a parameter that is
    # ignored everywhere could not be seen
    by = {}
    for jid, j in plan.jobs.items():
        if jid in refs and j["kind"] == "weak" and j["asm"] == "dense" and j["prec"] == "double":
            by.setdefault((j["grid"], j["kern"]), []).append((j["params"].get("regular"), refs[jid]))
    sens = []
    for lst in by.values():
        for a in range(len(lst)):
            for b in range(a + 1, len(lst)):
                if lst[a][0] != lst[b][0]:
                    sens.append(_rel(lst[a][1], lst[b][1]))
    if sens:
        res.stats["min_reference_sensitivity_to_regular_order"] = float(f"{min(sens):.3e}")
    # histories over DERIVED operators (sums / differences / multiples / products holding their operands' memoised
    # weak forms): assembling one operator must not change any other (props/c18_derived.py; seeded change C18-d)
    if "derived_done" not in st:
        st["derived_done"] = True
        from props import c18_derived
        c18_derived.derived_histories(ctx, res)
    if plan is st.get("plan"):
        st["oracle_keys"] = {c["key"] for c in res.counterexamples}
    return res


FMM_FINDING_KEYS = {"fmm-cache-key-quadrature-order", "fmm-ignores-explicit-parameters"}


def search(ctx, broken):
    """a proof or the correspondence broke: look for a history on which the real code breaks the property itself"""
    st = _state(ctx)
    res = Result()
    found = set(st.get("oracle_keys", ())) - FMM_FINDING_KEYS
    if found:
        res.notes.append(f"failing input already found by the oracle on the histories of this run: {sorted(found)}")
        return res
    plan = _prepare(ctx, deep=True)
    c = correspondence(ctx, plan)
    res.stats["search_disagreements"] = len(c.disagreements)
    res.merge(oracle(ctx, plan))
    return res


def replay(ctx, path):
    """re-run the recorded history against a fresh interpreter"""
    global THEOREMS, PARTIAL
    with open(path) as f:
        rep = json.load(f)
    if rep.get("kind") == "broken-obligation" or "history" not in rep:
        from vlib import common
        return common.main_pipeline(sys.modules[__name__], ctx)
    st = _state(ctx)
    try:
        st["variant"], _ = detect_variant()
    except GenError:
        st["variant"] = "asfound"
    build_driver()
    plan = Plan(st["variant"], [parse_line(rep["history"])])
    plan.launch(ctx, max_procs=6, per_proc=12)
    res = oracle(ctx, plan)
    hit = [c for c in res.counterexamples if c["key"] == rep.get("key")]
    if hit:
        print(f"REPLAY property={PID} key={rep.get('key')} still fails: {hit[0]['what'][:300]}")
        print(f"VIOLATION property={PID} replay={path}")
        return 1
    print(f"REPLAY property={PID} key={rep.get('key')} no longer fails")
    return 0


LEVEL_TEXT = ("Lean 4 theorems over a state machine of the process-wide state (global / explicit parameter objects, "
              "DEFAULT_PRECISION, operator and mass-matrix memoisation, both FMM caches keyed as in the source), by "
              "induction over ARBITRARY call sequences: the configuration used by every assembly equals the cache-free "
              "specification resolve(arguments at construction, parameter values at first use) and is frozen afterwards "
              "(weak_form idempotent, later global changes irrelevant, explicit objects honoured). On the tree as found "
              "this is a theorem for all histories without FMM operators, the FMM violation is a kernel-checked "
              "counterexample, and the full theorem is proved for the model of the repaired tree; the source text "
              "decides on every run which of the two models is compared with the running code, step by step, under "
              "recording wrappers.")
LEVEL_NOTE = ("full on the state machine for the repaired tree; partial (non-FMM histories) on the tree as found. Trusted: "
              "Lean kernel, the hand model Model/Hist.lean tied by differential comparison of the configuration used, ast "
              "inspection of the FMM cache keys, exafmm stub. Numerical equality with a fresh interpreter and single vs "
              "double accuracy are oracle-only.")
TECHNIQUE = ("Lean 4 proof (simulation of the code model by a cache-free specification, induction over op lists, "
             "decide for the counterexample histories) + differential correspondence with recording wrappers + "
             "fresh-interpreter oracle")
