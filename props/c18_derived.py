"""C18 — histories over DERIVED operators (sums, differences, scalar multiples, products of existing operators).

The state machine of Model/Hist.lean covers the caches and parameter objects behind `create operator / weak_form /
strong_form / ...`.  Operators are also created FROM operators (`A + B`, `S - C`, `2 * S`, `A * B`), and those hold
references to their operands' memoised weak forms.  The property says that the matrix of an operator is determined by
its explicit arguments whatever was assembled before or after; for a derived operator the explicit arguments are its
operands, so

    for every history of `new = combine(existing_i, existing_j)` / `weak_form(k)` steps, after EVERY step the matrix of
    EVERY operator created so far equals the NumPy expression of the leaf matrices recorded when the leaves were first
    assembled, and a repeated weak_form() returns the same object.

Seeded change C18-d accumulated `C` in place into the cached matrix of `S` when assembling `S + C`.

The leaves are real dense / sparse operators of the implementation (small grids, low orders); their own correctness
against a fresh interpreter is the business of the main oracle (props/c18.py).  Everything here is one process.
"""
import numpy as np

TOL = 1e-12


def _leaves(ctx, api, rng):
    from vlib import meshgen as mg
    V, E = mg.octahedron()
    V = mg.perturb(V, 0.15, rng)
    g = api.Grid(V, E)
    dp0 = api.function_space(g, "DP", 0)
    p1 = api.function_space(g, "P", 1)
    B = api.operators.boundary
    from bempp_cl.api.utils.parameters import DefaultParameters
    par = DefaultParameters()
    par.quadrature.regular = 2
    par.quadrature.singular = 3
    k = 1.0 + 0.5j
    spaces = [("DP0", dp0)] if not ctx.thorough else [("DP0", dp0), ("P1", p1)]
    out = []
    for sname, sp in spaces:
        leaves = [
            ("lap-sl", B.laplace.single_layer(sp, sp, sp, parameters=par)),
            ("lap-dl", B.laplace.double_layer(sp, sp, sp, parameters=par)),
            ("ident", B.sparse.identity(sp, sp, sp, parameters=par)),
        ]
        if ctx.thorough:  # every further operator type costs 5-12 s of JIT
            leaves += [("lap-adl", B.laplace.adjoint_double_layer(sp, sp, sp, parameters=par)),
                       ("helm-sl", B.helmholtz.single_layer(sp, sp, sp, k, parameters=par))]
        out.append((sname, sp, leaves))
    return out


def _dense(wf):
    return np.array(wf.to_dense())


def derived_histories(ctx, res):
    import bempp_cl.api as api
    rng = ctx.rng
    nhist = ctx.pick(6, 40)
    nsteps = ctx.pick(10, 16)
    worst = 0.0
    for sname, sp, leaves in _leaves(ctx, api, rng):
        # leaf matrices, recorded once (copies)
        base = {name: _dense(op.weak_form()) for name, op in leaves}
        minv = None
        for hi in range(nhist):
            # pool entries: (label, operator, expected matrix or None if never asked, weak form object or None)
            # entry: [label, operator, expected matrix, weak form object or None, magnitude]; the magnitude is the size of the
            # OPERANDS (|a| + |b| for sums, ...), so that an operator whose expected matrix cancels to zero
            # (`S + -(S * I)`) is compared on the scale of what was added, not of the rounding noise that is left
            pool = [[name, op, base[name].copy(), None, float(np.max(np.abs(base[name])))] for name, op in leaves]
            steps = []
            # the first history is the fixed one of seed C18-d: S = A + B; T = S + C; look at S, U = S - C, T again
            n0 = len(leaves)
            fixed = [("add", 0, 1), ("add", n0, 0), ("sub", n0, 0), ("add", n0 + 1, 1), ("scal", n0, None)] if hi == 0 else []
            for si in range(nsteps):
                if si < len(fixed):
                    kind, i, j = fixed[si]
                else:
                    kind = rng.choice(["add", "add", "add", "sub", "scal", "neg", "mul"])
                    # prefer derived operands: the defect class lives in operators that hold other operators
                    cand = list(range(len(pool)))
                    i = rng.choice(cand[len(leaves):] or cand) if rng.random() < 0.6 else rng.choice(cand)
                    j = rng.choice(cand)
                a, b = pool[i], (pool[j] if j is not None else None)
                c = None
                try:
                    if kind == "add":
                        new, exp, lab, mag = a[1] + b[1], a[2] + b[2], f"({a[0]}+{b[0]})", a[4] + b[4]
                    elif kind == "sub":
                        new, exp, lab, mag = a[1] - b[1], a[2] - b[2], f"({a[0]}-{b[0]})", a[4] + b[4]
                    elif kind == "scal":
                        c = rng.choice([2.0, -0.5, 0.25, 1j, 1.5 - 0.5j])
                        new, exp, lab, mag = c * a[1], c * a[2], f"{c}*{a[0]}", abs(c) * a[4]
                    elif kind == "neg":
                        new, exp, lab, mag = -a[1], -a[2], f"-{a[0]}", a[4]
                    else:
                        if minv is None:
                            minv = np.linalg.inv(base["ident"])
                        new, exp, lab = a[1] * b[1], a[2] @ minv @ b[2], f"({a[0]}*{b[0]})"
                        n_ = minv.shape[0]
                        mag = n_ * n_ * a[4] * float(np.max(np.abs(minv))) * b[4]
                except Exception as e:  # noqa: BLE001
                    res.counterexample("history-dependent-derived-operator-raises",
                                       f"combining operators raised {type(e).__name__}: {e}", space=sname,
                                       history=steps + [[kind, i, j]])
                    break
                if len(lab) > 120:
                    lab = f"op{len(pool)}"
                pool.append([lab, new, exp, None, mag])
                steps.append([kind, i, j] + ([str(c)] if c is not None else []))
                # assemble the new operator, then look at EVERY operator created so far
                bad = None
                for q in [len(pool) - 1] + list(range(len(pool) - 1)):
                    ent = pool[q]
                    if q != len(pool) - 1 and ent[3] is None and rng.random() < 0.5:
                        continue  # leave some operators unassembled for later steps
                    try:
                        wf = ent[1].weak_form()
                    except Exception as e:  # noqa: BLE001
                        bad = (q, f"weak_form() raised {type(e).__name__}: {e}")
                        break
                    if ent[3] is not None and wf is not ent[3]:
                        bad = (q, "a repeated weak_form() returned a different object")
                        break
                    ent[3] = wf
                    M = _dense(wf)
                    scale = max(1e-300, ent[4])
                    d = float(np.max(np.abs(M - ent[2]))) / scale if M.shape == ent[2].shape else float("inf")
                    if d > TOL:
                        bad = (q, f"its matrix differs from the NumPy expression of the leaf matrices by {d:.3e} relative")
                        break
                    worst = max(worst, d)
                res.case(("derived", sname, hi, si, kind), nontrivial=i >= len(leaves) or (j is not None and j >= len(leaves)),
                         sample=dict(kind="derived-operator history", space=sname, steps=steps[-3:]) if si == nsteps - 1 else None)
                if bad is not None:
                    q, what = bad
                    res.counterexample(
                        "history-dependent-derived-operator",
                        f"space {sname}, leaves {[n for n, _ in leaves]} (indices 0..{len(leaves) - 1}), history of "
                        f"derived operators {steps}: after assembling operator {len(pool) - 1}, operator {q} = {pool[q][0]}: "
                        f"{what}", space=sname, history=steps, operator=q, label=pool[q][0])
                    break
    res.stats["derived_histories_worst_rel_difference"] = float(f"{worst:.3e}")
    return res
