"""C09 — function spaces are conforming and their DOF maps are coherent.

Tie A/B: props/c09_gen.py (DUAL0 index formulas, DUAL1 dof tables, reference shapesets).
Tie C (correspondence): `local2global`, `local_multipliers`, `support`, `global2local`, `global_dof_count`,
`normal_multipliers`, the localised space, `map_to_localised_space`, `map_to_full_grid` and (DUAL0/DUAL1) the COO
triplets of `dof_transformation` of the REAL spaces are compared exactly with the Lean model
(`Model/Space.lean` through the native driver), which receives the very tables the constructors read
(`grid.elements`, `vertex_neighbors`, `element_edges`, `edge_neighbors`, `vertex_on_boundary`, `domain_indices`, `edges`).
Oracle: the property itself on the real code (jumps across interior edges, basis sums, g2l/l2g inverse, dof <-> entity
attachment, dof counts and supports against an independent computation from the element array alone).
"""
import itertools
from fractions import Fraction

from vlib.common import Result, run_driver, build_driver
from props import c09_gen, c11_gen

PID = "C09"
LEAN_MODULES = ["BemppVerif.Props.C09"]
N = "BemppVerif.C09."
THEOREMS = [N + t for t in [
    "g2l_inverts_l2g",
    "dp_dofs_are_elements", "dp_partition_of_unity", "localised_inverts",
    "p1_dof_is_vertex", "p1_dofs_are_selected_vertices", "p1_dof_count", "p1_support_extension",
    "p1_vertex_single_valued", "p1_continuous_on_edge", "p1_artificial_dof_owned", "p1_partition_of_unity",
    "p1_whole_closed_grid_all_used",
    "rwg_artificial_dof_owned", "rwg_dof_is_edge", "rwg_dof_edges_selected", "rwg_sign_rule", "rwg_dof_count",
    "rwg_support",
    "rwg_normal_flux", "rwg_normal_continuous", "snc_tangential_flux",
    "dual0_index_partition", "dual0_tables_match_connectivity", "dual0_cell_is_vertex_patch",
    "dual1_tables_partition", "dual1_nodes_by_kind", "dual1_edge_sum", "dual1_vertex_sum",
    "dual_partition_of_unity_partial", "bc_spoke_cancellation_partial",
]]
PARTIAL = {
    N + "dual_partition_of_unity_partial":
        "DUAL0/DUAL1 partition of unity: proved are the complete characterisation of the DUAL0 triplets "
        "(dual0_cell_is_vertex_patch), that the extracted DUAL1 tables partition the 18 local dofs and put each value "
        "on the node it is documented for, and that the values meeting at a node add up to 1; NOT proved as a theorem "
        "over all grids: the row sums of dof_transformation equal 1 on a whole closed grid (exact correspondence of the "
        "COO triplets + numerical oracle)",
    N + "bc_spoke_cancellation_partial":
        "BC/RBC: only the cancellation of the two coefficients on either side of a spoke in "
        "_interior_barycentric_edges_coefficients is a theorem; conformity (continuous normal / tangential component of "
        "every BC/RBC function across every interior barycentric edge) is carried by correspondence of the bookkeeping "
        "(support, dof maps, multipliers, dof count) and by the numerical oracle only; the fan traversal of "
        "grid.py:1324-1650 is not modelled",
}
TRUSTED = [
    "hand model lean/BemppVerif/Model/Space.lean of _process_segments, the DP0/DP1/P1/RWG/SNC constructors, "
    "make_localised_space, the two COO maps, DUAL0/DUAL1 (support, dof maps, dof_transformation triplets) and the BC/RBC "
    "bookkeeping, tied to the source by exact differential comparison on every run",
    "the table facts named as hypotheses of the theorems (VertexNeighborsSound/Complete, EdgeNeighborsSound/Complete, "
    "Manifold, NoRepeatedVertex, NoRepeatedEdge) are C11 obligations about the real grid tables; here they are checked "
    "on every generated grid by the oracle",
    "geometry: P1 shape functions are the barycentric coordinates and the Piola map is J = [v1-v0, v2-v0] "
    "(traced shapesets in Gen/SpaceShapes.lean; the evaluators _numba_evaluate/_numba_rwg0_evaluate/_numba_snc0_evaluate "
    "are exercised by the numerical oracle only)",
]
ASSUMPTIONS = [
    "the space has at least one dof: for a space without dofs the code reports global_dof_count = 1 (1 + max of an "
    "all-zero local2global) with all multipliers 0; the theorems state the exact value (gridDofCount = max 1 count)",
    "DUAL1 with an empty support raises IndexError (no function in the space; outside the quantifier)",
    "edge spaces (RWG/SNC/BC/RBC): every edge has at most two neighbouring elements (Manifold); non-manifold soups are "
    "covered by the correspondence only",
    "SNC/RBC tangential continuity is tested across edges where the effective normal field "
    "(normal multiplier x orientation) is consistent",
    "grids with < 2^32 dofs (uint32 local2global is modelled by Nat)",
]
RULE = ("one case = one real function space (grid x kind x whole/segments/support_elements x include_boundary_dofs x "
        "truncate_at_segment_edge x swapped normals); non-trivial when the grid has a boundary edge AND the support has an "
        "interior segment interface (an edge between a supported and an unsupported element) AND the space has a "
        "zero-multiplier local dof on its support; distinct by (grid, kind, options)")
LEVEL_TEXT = ("Lean 4 theorems for all grids / supports / option combinations (unbounded sizes) about literal models of "
              "the dof-map constructors: global2local inverts local2global on non-zero multipliers; P1 dofs are exactly the "
              "vertices selected by the options in increasing order, single valued at shared vertices, support extension; "
              "artificial zero-multiplier entries repeat an owned dof (premise of C16); RWG/SNC dofs are the edges with two "
              "supported neighbours (or one with boundary dofs), +1 on the smaller and -1 on the larger element index, dof "
              "count; Piola normal flux / tangential identities over any field; partition-of-unity index facts for "
              "DP0/P1/DUAL0/DUAL1.  The model is compared exactly with the implementation on every run.")
LEVEL_NOTE = ("full for DP0/DP1/P1/RWG/SNC/DUAL0/DUAL1 index logic under the named grid-table hypotheses (C11), partial "
              "for BC/RBC (correspondence of the bookkeeping + numerical oracle + spoke cancellation lemma).  Trusted: Lean "
              "kernel, hand model Model/Space.lean tied by differential comparison, evaluators exercised numerically.")
TECHNIQUE = "Lean 4 proof (store-list / loop-invariant reasoning, ring identities) + differential correspondence + oracle"


def generate(ctx):
    info = {}
    info.update(c11_gen.generate())
    info.update(c09_gen.generate())
    return info


# ------------------------------------------------------------------------------------------------
# grids

EDGE_LOCAL = [(0, 1), (2, 0), (1, 2)]


def _grids(ctx, rng, deep=False):
    """[(name, V, E, D or None, manifold)]"""
    import numpy as np
    from vlib import meshgen as mg
    big = ctx.thorough or deep
    out = []

    def add(name, V, E, D=None, relabel=False, manifold=True):
        if relabel:
            if D is None:
                V, E = mg.relabel(V, E, rng)
            else:
                V, E, D = mg.relabel(V, E, rng, D)
        out.append((name, np.asarray(V, float), np.asarray(E, np.uint32),
                    None if D is None else np.asarray(D, np.uint32), manifold))

    def doms(ne, labels):
        """random domains in which every label occurs"""
        d = mg.random_domains(ne, rng, labels=labels)
        for k, lab in enumerate(labels):
            if k < ne:
                d[rng.randrange(ne)] = lab
        return d

    V, E = mg.tetrahedron()
    add("tetrahedron", mg.perturb(V, 0.05, rng), E)
    V, E = mg.octahedron()
    add("octahedron-dom", mg.perturb(V, 0.05, rng), E, doms(8, (0, 3)), relabel=True)
    V, E = mg.cube(1)
    add("cube1-dom", V, E, np.array([0] * 6 + [3] * 6, dtype=np.uint32))
    V, E = mg.cube(2, flip_diag=bool(rng.randrange(2)))
    add("cube2-dom-relabel", mg.perturb(V, 0.03, rng), E, doms(48, (1, 2, 7)), relabel=True)
    V, E = mg.screen(2, 2, wobble=0.1, rng=rng)
    add("screen2x2-dom", V, E, np.array([0, 0, 3, 3, 0, 0, 3, 3], dtype=np.uint32))
    V, E = mg.screen(3, 3, wobble=0.05, rng=rng)
    add("screen3x3-dom-relabel", V, E, doms(18, (0, 2, 9)), relabel=True)
    # a screen with a compact interior segment: the 4x4 screen with the inner 2x2 block as domain 5
    V, E = mg.screen(4, 4, wobble=0.05, rng=rng)
    D = np.zeros(E.shape[1], dtype=np.uint32)
    for j in range(E.shape[1]):
        c = V[:, E[:, j].astype(int)].mean(axis=1)
        if 0.25 < c[0] < 0.75 and 0.2 < c[1] < 0.6:
            D[j] = 5
    add("screen4x4-inner-dom", V, E, D)
    # cube with a missing face (open, multi-domain)
    V, E = mg.cube(2)
    keep = [j for j in range(E.shape[1]) if not all(abs(V[2, int(E[i, j])]) < 1e-12 for i in range(3))]
    add("cube2-open-dom", mg.perturb(V, 0.02, rng), E[:, keep], doms(len(keep), (0, 4)), relabel=True)
    V1, E1 = mg.tetrahedron()
    V2, E2 = mg.octahedron()
    V, E = mg.union([(V1, E1), (V2 + 5.0, E2)])
    add("union-tet-oct-dom", V, E, np.array([0] * 4 + [6] * 4 + [2] * 4, dtype=np.uint32))
    V, E = mg.torus_voxel()
    if big:
        add("torus-dom-relabel", V, E, doms(E.shape[1], (0, 1, 4)), relabel=True)
    else:
        # genus 1 in the quick tier: the voxel torus is 64 elements
        add("torus-dom", V, E, doms(E.shape[1], (0, 4)))
    for r in range(2 if not big else 8):
        V, E = mg.random_soup(rng)
        add(f"soup{r}", V, E, mg.random_domains(E.shape[1], rng, labels=(0, 1)), manifold=False)
    if big:
        V, E = mg.icosahedron()
        add("icosahedron-dom", V, E, doms(20, (0, 7)), relabel=True)
        V, E = mg.lshape()
        add("lshape-dom", V, E, doms(E.shape[1], (0, 1, 4)))
        V, E = mg.cube(3)
        add("cube3-dom-relabel", mg.perturb(V, 0.02, rng), E, doms(E.shape[1], (0, 1, 2, 5)), relabel=True)
        V, E = mg.screen(5, 4, wobble=0.05, rng=rng)
        add("screen5x4-dom", V, E, doms(E.shape[1], (0, 1, 2)))
    return out


KINDS = [("DP", 0), ("DP", 1), ("P", 1), ("RWG", 0), ("SNC", 0), ("DUAL", 0), ("DUAL", 1), ("BC", 0), ("RBC", 0)]
FLAGGED = {"P", "RWG", "SNC", "BC", "RBC", "DUAL"}
MODEL_KIND = {"DP0": "dp0", "DP1": "dp1", "P1": "p1", "RWG0": "rwg", "SNC0": "rwg", "DUAL0": "dual0", "DUAL1": "dual1",
              "BC0": "bc", "RBC0": "bc"}
NSHAPE = {"dp0": 1, "dp1": 3, "p1": 3, "rwg": 3, "dual0": 1, "dual1": 3, "bc": 3}
FLAGSETS = [dict(include_boundary_dofs=a, truncate_at_segment_edge=b) for a in (False, True) for b in (True, False)]


def _selections(ctx, rng, D, ne, deep=False):
    import numpy as np
    big = ctx.thorough or deep
    sels = [dict()]
    labels = sorted(set(D.tolist())) if D is not None else []
    if len(labels) >= 2:
        sels.append(dict(segments=[labels[-1]]))
        if len(labels) >= 3:
            sels.append(dict(segments=sorted(rng.sample(labels, 2))))
        if big:
            sels.append(dict(segments=[labels[0]]))
    if ne > 1:
        nsub = rng.randrange(1, ne)
        sels.append(dict(support_elements=np.array(sorted(rng.sample(range(ne), nsub)), dtype=np.uint32)))
        if big:
            sels.append(dict(support_elements=np.array(sorted(rng.sample(range(ne), max(1, ne // 3))), dtype=np.uint32)))
    return sels


def _okey(o):
    parts = []
    for k in sorted(o):
        v = o[k]
        if hasattr(v, "tolist"):
            v = v.tolist()
        parts.append(f"{k}={v}")
    return ";".join(parts) or "whole"


class GridInfo:
    """the real grid, the tables handed to the model and an independent topology computed from `elements` alone"""

    def __init__(self, name, V, E, D, manifold):
        import numpy as np
        import bempp_cl.api as api
        self.name, self.V, self.E, self.D, self.manifold_hint = name, V, E, D, manifold
        self.grid = api.Grid(V, E, D)
        g = self.grid
        self.ne, self.nv, self.nedges = g.number_of_elements, g.number_of_vertices, g.number_of_edges
        self.tables = self._tables(g)
        # independent topology
        Ei = np.asarray(E, np.int64)
        self.vert_elems = [[] for _ in range(self.nv)]
        self.edge_elems = {}
        for e in range(self.ne):
            for i in range(3):
                self.vert_elems[int(Ei[i, e])].append(e)
            for l, (a, b) in enumerate(EDGE_LOCAL):
                k = tuple(sorted((int(Ei[a, e]), int(Ei[b, e]))))
                self.edge_elems.setdefault(k, []).append((e, l))
        self.boundary_vertex = np.zeros(self.nv, bool)
        for (a, b), lst in self.edge_elems.items():
            if len(lst) == 1:
                self.boundary_vertex[a] = self.boundary_vertex[b] = True
        self.manifold = all(len(l) <= 2 for l in self.edge_elems.values())
        self.has_boundary = any(len(l) == 1 for l in self.edge_elems.values())
        self._bary = None

    @staticmethod
    def _tables(g):
        import numpy as np
        E = np.asarray(g.elements).astype(np.int64)
        vn = g.vertex_neighbors
        en = g.edge_neighbors
        flat, ptr = [], [0]
        for t in en:
            flat += [int(x) for x in t]
            ptr.append(len(flat))
        ee = np.asarray(g.element_edges).astype(np.int64)
        ev = np.asarray(g.edges).astype(np.int64)
        ne, nv, nedges = g.number_of_elements, g.number_of_vertices, g.number_of_edges
        vob = np.asarray(g.data().vertex_on_boundary).astype(int)
        toks = [str(ne), str(nv), str(nedges)]
        toks += [str(x) for x in E.T.ravel().tolist()]
        toks += [str(int(x)) for x in np.asarray(g.domain_indices).tolist()]
        ind = [int(x) for x in np.asarray(vn.indices).tolist()]
        toks += [str(len(ind))] + [str(x) for x in ind]
        toks += [str(int(x)) for x in np.asarray(vn.indexptr).tolist()]
        toks += [str(x) for x in ee.T.ravel().tolist()]
        toks += [str(len(flat))] + [str(x) for x in flat] + [str(x) for x in ptr]
        toks += [str(int(x)) for x in vob.tolist()]
        toks += [str(x) for x in ev.T.ravel().tolist()]
        return " ".join(toks)

    def bary(self):
        if self._bary is None:
            bg = self.grid.barycentric_refinement
            import numpy as np
            self._bary = GridInfo.__new__(GridInfo)
            b = self._bary
            b.name, b.grid = self.name + "|bary", bg
            b.V, b.E, b.D = np.asarray(bg.vertices), np.asarray(bg.elements), np.asarray(bg.domain_indices)
            b.ne, b.nv, b.nedges = bg.number_of_elements, bg.number_of_vertices, bg.number_of_edges
        return self._bary


def _request(gi, mkind, o, want_g2l):
    import numpy as np
    incl = 1 if o.get("include_boundary_dofs") else 0
    # defaults of the constructors: P/RWG/SNC/BC/RBC truncate=True, DUAL truncate=False
    if "truncate_at_segment_edge" in o:
        trunc = 1 if o["truncate_at_segment_edge"] else 0
    else:
        trunc = 0 if mkind in ("dual0", "dual1") else 1
    if "segments" in o and "support_elements" in o:
        mode, sel = "both", []
    elif "segments" in o:
        mode, sel = "segments", [int(x) for x in o["segments"]]
    elif "support_elements" in o:
        mode, sel = "elems", [int(x) for x in np.asarray(o["support_elements"]).tolist()]
    else:
        mode, sel = "whole", []
    sw = [int(x) for x in (o.get("swapped_normals") or [])]
    return (f"space {mkind} {incl} {trunc} {1 if want_g2l else 0} {mode} {len(sel)} " + " ".join(map(str, sel)) +
            f" {len(sw)} " + " ".join(map(str, sw)) + " " + gi.tables)


def _parse(ans):
    t = ans.split()
    if t[0] != "ok":
        return None
    pos = [1]

    def expect(w):
        assert t[pos[0]] == w, (w, t[pos[0]], pos[0])
        pos[0] += 1

    def ints(n):
        r = [int(x) for x in t[pos[0]:pos[0] + n]]
        pos[0] += n
        return r
    expect("n")
    n = ints(1)[0]
    expect("ns")
    ns = ints(1)[0]
    out = dict(n=n, ns=ns)
    expect("sup")
    out["sup"] = ints(n)
    expect("l2g")
    out["l2g"] = ints(n * ns)
    expect("mult")
    out["mult"] = ints(n * ns)
    expect("nm")
    out["nm"] = ints(n)
    expect("count")
    out["count"] = ints(1)[0]
    expect("gdc")
    out["gdc"] = ints(1)[0]
    expect("lloc")
    out["lloc"] = ints(n * ns)
    for name in ("mloc", "mfull"):
        expect(name)
        m = ints(1)[0]
        v = ints(3 * m)
        out[name] = {(v[3 * k], v[3 * k + 1]): v[3 * k + 2] for k in range(m)}
        out[name + "_n"] = m
    expect("entries")
    m = ints(1)[0]
    ent = {}
    for k in range(m):
        r, c, v = int(t[pos[0]]), int(t[pos[0] + 1]), Fraction(t[pos[0] + 2])
        pos[0] += 3
        ent[(r, c)] = ent.get((r, c), 0) + v
    out["entries"] = ent
    expect("g2l")
    g = ints(1)[0]
    rows = []
    for _ in range(g):
        ln = ints(1)[0]
        v = ints(2 * ln)
        rows.append([(v[2 * k], v[2 * k + 1]) for k in range(ln)])
    out["g2l"] = rows
    return out


MAX_G2L = 400


def _coo_dict(m):
    c = m.tocoo()
    d = {}
    for r, cc, v in zip(c.row.tolist(), c.col.tolist(), c.data.tolist()):
        d[(int(r), int(cc))] = d.get((int(r), int(cc)), 0) + v
    return d


def _compare(res, key, sp, m, mkind):
    """exact comparison of a real space with the parsed model answer"""
    import numpy as np
    l2g = np.asarray(sp.local2global).astype(np.int64)
    mult = np.asarray(sp.local_multipliers)
    sup = np.asarray(sp.support).astype(int)
    nm = np.asarray(sp.normal_multipliers).astype(int)
    ns = l2g.shape[1]

    def bad(what, **kw):
        res.disagree(what, space=key, **kw)
    if m is None:
        bad("model rejected the request")
        return
    if m["n"] != l2g.shape[0] or m["ns"] != ns:
        bad("shape", impl=list(l2g.shape), model=[m["n"], m["ns"]])
        return
    if m["sup"] != sup.tolist():
        d = [i for i, (a, b) in enumerate(zip(m["sup"], sup.tolist())) if a != b][:6]
        bad("support", first_diff=d, impl=[int(sup[i]) for i in d], model=[m["sup"][i] for i in d])
    if m["l2g"] != l2g.ravel().tolist():
        d = [i for i, (a, b) in enumerate(zip(m["l2g"], l2g.ravel().tolist())) if a != b][:6]
        bad("local2global", first_diff=[(i // ns, i % ns) for i in d], impl=[int(l2g.ravel()[i]) for i in d],
            model=[m["l2g"][i] for i in d])
    mi = mult.ravel()
    if not np.all(mi == np.round(mi)) or m["mult"] != [int(x) for x in mi.tolist()]:
        d = [i for i, (a, b) in enumerate(zip(m["mult"], mi.tolist())) if a != b][:6]
        bad("local_multipliers", first_diff=[(i // ns, i % ns) for i in d], impl=[float(mi[i]) for i in d],
            model=[m["mult"][i] for i in d])
    if m["nm"] != nm.tolist():
        bad("normal_multipliers", impl=nm.tolist()[:12], model=m["nm"][:12])
    if m["gdc"] != int(sp.global_dof_count):
        bad("global_dof_count", impl=int(sp.global_dof_count), model=m["gdc"])
    loc = sp.localised_space
    if m["lloc"] != np.asarray(loc.local2global).astype(np.int64).ravel().tolist():
        bad("localised_space.local2global")
    if not np.array_equal(np.asarray(loc.support), np.asarray(sp.support)):
        bad("localised_space.support")
    for name, mat in (("mloc", sp.map_to_localised_space), ("mfull", sp.map_to_full_grid)):
        real = {k: v for k, v in _coo_dict(mat).items() if v != 0}
        mod = {k: v for k, v in m[name].items() if v != 0}
        if real != mod:
            bad("map_to_localised_space" if name == "mloc" else "map_to_full_grid", impl_nnz=len(real), model_nnz=len(mod))
        shape_rows = ns * (int(np.count_nonzero(sup)) if name == "mloc" else l2g.shape[0])
        if mat.shape != (shape_rows, 1 + int(l2g.max())):
            bad(name + " shape", impl=list(mat.shape))
    if mkind in ("dual0", "dual1"):
        real = _coo_dict(sp.dof_transformation)
        mod = m["entries"]
        keys = set(real) | set(mod)
        worst = 0.0
        for k in keys:
            a, b = real.get(k, 0.0), float(mod.get(k, 0))
            worst = max(worst, abs(a - b))
        if worst > 1e-15:
            badk = [k for k in keys if abs(real.get(k, 0.0) - float(mod.get(k, 0))) > 1e-15][:5]
            bad("dof_transformation", worst=worst, keys=badk, impl=[real.get(k, 0.0) for k in badk],
                model=[str(mod.get(k, 0)) for k in badk])
        if sp.dof_transformation.shape != (ns * int(np.count_nonzero(sup)), m["gdc"]):
            bad("dof_transformation shape", impl=list(sp.dof_transformation.shape))
    if m["g2l"]:
        g2l = [[(int(a), int(b)) for a, b in lst] for lst in sp.global2local]
        if g2l != m["g2l"]:
            bad("global2local", impl_len=len(g2l), model_len=len(m["g2l"]))


def _nontrivial(gi, sup0, sp):
    """grid has a boundary AND an interior segment interface AND a zero-multiplier dof on the support"""
    import numpy as np
    if not gi.has_boundary:
        return False
    interface = any(len(l) >= 2 and len({bool(sup0[e]) for e, _ in l}) == 2 for l in gi.edge_elems.values())
    if not interface:
        return False
    mult = np.asarray(sp.local_multipliers)
    s = np.asarray(sp.support).astype(bool)
    return bool(np.any(mult[s] == 0))


def _support0(gi, o):
    """the support selected by segments / support_elements (independent of the code)"""
    import numpy as np
    s = np.zeros(gi.ne, bool)
    if "segments" in o:
        for e in range(gi.ne):
            s[e] = int(gi.D[e] if gi.D is not None else 0) in [int(x) for x in o["segments"]]
    elif "support_elements" in o:
        s[np.asarray(o["support_elements"]).astype(int)] = True
    else:
        s[:] = True
    return s


_CACHE = {}


def _cases(ctx, deep=False):
    """build the real spaces once per run: list of dict(key, gi, kind, mkind, opts, space | error)"""
    ck = (ctx.seed, ctx.tier, deep)
    if ck in _CACHE:
        return _CACHE[ck]
    import random
    import numpy as np
    import bempp_cl.api as api
    from vlib import meshgen as mg
    rng = random.Random(ctx.seed * 7919 + (13 if deep else 0) + 9)
    big = ctx.thorough or deep
    cases, errors = [], {}
    gis = []
    for name, V, E, D, manifold in _grids(ctx, rng, deep):
        try:
            gis.append(GridInfo(name, V, E, D, manifold))
        except Exception as e:  # noqa
            errors[f"grid:{name}"] = type(e).__name__

    def build(gi, kind, deg, o, tag=None):
        key = f"{tag or gi.name}|{kind}{deg}|{_okey(o)}"
        c = dict(key=key, gi=gi, kind=f"{kind}{deg}", mkind=MODEL_KIND[f"{kind}{deg}"], opts=o, space=None, error=None)
        try:
            c["space"] = api.function_space(gi.grid, kind, deg, scatter=False, **o)
        except Exception as e:  # noqa
            c["error"] = type(e).__name__
            errors[f"{kind}{deg}:{type(e).__name__}"] = errors.get(f"{kind}{deg}:{type(e).__name__}", 0) + 1
        cases.append(c)

    for gi in gis:
        labels = sorted(set(gi.D.tolist())) if gi.D is not None else []
        sels = _selections(ctx, rng, gi.D, gi.ne, deep)
        for kind, deg in KINDS:
            if not gi.manifold and kind in ("BC", "RBC", "DUAL"):
                continue  # the fan traversal / dual cells are undefined on non-manifold soups
            if kind in ("BC", "RBC") and gi.ne > (130 if big else 50):
                continue
            for si, s in enumerate(sels):
                if kind in FLAGGED:
                    flagsets = FLAGSETS if (kind in ("P", "RWG") or big) else rng.sample(FLAGSETS, 2)
                    if not s and not gi.has_boundary and not big:
                        flagsets = flagsets[:1] + [FLAGSETS[3]]
                else:
                    flagsets = [dict()]
                for f in flagsets:
                    o = dict(s)
                    o.update(f)
                    if labels and rng.random() < 0.5:
                        o["swapped_normals"] = [rng.choice(labels)]
                    build(gi, kind, deg, o)
        # rejected argument combination
        if labels:
            build(gi, "P", 1, dict(segments=[labels[0]], support_elements=np.array([0], dtype=np.uint32)))
    # exhaustive sweep: every sub-complex of small base meshes as support, P1 and RWG, the four option combinations
    bases = []
    V, E = mg.tetrahedron()
    bases.append(("sub-tet", V, E))
    V, E = mg.screen(2, 1)
    bases.append(("sub-screen2x1", V, E))
    V, E = mg.octahedron()
    bases.append(("sub-oct", V, E))
    if big:
        V, E = mg.screen(2, 2)
        bases.append(("sub-screen2x2", V, E))
    for name, V, E in bases:
        gi = GridInfo(name, V, E, None, True)
        subs = list(mg.subcomplexes(E))
        if name == "sub-oct" and not big:
            subs = rng.sample(subs, 40)
        for sub in subs:
            for kind, deg in (("P", 1), ("RWG", 0)):
                for f in FLAGSETS:
                    o = dict(support_elements=np.array(sub, dtype=np.uint32))
                    o.update(f)
                    build(gi, kind, deg, o)
            if len(sub) <= 2 or big:
                for kind, deg in (("DUAL", 0), ("DUAL", 1), ("DP", 0)):
                    o = dict(support_elements=np.array(sub, dtype=np.uint32))
                    if kind == "DUAL":
                        o.update(rng.choice(FLAGSETS))
                        if deg == 1:
                            o.pop("include_boundary_dofs")
                    build(gi, kind, deg, o)
    _CACHE[ck] = (cases, errors)
    return cases, errors


def correspondence(ctx, deep=False):
    import numpy as np
    res = Result()
    build_driver()
    cases, errors = _cases(ctx, deep)
    res.stats["construct_errors"] = errors
    reqs, handlers = [], []
    by_kind = {}
    for c in cases:
        gi, key, mkind, o = c["gi"], c["key"], c["mkind"], c["opts"]
        want = gi.ne * (6 if mkind in ("dual0", "dual1", "bc") else 1) <= MAX_G2L
        reqs.append(_request(gi, mkind, o, want))
        sp = c["space"]
        by_kind[c["kind"]] = by_kind.get(c["kind"], 0) + 1
        if sp is None:
            def h(ans, c=c):
                exp = {"ValueError": "err value-error", "IndexError": "err index-error"}.get(c["error"])
                if c["kind"] in ("BC0", "RBC0"):
                    # not modelled: screen + include_boundary_dofs (ValueError), a coarse RWG space without dofs
                    # (IndexError), the fan traversal giving up on an inconsistently oriented fan (Exception)
                    res.count("bc_rejected_" + str(c["error"]))
                    return
                if c["kind"] == "DUAL1" and c["error"] == "IndexError":
                    return  # empty support (outside the quantifier)
                if exp is None or ans.strip() != exp:
                    res.disagree("construction status", space=c["key"], impl=c["error"], model=ans[:40])
            res.case(key, nontrivial=False)
            handlers.append(h)
            continue
        sup0 = _support0(gi, o)
        nt = _nontrivial(gi, sup0, sp)
        c["nontrivial"] = nt
        mult = np.asarray(sp.local_multipliers)
        s = np.asarray(sp.support).astype(bool)
        res.case(key, nontrivial=nt,
                 sample=dict(space=key, elements=int(gi.ne), support=int(np.count_nonzero(s)),
                             global_dof_count=int(sp.global_dof_count),
                             zero_multiplier_entries=int(np.count_nonzero(mult[s] == 0))) if nt and len(res.samples) < 4
                 else None)

        def h(ans, c=c, sp=sp):
            _compare(res, c["key"], sp, _parse(ans), c["mkind"])
        handlers.append(h)
    import time
    t0 = time.time()
    answers = run_driver(reqs)
    res.stats["driver_seconds"] = round(time.time() - t0, 2)
    for a, h in zip(answers, handlers):
        h(a)
    res.stats["spaces_by_kind"] = by_kind
    res.count("driver_requests", len(reqs))
    res.merge(_bc_interior_correspondence(ctx))
    return res


def _bc_interior_correspondence(ctx):
    """`_interior_barycentric_edges_coefficients` of grid.py on duck-typed inputs against `bcInteriorValues`"""
    import random
    import numpy as np
    from bempp_cl.api.grid import grid as gridmod
    res = Result()
    rng = random.Random(ctx.seed * 101 + 3)

    class _Data:
        pass

    class _Grid:
        def __init__(self, ee):
            self._d = _Data()
            self._d.element_edges = ee

        def data(self):
            return self._d

    reqs, expect = [], []
    for _ in range(ctx.pick(12, 60)):
        n = rng.randrange(0, 9)
        nc = rng.randrange(1, 7)
        sign = rng.choice([-1.0, 1.0])
        nel = max(1, n)
        ee = np.array([[rng.randrange(0, 12) for _ in range(nel)] for _ in range(3)])
        lens = np.array([rng.randrange(1, 64) / 16.0 for _ in range(12)])
        vertex_edges = [(rng.randrange(nel), rng.randrange(3)) for _ in range(n)]
        l2g = np.arange(3 * nel).reshape(nel, 3)
        vals, bd, cd = gridmod._interior_barycentric_edges_coefficients(lens, vertex_edges, _Grid(ee), l2g, sign, nc, 7)
        used = [Fraction(float(lens[ee[le, el]])) for el, le in vertex_edges]
        reqs.append(f"bcint {int(sign)} {nc} " + " ".join(f"{u.numerator}/{u.denominator}" for u in used))
        expect.append((vals, bd, [int(l2g[el, le]) for el, le in vertex_edges], cd))
    for ans, (vals, bd, bd_exp, cd) in zip(run_driver(reqs), expect):
        t = ans.split()
        res.case(("bcint", len(vals)), nontrivial=len(vals) >= 2)
        mod = [Fraction(x) for x in t[1:]] if t[0] == "ok" else None
        if mod is None or len(mod) != len(vals) or any(abs(float(a) - b) > 1e-15 * max(1.0, abs(b)) for a, b in zip(mod, vals)):
            res.disagree("_interior_barycentric_edges_coefficients values", impl=[float(v) for v in vals][:8],
                         model=[str(m) for m in (mod or [])][:8])
        if [int(b) for b in bd] != bd_exp or any(int(c) != 7 for c in cd):
            res.disagree("_interior_barycentric_edges_coefficients dofs")
    return res


# ------------------------------------------------------------------------------------------------
# oracle: the property on the real code

LOCAL = [(0.0, 0.0), (1.0, 0.0), (0.0, 1.0)]


def _edge_local_points(E, e, va, vb, svals):
    import numpy as np
    col = [int(x) for x in E[:, e]]
    ia, ib = col.index(va), col.index(vb)
    pts = np.array([[(1 - s) * LOCAL[ia][k] + s * LOCAL[ib][k] for s in svals] for k in range(2)], dtype=np.float64)
    return pts, ia, ib


def _fun(sp, coef, e, pts):
    """value of the function with (barycentric / grid) coefficient vector `coef` on element e at local points"""
    import numpy as np
    ev = sp.evaluate(int(e), pts)
    return np.einsum("cip,i->cp", ev, coef[np.asarray(sp.local2global)[e].astype(np.int64)])


def _jumps(sp, E, V, edge_elems, mode, rng, ntrial=2):
    """largest jump (relative to ||c|| max(1, |f|)) over the interior edges whose two neighbours are in the support.
    mode: 'value' | 'normal' | 'tangential'.  Returns (worst, number of edges tested, skipped)"""
    import numpy as np
    sup = np.asarray(sp.support).astype(bool)
    nm = np.asarray(sp.normal_multipliers)
    gdc = sp.global_dof_count
    D = sp.dof_transformation
    worst, tested, skipped, witness = 0.0, 0, 0, None
    coefs = []
    for _ in range(ntrial):
        c = np.array([rng.uniform(-1, 1) for _ in range(gdc)])
        coefs.append((np.asarray(D @ c).ravel(), max(1e-300, float(np.max(np.abs(c))) if gdc else 1.0)))
    svals = [0.2, 0.5, 0.85]
    for (va, vb), lst in edge_elems.items():
        if len(lst) != 2:
            continue
        (a, _), (b, _) = lst
        if not (sup[a] and sup[b]):
            continue
        pa, ia, ib = _edge_local_points(E, a, va, vb, svals)
        pb, ja, jb = _edge_local_points(E, b, va, vb, svals)
        t = V[:, vb] - V[:, va]
        t = t / np.linalg.norm(t)
        if mode == "tangential":
            ccw_a = (ia + 1) % 3 == ib
            ccw_b = (ja + 1) % 3 == jb
            consistent = ccw_a != ccw_b
            if consistent != (nm[a] == nm[b]):
                skipped += 1
                continue
        if mode == "normal":
            # outward conormal of each element in its own plane: orthogonal to the edge, away from the third vertex
            nus = []
            for el in (a, b):
                third = [int(E[k, el]) for k in range(3) if int(E[k, el]) not in (va, vb)][0]
                w = V[:, va] - V[:, third]
                w = w - (w @ t) * t
                nus.append(w / np.linalg.norm(w))
        tested += 1
        for coef, cn in coefs:
            fa, fb = _fun(sp, coef, a, pa), _fun(sp, coef, b, pb)
            d = fa - fb
            if mode == "value":
                j = np.max(np.abs(d))
            elif mode == "normal":
                # flux out of a through the edge = flux into b
                j = np.max(np.abs(nus[0] @ fa + nus[1] @ fb))
            else:
                j = np.max(np.abs(t @ d))
            scale = cn * max(1.0, float(np.max(np.abs(fa))), float(np.max(np.abs(fb))))
            if j / scale > worst:
                worst, witness = j / scale, dict(elements=[int(a), int(b)], vertices=[int(va), int(vb)], jump=float(j))
    return worst, tested, skipped, witness


def _basis_sum(sp, e, pts):
    """sum over all global dofs of the basis functions at local points of element e (scalar spaces)"""
    import numpy as np
    D = sp.dof_transformation
    rowsum = np.asarray(D.sum(axis=1)).ravel()
    ev = sp.evaluate(int(e), pts)
    return np.einsum("ip,i->p", ev[0], rowsum[np.asarray(sp.local2global)[e].astype(np.int64)])


PTS = None


def _pts():
    global PTS
    if PTS is None:
        import numpy as np
        PTS = np.array([[0.2, 0.6, 0.1, 1.0 / 3], [0.3, 0.1, 0.8, 1.0 / 3]])
    return PTS


def _selected_vertices(gi, sup0, incl):
    """P1 dofs by the documented rule, from the element array alone"""
    sel = []
    for v in range(gi.nv):
        el = gi.vert_elems[v]
        if not any(sup0[e] for e in el):
            continue
        interior = all(sup0[e] for e in el) and not gi.boundary_vertex[v]
        if incl or interior:
            sel.append(v)
    return sel


def _oracle_space(res, c, rng, margins):
    import numpy as np
    sp, gi, key, kind, o = c["space"], c["gi"], c["key"], c["kind"], c["opts"]
    incl = bool(o.get("include_boundary_dofs"))
    trunc = o.get("truncate_at_segment_edge", kind not in ("DUAL0", "DUAL1"))
    sup0 = _support0(gi, o)
    l2g = np.asarray(sp.local2global).astype(np.int64)
    mult = np.asarray(sp.local_multipliers).astype(float)
    sup = np.asarray(sp.support).astype(bool)
    E = np.asarray(gi.E).astype(np.int64)
    flags = "+".join(k for k, v in (("incl", incl), ("notrunc", not trunc)) if v)
    tag = f"{kind}{('-' + flags) if flags else ''}"
    whole = "segments" not in o and "support_elements" not in o
    res.case("oracle|" + key, nontrivial=bool(c.get("nontrivial")))

    def cex(k, what, **kw):
        res.counterexample(k, what + f" [{key}]", space=key, grid=gi.name, options=_okey(o), **kw)

    # --- g2l / l2g mutually inverse on non-zero multipliers
    g2l = sp.global2local
    if len(g2l) != 1 + int(l2g.max()):
        cex(f"g2l-length-{kind}", f"len(global2local) = {len(g2l)} != 1 + max(local2global) = {1 + int(l2g.max())}")
    inv = {}
    for e in range(l2g.shape[0]):
        for i in range(l2g.shape[1]):
            if mult[e, i] != 0:
                inv.setdefault(int(l2g[e, i]), []).append((e, i))
    for d, lst in enumerate(g2l):
        if sorted((int(a), int(b)) for a, b in lst) != sorted(inv.get(d, [])):
            cex(f"g2l-not-inverse-{kind}", f"global2local[{d}] = {list(lst)[:6]} but the entries of local2global equal to "
                f"{d} with non-zero multiplier are {inv.get(d, [])[:6]}", dof=d)
            break
    # --- multipliers vanish off the support, artificial entries are owned
    if np.any(mult[~sup] != 0):
        cex(f"multiplier-off-support-{kind}", "non-zero multiplier on an element outside the support")
    for e in np.flatnonzero(sup):
        own = {int(d) for d, m_ in zip(l2g[e], mult[e]) if m_ != 0}
        if any(int(d) not in own for d in l2g[e]):
            cex(f"artificial-dof-not-owned-{tag}", f"element {e}: row {l2g[e].tolist()} multipliers {mult[e].tolist()} "
                "has a zero-multiplier entry that is not a dof of the element", element=int(e))
            break
    ndofs = len(inv)
    if kind in ("DP0", "DP1"):
        ns = l2g.shape[1]
        # dofs <-> (element, local index) of the selected support
        if not np.array_equal(sup, sup0):
            cex(f"support-{kind}", "support differs from the selected elements")
        exp = ns * int(np.count_nonzero(sup0))
        if ndofs != exp or (exp > 0 and sp.global_dof_count != exp):
            cex(f"dof-count-{kind}", f"{ndofs} dofs / global_dof_count {sp.global_dof_count}, expected {exp}")
        for d, lst in inv.items():
            if len(lst) != 1:
                cex(f"dof-entity-{kind}", f"dof {d} attached to {lst}")
                break
        for e in np.flatnonzero(sup)[:40]:
            s = _basis_sum(sp, e, _pts())
            margins["dp_sum"] = max(margins.get("dp_sum", 0.0), float(np.max(np.abs(s - 1))))
            if np.max(np.abs(s - 1)) > 1e-13:
                cex(f"basis-sum-{kind}", f"basis functions sum to {s.tolist()} on support element {e}")
                break
    if kind == "P1":
        sel = _selected_vertices(gi, sup0, incl)
        # attachment: all (e, i) of a dof sit at one vertex; increasing vertex order
        vert_of = {}
        for d, lst in inv.items():
            vs = {int(E[i, e]) for e, i in lst}
            if len(vs) != 1:
                cex(f"dof-entity-{tag}", f"dof {d} is attached to the vertices {sorted(vs)}", dof=d)
                break
            vert_of[d] = vs.pop()
        else:
            ds = sorted(vert_of)
            vs = [vert_of[d] for d in ds]
            if vs != sorted(vs) or len(set(vs)) != len(vs) or ds != list(range(len(ds))):
                cex(f"dof-order-{tag}", "dofs are not numbered 0..n-1 in increasing vertex order", vertices=vs[:12])
            if vs != sel:
                cex(f"dof-count-{tag}", f"P1 dofs sit on the vertices {vs[:12]}... ({len(vs)}), the options select "
                    f"{sel[:12]}... ({len(sel)})", impl=len(vs), expected=len(sel))
            if sel and sp.global_dof_count != len(sel):
                cex(f"dof-count-{tag}", f"global_dof_count {sp.global_dof_count} != {len(sel)} selected vertices")
        # support selected by the options
        selset = set(sel)
        exp_sup = np.array([bool(sup0[e]) and any(int(E[i, e]) in selset for i in range(3)) for e in range(gi.ne)])
        if incl and not trunc:
            for e in range(gi.ne):
                if not sup0[e] and any(int(E[i, e]) in selset for i in range(3)):
                    exp_sup[e] = True
        if not np.array_equal(exp_sup, sup):
            d = np.flatnonzero(exp_sup != sup)[:6].tolist()
            cex(f"support-{tag}", f"support differs from the elements selected by the options at elements {d}: "
                f"impl {sup[d].astype(int).tolist()}", elements=d)
        # every vertex of a support element that is a dof has multiplier 1 there
        for e in np.flatnonzero(sup):
            for i in range(3):
                if (int(E[i, e]) in selset) != (mult[e, i] == 1) or mult[e, i] not in (0.0, 1.0):
                    cex(f"vertex-multiplier-{tag}", f"element {e} local vertex {i} (vertex {int(E[i, e])}): multiplier "
                        f"{mult[e, i]}, vertex selected: {int(E[i, e]) in selset}", element=int(e), local=i)
                    break
            else:
                continue
            break
        w, n, _, wit = _jumps(sp, E, gi.V, gi.edge_elems, "value", rng)
        margins["p1_jump"] = max(margins.get("p1_jump", 0.0), w)
        res.count("edges_tested_P1", n)
        if w > 1e-12:
            cex(f"p1-discontinuous-{tag}", f"jump {w:.3e}·||c|| of a P1 function across an interior edge", **(wit or {}))
        full = [e for e in np.flatnonzero(sup) if all(int(E[i, e]) in selset for i in range(3))]
        for e in full[:40]:
            s = _basis_sum(sp, e, _pts())
            margins["p1_sum"] = max(margins.get("p1_sum", 0.0), float(np.max(np.abs(s - 1))))
            if np.max(np.abs(s - 1)) > 1e-13:
                cex(f"basis-sum-{tag}", f"P1 basis sums to {s.tolist()} on element {e} whose three vertices are dofs")
                break
        if whole and not gi.has_boundary and len(full) != gi.ne:
            cex(f"basis-sum-{tag}", "whole closed grid but not every element has its three vertices as dofs")
    if kind in ("RWG0", "SNC0"):
        ee = np.asarray(gi.grid.element_edges).astype(np.int64)
        edges = np.asarray(gi.grid.edges).astype(np.int64)
        edge_of = {}
        okattach = True
        for d, lst in inv.items():
            xs = {int(ee[i, e]) for e, i in lst}
            if len(xs) != 1:
                cex(f"dof-entity-{tag}", f"dof {d} is attached to the edges {sorted(xs)}", dof=d)
                okattach = False
                break
            x = xs.pop()
            # the edge index really is local edge i of the element (vertex pairs)
            for e, i in lst:
                a, b = EDGE_LOCAL[i]
                if sorted((int(E[a, e]), int(E[b, e]))) != sorted(int(q) for q in edges[:, x]):
                    cex(f"dof-entity-{tag}", f"dof {d}: local edge {i} of element {e} is not edge {x}")
                    okattach = False
            edge_of[d] = x
        if okattach and len(set(edge_of.values())) != len(edge_of):
            cex(f"dof-entity-{tag}", "two dofs on one edge")
        if gi.manifold and okattach:
            exp_edges = set()
            for k_, lst in gi.edge_elems.items():
                nsup = sum(1 for e, _ in lst if sup0[e])
                if nsup == 2 or (incl and nsup == 1):
                    exp_edges.add(k_)
            got = {tuple(sorted(int(q) for q in edges[:, x])) for x in edge_of.values()}
            if got != exp_edges:
                cex(f"dof-count-{tag}", f"{len(got)} edge dofs, the options select {len(exp_edges)} edges; difference "
                    f"{sorted(got ^ exp_edges)[:6]}", impl=len(got), expected=len(exp_edges))
            if exp_edges and sp.global_dof_count != len(exp_edges):
                cex(f"dof-count-{tag}", f"global_dof_count {sp.global_dof_count} != {len(exp_edges)} selected edges")
            exp_sup = np.zeros(gi.ne, bool)
            for k_ in exp_edges:
                for e, _ in gi.edge_elems[k_]:
                    if sup0[e] or (incl and not trunc):
                        exp_sup[e] = True
            if not np.array_equal(exp_sup, sup):
                d = np.flatnonzero(exp_sup != sup)[:6].tolist()
                cex(f"support-{tag}", f"support differs from the elements selected by the options at elements {d}",
                    elements=d)
            # sign rule
            for d, lst in inv.items():
                es = sorted(lst)
                if len(es) == 1:
                    okk = mult[es[0][0], es[0][1]] == 1
                elif len(es) == 2:
                    okk = mult[es[0][0], es[0][1]] == 1 and mult[es[1][0], es[1][1]] == -1
                else:
                    okk = False
                if not okk:
                    cex(f"rwg-sign-rule-{tag}", f"dof {d} on {es}: multipliers {[float(mult[e, i]) for e, i in es]} "
                        "(expected +1 on the smaller, -1 on the larger element index)", dof=d)
                    break
            mode = "normal" if kind == "RWG0" else "tangential"
            w, n, sk, wit = _jumps(sp, E, gi.V, gi.edge_elems, mode, rng)
            margins[kind + "_jump"] = max(margins.get(kind + "_jump", 0.0), w)
            res.count("edges_tested_" + kind, n)
            res.count("edges_skipped_inconsistent_normal", sk)
            if w > 1e-12:
                cex(f"{kind.lower()}-{mode}-jump-{tag}", f"jump {w:.3e}·||c|| of the {mode} component across an interior "
                    "edge", **(wit or {}))
    if kind in ("DUAL0", "DUAL1", "BC0", "RBC0"):
        bg = sp.grid
        bE = np.asarray(bg.elements).astype(np.int64)
        bV = np.asarray(bg.vertices)
        if not hasattr(gi, "_bary_edges"):
            be = {}
            for e in range(bE.shape[1]):
                for l, (a, b) in enumerate(EDGE_LOCAL):
                    be.setdefault(tuple(sorted((int(bE[a, e]), int(bE[b, e])))), []).append((e, l))
            gi._bary_edges = be
        csup = sup.reshape(-1, 6)
        if not np.all(csup.all(axis=1) == csup.any(axis=1)):
            cex(f"support-{tag}", "barycentric support is not a union of complete coarse elements")
        csup = csup.all(axis=1)
        if kind == "DUAL0":
            sel = set(_selected_vertices(gi, sup0, incl))
            exp = np.zeros(bE.shape[1])
            for b in np.flatnonzero(sup):
                v = int(bE[0, b])  # the coarse vertex of the sub-triangle
                f = b // 6
                in_cell = v in sel and (sup0[f] or (incl and not trunc))
                exp[b] = 1.0 if in_cell else 0.0
            rowsum = np.asarray(sp.dof_transformation.sum(axis=1)).ravel()
            got = np.zeros(bE.shape[1])
            got[sup] = rowsum[l2g[sup, 0]]
            if not np.array_equal(got, exp):
                d = np.flatnonzero(got != exp)[:6].tolist()
                lost = bool(np.all(got[d] == 0) and np.all(exp[d] == 1))  # whole dual cells missing
                cex("dual0-truncate-support-index" if (trunc and not whole and lost) else f"basis-sum-{tag}",
                    f"DUAL0 basis sums to {got[d].tolist()} on the barycentric elements {d}, expected {exp[d].tolist()} "
                    "(1 on the sub-triangles at a vertex that carries a dof)", elements=d)
            # each dual function is the indicator of the vertex patch of its vertex
            Dm = sp.dof_transformation.tocsc()
            selv = sorted(sel)
            if Dm.shape[1] == len(selv):
                for dcol, v in enumerate(selv):
                    rows = Dm.indices[Dm.indptr[dcol]:Dm.indptr[dcol + 1]]
                    bel = np.flatnonzero(sup)[rows] if len(rows) else np.array([], int)
                    if any(int(bE[0, b]) != v for b in bel):
                        cex(f"dof-entity-{tag}", f"DUAL0 dof {dcol} (vertex {v}) lives on sub-triangles of other vertices")
                        break
            elif selv:
                cex(f"dof-count-{tag}", f"DUAL0 has {Dm.shape[1]} dofs, {len(selv)} vertices are selected")
        if kind == "DUAL1":
            if sp.global_dof_count != max(1, int(np.count_nonzero(sup0))):
                cex(f"dof-count-{tag}", f"DUAL1 has {sp.global_dof_count} dofs, {int(np.count_nonzero(sup0))} elements selected")
            # deep interior elements: all edge and vertex neighbours selected and no boundary edge
            deep_el = []
            for f in np.flatnonzero(csup):
                ok = sup0[f]
                for i in range(3):
                    ok = ok and all(sup0[e] for e in gi.vert_elems[int(E[i, f])])
                for l, (a, b) in enumerate(EDGE_LOCAL):
                    ok = ok and len(gi.edge_elems[tuple(sorted((int(E[a, f]), int(E[b, f]))))]) == 2
                if ok:
                    deep_el.append(int(f))
            for f in deep_el[:30]:
                for b in range(6 * f, 6 * f + 6):
                    s = _basis_sum(sp, b, _pts())
                    margins["dual1_sum"] = max(margins.get("dual1_sum", 0.0), float(np.max(np.abs(s - 1))))
                    if np.max(np.abs(s - 1)) > 1e-13:
                        cex("dual1-barycentre-dofs", f"DUAL1 basis sums to {s.tolist()} on barycentric element {b} of the "
                            f"interior coarse element {f} (expected 1)", element=int(b))
                        break
                else:
                    continue
                break
            res.count("dual1_interior_elements", len(deep_el))
            if whole and not gi.has_boundary and len(deep_el) != gi.ne:
                cex(f"basis-sum-{tag}", "whole closed grid but not every element is interior for DUAL1")
        if kind in ("BC0", "RBC0"):
            mode = "normal" if kind == "BC0" else "tangential"
            w, n, sk, wit = _jumps(sp, bE, bV, gi._bary_edges, mode, rng, ntrial=1)
            mk = kind + ("_jump" if w <= 1e-11 else "_jump_failing")
            margins[mk] = max(margins.get(mk, 0.0), w)
            res.count("edges_tested_" + kind, n)
            if w > 1e-11:
                interface = any(len(l) >= 2 and len({bool(sup0[e]) for e, _ in l}) == 2 for l in gi.edge_elems.values())
                k_ = ("bc-truncated-segment-nonconforming" if (interface and trunc)
                      else f"{kind.lower()}-{mode}-jump-{tag}")
                cex(k_, f"jump {w:.3e}·||c|| of the {mode} component of a {kind[:-1]} function across an interior "
                    "barycentric edge whose two sub-triangles are both in the support"
                    + (" (support with an interior segment interface, truncate_at_segment_edge=True)"
                       if (interface and trunc) else ""), **(wit or {}))


def _table_hypotheses(res, gi):
    """the grid-table facts the theorems assume (C11 obligations), checked on the real tables of every grid"""
    import numpy as np
    g = gi.grid
    E = np.asarray(gi.E).astype(np.int64)
    vn = g.vertex_neighbors
    ind, ptr = np.asarray(vn.indices), np.asarray(vn.indexptr)
    for v in range(gi.nv):
        if sorted(int(x) for x in ind[ptr[v]:ptr[v + 1]]) != sorted(gi.vert_elems[v]):
            res.counterexample("table-vertex-neighbors", f"vertex_neighbors of vertex {v} of {gi.name} are not the "
                               "elements containing it", grid=gi.name)
            break
    ee = np.asarray(g.element_edges).astype(np.int64)
    en = g.edge_neighbors
    for x in range(gi.nedges):
        exp = sorted(e for e in range(gi.ne) for i in range(3) if ee[i, e] == x)
        if sorted(int(q) for q in en[x]) != exp:
            res.counterexample("table-edge-neighbors", f"edge_neighbors[{x}] of {gi.name} are not the elements with that "
                               "edge", grid=gi.name)
            break
    vob = np.asarray(g.data().vertex_on_boundary).astype(bool)
    if not np.array_equal(vob, gi.boundary_vertex):
        res.counterexample("table-vertex-on-boundary", f"vertex_on_boundary of {gi.name} differs from the vertices of "
                           "edges with one neighbour", grid=gi.name)


def oracle(ctx, deep=False):
    import random
    res = Result()
    cases, _ = _cases(ctx, deep)
    rng = random.Random(ctx.seed * 31337 + 17)
    margins = {}
    seen_grids = set()
    big = ctx.thorough or deep
    nsub = 0
    for c in cases:
        if c["space"] is None:
            continue
        gi = c["gi"]
        if gi.name not in seen_grids:
            seen_grids.add(gi.name)
            _table_hypotheses(res, gi)
        if gi.name.startswith("sub-") and not big:
            # the exhaustive sweep is large: run the full oracle on a sample of it in the quick tier
            nsub += 1
            if nsub % 5:
                continue
        try:
            _oracle_space(res, c, rng, margins)
        except Exception as e:  # noqa
            res.notes.append(f"oracle error on {c['key']}: {type(e).__name__} {str(e)[:120]}")
            res.count("oracle_errors")
    res.stats["margins"] = {k: float(f"{v:.3e}") for k, v in margins.items()}
    res.stats["tolerances"] = dict(jump="1e-12 ||c|| max(1,|f|) (BC/RBC 1e-11)", basis_sum=1e-13)
    return res


def search(ctx, broken):
    return oracle(ctx, deep=True)
