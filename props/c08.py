"""C08 — Potentials and far fields satisfy their PDEs, normalisation and asymptotics (partial)."""
from vlib.common import Result
from props import shared

PID = "C08"
LEAN_MODULES = ['BemppVerif.Props.C08', 'BemppVerif.Props.C02', 'BemppVerif.Gen.AsmMatch', 'BemppVerif.Lemmas.KernelPDE', 'BemppVerif.Lemmas.KernelFarField']
LEAN_MODULES += shared.CTOR_MODULES
N = "BemppVerif.C08."
THEOREMS = []
PARTIAL = {N + "farfield_translation": "the far-field kernels of the code use only Re k (known finding farfield-ignores-imag-k): "
           "the translation law and 'far field = limit' are theorems for real k and for the canonical complex-k limit; the "
           "Cartesian Laplacian of a radial function and the Maxwell vector identities (curl E = ik H, div E = 0) are not formalised "
           "(oracle); the traced Maxwell potentials / far fields equal their closed-form kernel sums (generated theorems), in which "
           "the gradient of the kernel appears as G (ik d - 1)/d^2 (x - y) exactly as the source computes it"}
TRUSTED = [
    "Tie B: assembler tracing (vlib/asmtrace.py, props/asm_gen.py, props/asm_gen_mx.py) and kernel tracing (props/kernels_gen.py): the generated "
    "theorems are about terms recorded while running the undecorated source of the real functions",
    "hand model Model/Asm.lean tied to the source by the generated AsmMatch theorems (symbolic, one generic configuration)",
    "classical analysis that is used but not formalised is named in PARTIAL",
    shared.CTOR_TRUSTED,
]
ASSUMPTIONS = []
RULE = 'correspondence: compiled kernels/assemblers vs their traces at random numeric configurations; oracle: props/c08_oracle.py'
LEVEL_TEXT = "Lean 4 theorems: every traced kernel (20) equals its canonical closed form; the potential assembler computes the kernel sum; the canonical kernels satisfy g''+2g'/r+k^2 g = 0 (Laplace, modified, Helmholtz with complex k, via HasDerivAt) and are normal derivatives of each other; r e^{-ikr} G(r x, y) -> e^{-ik x.y}/(4 pi) (Filter.Tendsto, complex k); translation law of the far-field kernels.  Maxwell: the traced maxwell_efield_potential / maxwell_mfield_potential / maxwell_efield_far_field / maxwell_mfield_far_field (12 entries each: 3 components x 4 points) equal sum_sigma sum_q G(x,y_q) [ik F - (x-y)(ik d - 1) Dv/(ik d^2)], sum (grad G x F), sum G (ik F - x Dv), sum ik G (x x F) with F = w ie f(y_q), Dv = w ie div f(y_q) over the library's own quadrature points."
LEVEL_NOTE = 'partial: 3-D Laplacian of radial functions and Maxwell vector calculus are trusted/oracle; known finding for Im k in the far-field kernels.'
TECHNIQUE = 'Lean 4 proof (ring_nf on traced kernels, Mathlib calculus) + numerical oracle'


def generate(ctx):
    info = dict(kernels=shared.gen_kernels()[0], asm=shared.gen_asm()[0])
    THEOREMS[:] = ([N + t for t in ("farfield_translation", "farfield_dl_translation", "real_op_complex_density")]
                   + ["BemppVerif.C02.potential_refines_spec", "BemppVerif.C02.potential_of_space"]
                   + shared.asm_theorems("potential_matches") + shared.mx_theorems("C08")
                   + sum(shared.KERNEL_FACTS.values(), []) + sum(shared.CALCULUS.values(), []))
    info.update(shared.gen_ctors()[0])
    THEOREMS.extend(shared.ctor_theorems('laplace_potential', 'helmholtz_potential', 'modified_potential', 'maxwell_potential', 'helmholtz_far_field', 'maxwell_far_field')
                    + [t for t in shared.CTOR_SPEC if t.split('.')[-1] in ('no_dispatch_far_field_maxwell', 'maxwell_kernel_and_dimension', 'helmholtz_imag_is_modified')])
    return info


def correspondence(ctx):
    return shared.trace_validation(ctx, PID)


def oracle(ctx, deep=False):
    f = shared.load_oracle(PID)
    if f is None:
        r = Result()
        r.notes.append("props/c08_oracle.py not present: no numerical oracle run")
        return r
    return f(ctx, deep)


def search(ctx, broken):
    return oracle(ctx, deep=True)
