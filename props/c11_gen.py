"""Tie A for C11: constants of bempp_cl/api/grid/grid.py -> lean/BemppVerif/Gen/GridConsts.lean.

Extracted with `ast` from the source text (no import of the repository):
  * `_EDGE_LOCAL`
  * the four child triples of `Grid.refine` (each entry: parent vertex j | midpoint vertex of local edge l),
    the repeat factor of the domain indices and the stride `4 * index + k`
  * the 18 assignments `new_elements[r, 6 * index + s] = ...` of `_create_barycentric_connectivity_array`
    (each entry: parent vertex j | midpoint vertex of local edge l | barycentre) and the repeat factor 6
  * the row permutation `[0, 2, 1]` used by `union` for swapped normals
Vertex codes are pairs (kind, index): kind 0 = parent vertex `index`, kind 1 = midpoint of local edge `index`,
kind 2 = barycentre.
"""
import ast
import os

from vlib import tables as T
from vlib.common import LEAN, GenError

REL = "bempp_cl/api/grid/grid.py"


def _is_name(n, name):
    return isinstance(n, ast.Name) and n.id == name


def _attr_chain(n):
    """'self.element_edges' for Attribute(Name self, element_edges); 'x' for Name x."""
    if isinstance(n, ast.Name):
        return n.id
    if isinstance(n, ast.Attribute):
        b = _attr_chain(n.value)
        return None if b is None else b + "." + n.attr
    return None


def _const(n):
    if isinstance(n, ast.Constant) and isinstance(n.value, int):
        return n.value
    return None


def _stride_index(n, var="index"):
    """(stride, offset) of `stride * index + offset` or `stride * index`."""
    if isinstance(n, ast.BinOp) and isinstance(n.op, ast.Add):
        base = _stride_index(n.left, var)
        off = _const(n.right)
        if base is not None and off is not None and base[1] == 0:
            return base[0], off
        return None
    if isinstance(n, ast.BinOp) and isinstance(n.op, ast.Mult):
        if _const(n.left) is not None and _is_name(n.right, var):
            return _const(n.left), 0
        if _const(n.right) is not None and _is_name(n.left, var):
            return _const(n.right), 0
    return None


def _subscript_parts(n):
    """(base chain, [index nodes]) of a Subscript."""
    if not isinstance(n, ast.Subscript):
        return None
    sl = n.slice
    idx = list(sl.elts) if isinstance(sl, ast.Tuple) else [sl]
    return _attr_chain(n.value), idx


def _repeat_factor(fn, what):
    for node in ast.walk(fn):
        if isinstance(node, ast.Call) and _attr_chain(node.func) in ("_np.repeat", "np.repeat") and len(node.args) == 2:
            ch = _attr_chain(node.args[0])
            if ch and ch.endswith("domain_indices") and _const(node.args[1]) is not None:
                return _const(node.args[1])
    raise GenError(f"{what}: `_np.repeat(<grid>.domain_indices, k)` not found")


def extract_refine(tree):
    cls = next((n for n in tree.body if isinstance(n, ast.ClassDef) and n.name == "Grid"), None)
    if cls is None:
        raise GenError("class Grid not found")
    fn = next((n for n in cls.body if isinstance(n, ast.FunctionDef) and n.name == "refine"), None)
    if fn is None:
        raise GenError("Grid.refine not found")
    loop = next((n for n in ast.walk(fn) if isinstance(n, ast.For)), None)
    if loop is None or not (isinstance(loop.target, ast.Tuple) and len(loop.target.elts) == 2):
        raise GenError("Grid.refine: loop `for index, elem in enumerate(...)` not found")
    ivar, evar = (e.id for e in loop.target.elts)
    names = {}
    children = {}
    for st in loop.body:
        if not isinstance(st, ast.Assign) or len(st.targets) != 1:
            raise GenError("Grid.refine: unexpected statement in the element loop")
        tgt, val = st.targets[0], st.value
        if isinstance(tgt, ast.Name):
            sp = _subscript_parts(val)
            if sp and sp[0] == evar and len(sp[1]) == 1 and _const(sp[1][0]) is not None:
                names[tgt.id] = (0, _const(sp[1][0]))
                continue
            if isinstance(val, ast.BinOp) and isinstance(val.op, ast.Add):
                sides = [val.left, val.right]
                sub = next((s for s in sides if isinstance(s, ast.Subscript)), None)
                oth = next((s for s in sides if s is not sub), None)
                sp = _subscript_parts(sub) if sub is not None else None
                if sp and sp[0] == "self.element_edges" and len(sp[1]) == 2 and _const(sp[1][0]) is not None \
                        and _is_name(sp[1][1], ivar) and _attr_chain(oth) == "self.number_of_vertices":
                    names[tgt.id] = (1, _const(sp[1][0]))
                    continue
            raise GenError(f"Grid.refine: cannot interpret `{ast.unparse(st)}`")
        sp = _subscript_parts(tgt)
        if sp and sp[0] == "new_elements" and len(sp[1]) == 2 and isinstance(sp[1][0], ast.Slice):
            si = _stride_index(sp[1][1], ivar)
            if si is None or si[0] != 4 or not isinstance(val, (ast.List, ast.Tuple)) or len(val.elts) != 3:
                raise GenError(f"Grid.refine: cannot interpret `{ast.unparse(st)}`")
            tri = []
            for e in val.elts:
                if not isinstance(e, ast.Name) or e.id not in names:
                    raise GenError(f"Grid.refine: unknown vertex name in `{ast.unparse(st)}`")
                tri.append(names[e.id])
            if si[1] in children:
                raise GenError(f"Grid.refine: child {si[1]} assigned twice")
            children[si[1]] = tri
            continue
        raise GenError(f"Grid.refine: cannot interpret `{ast.unparse(st)}`")
    if sorted(children) != [0, 1, 2, 3]:
        raise GenError(f"Grid.refine: children {sorted(children)} instead of 0..3")
    rep = _repeat_factor(fn, "Grid.refine")
    return [children[k] for k in range(4)], rep


def extract_bary(tree):
    fn = T.find_function(tree, "_create_barycentric_connectivity_array")
    loop = next((n for n in fn.body if isinstance(n, ast.For)), None)
    if loop is None or not _is_name(loop.target, "index"):
        raise GenError("_create_barycentric_connectivity_array: element loop not found")
    table = {}
    for st in loop.body:
        if not (isinstance(st, ast.Assign) and len(st.targets) == 1):
            continue
        sp = _subscript_parts(st.targets[0])
        if not sp or sp[0] != "new_elements":
            continue
        if len(sp[1]) != 2 or _const(sp[1][0]) is None:
            raise GenError(f"barycentric: cannot interpret `{ast.unparse(st)}`")
        row = _const(sp[1][0])
        si = _stride_index(sp[1][1], "index")
        if si is None or si[0] != 6:
            raise GenError(f"barycentric: cannot interpret `{ast.unparse(st)}`")
        val = st.value
        code = None
        if _is_name(val, "midpoint_index"):
            code = (2, 0)
        else:
            vp = _subscript_parts(val)
            if vp and vp[0] == "elements" and len(vp[1]) == 2 and _const(vp[1][0]) is not None and _is_name(vp[1][1], "index"):
                code = (0, _const(vp[1][0]))
            elif vp and vp[0] == "local_vertex_ids" and len(vp[1]) == 1 and _const(vp[1][0]) is not None:
                code = (1, _const(vp[1][0]))
        if code is None:
            raise GenError(f"barycentric: cannot interpret `{ast.unparse(st)}`")
        if (si[1], row) in table:
            raise GenError(f"barycentric: new_elements[{row}, 6*index+{si[1]}] assigned twice")
        table[(si[1], row)] = code
    if sorted(table) != [(s, r) for s in range(6) for r in range(3)]:
        raise GenError(f"barycentric: {len(table)} assignments instead of 18")
    fn2 = T.find_function(tree, "barycentric_refinement")
    rep = _repeat_factor(fn2, "barycentric_refinement")
    return [[table[(s, r)] for r in range(3)] for s in range(6)], rep


def extract_union_swap(tree):
    fn = T.find_function(tree, "union")
    for node in ast.walk(fn):
        if isinstance(node, ast.Subscript) and _attr_chain(node.value) == "grid.elements":
            sl = node.slice
            if isinstance(sl, ast.Tuple) and len(sl.elts) == 2 and isinstance(sl.elts[0], ast.List):
                perm = [_const(e) for e in sl.elts[0].elts]
                if None not in perm and len(perm) == 3:
                    return perm
    raise GenError("union: `grid.elements[[a, b, c], :]` not found")


def _code(c):
    return f"({c[0]}, {c[1]})"


def generate():
    try:
        tree = T.parse(REL)
        el = T.module_literal(tree, "_EDGE_LOCAL")
        if not (isinstance(el, list) and len(el) == 3 and all(isinstance(r, list) and len(r) == 2 for r in el)):
            raise GenError(f"_EDGE_LOCAL has unexpected shape: {el!r}")
        ref, rrep = extract_refine(tree)
        bary, brep = extract_bary(tree)
        perm = extract_union_swap(tree)
    except (T.ExtractError, SyntaxError, OSError) as e:
        raise GenError(f"grid constant extraction failed: {e}")
    body = [
        "-- GENERATED by props/c11_gen.py from bempp_cl/api/grid/grid.py -- do not edit",
        "namespace BemppVerif.Gen.GridConsts",
        "/-- `_EDGE_LOCAL`: local vertex indices of local edge l -/",
        "def edgeLocal : List (Nat × Nat) := [" + ", ".join(f"({int(a)}, {int(b)})" for a, b in el) + "]",
        "/-- vertex codes `(kind, index)`: kind 0 = parent vertex, 1 = midpoint vertex of local edge, 2 = barycentre -/",
        "abbrev Code := Nat × Nat",
        "/-- `Grid.refine`: vertex codes of child `4 * index + k`, k = 0..3 -/",
        "def refineChildren : List (Code × Code × Code) := [",
        ",\n".join("  (" + ", ".join(_code(c) for c in tri) + ")" for tri in ref),
        "]",
        f"def refineRepeat : Nat := {rrep}",
        "/-- `_create_barycentric_connectivity_array`: vertex codes of child `6 * index + s`, s = 0..5 -/",
        "def baryChildren : List (Code × Code × Code) := [",
        ",\n".join("  (" + ", ".join(_code(c) for c in tri) + ")" for tri in bary),
        "]",
        f"def baryRepeat : Nat := {brep}",
        "/-- `union`: row permutation applied to the elements of a grid with swapped normals -/",
        "def unionSwap : List Nat := [" + ", ".join(str(p) for p in perm) + "]",
        "end BemppVerif.Gen.GridConsts",
        "",
    ]
    ch = T.write_if_changed(os.path.join(LEAN, "BemppVerif/Gen/GridConsts.lean"), "\n".join(body))
    return {"GridConsts": dict(edge_local=el, refine_children=4, bary_assignments=18, union_swap=perm, changed=ch)}


if __name__ == "__main__":
    print(generate())
